#!/bin/bash
# usage: tools_mut.sh <patchfile|-> <check-id> [tier] ; applies the patch to a scratch worktree and runs the check against it
set -u
patch="$1"; id="$2"; tier="${3:-quick}"
wt=$(mktemp -d /tmp/vfwt.XXXXXX); rmdir "$wt"
git -C /repo worktree add -q --detach "$wt" HEAD || exit 3
if [ "$patch" != "-" ]; then git -C "$wt" apply "$patch" || { git -C /repo worktree remove --force "$wt"; exit 3; }; fi
if [ -n "${MUT_SED:-}" ]; then sed -i "$MUT_SED" "$wt/$MUT_FILE" || exit 3; git -C "$wt" diff --stat | cat; fi
VERIF_EVIDENCE_DIR=/tmp/vf-mut/evidence VERIF_REPLAY_DIR=/tmp/vf-mut/replays VERIF_REPO="$wt" /verif/check "$id" "$tier" ${4:-} 2>&1 | grep -v "^\[" | tail -8
rc=${PIPESTATUS[0]}
git -C /repo worktree remove --force "$wt"
echo "exit=$rc"
