#!/usr/bin/env python3
"""usage: tools_mark_fixed.py <PID> <commit> <kind-substring|ALL>  : known finding(s) -> fixed entry + regression replay"""
import json, os, sys
pid, commit, sel = sys.argv[1:4]
V = os.path.dirname(os.path.abspath(__file__))
frag = f"{V}/known_findings.d/{pid}.json"
d = json.load(open(frag))
main = json.load(open(f"{V}/known_findings.json"))
keep = []
for f in d["findings"]:
    if sel != "ALL" and sel not in f["kind"]:
        keep.append(f); continue
    rp = f.get("replay")
    newrp = None
    if rp and os.path.exists(f"{V}/{rp}"):
        newrp = os.path.join(os.path.dirname(rp), os.path.basename(rp).replace("known-", "regress-", 1))
        os.rename(f"{V}/{rp}", f"{V}/{newrp}")
    main["fixed"].append(f"fixed: property={pid} {commit} {f['what']} [kind {f['kind']}; regression replay {newrp}]")
    print("fixed:", f["kind"])
d["findings"] = keep
if keep:
    json.dump(d, open(frag, "w"), indent=1)
else:
    os.remove(frag)
json.dump(main, open(f"{V}/known_findings.json", "w"), indent=1)
