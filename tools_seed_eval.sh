#!/bin/bash
# usage: tools_seed_eval.sh <PID> <worktree-with-seed_out>  -> copies the seed to seeded/<PID>-<n>, confirms it (demo + stable tests), runs the check against it
pid="$1"; wt="$2"
n=1; while [ -e /verif/seeded/$pid-$n ]; do n=$((n+1)); done
sd=/verif/seeded/$pid-$n; mkdir -p $sd
cp $wt/seed_out/patch.diff $wt/seed_out/demo.py $wt/seed_out/meta.json $sd/ || exit 3
echo "seed dir: $sd"
/verif/tools_seed_confirm.sh $sd ${3:-} 2>&1 | tail -4
/verif/tools_mut.sh $sd/patch.diff $pid quick
