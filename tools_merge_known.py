#!/usr/bin/env python3
"""Merge known_findings.d/*.json into the single committed known_findings.json (findings sorted by property)."""
import glob, json, os
V = os.path.dirname(os.path.abspath(__file__))
main = json.load(open(f"{V}/known_findings.json"))
seen = {(f["property"], f["kind"]) for f in main.get("findings", [])}
for frag in sorted(glob.glob(f"{V}/known_findings.d/*.json")):
    d = json.load(open(frag))
    for f in d.get("findings", []):
        if f.get("status", "known") != "known":
            continue
        if "replay" not in f and "replay_file" in f:
            f["replay_note"] = "exercised by the property's `known-shapes` sub-check (not by the serial replay tier)"
        if (f["property"], f["kind"]) not in seen:
            main.setdefault("findings", []).append(f)
            seen.add((f["property"], f["kind"]))
    os.remove(frag)
main["findings"].sort(key=lambda f: (f["property"], f["kind"]))
json.dump(main, open(f"{V}/known_findings.json", "w"), indent=1, ensure_ascii=False)
print(len(main["findings"]), "known findings;", len(main.get("fixed", [])), "fixed entries")
