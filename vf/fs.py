"""File-tree *descriptions*, their deterministic materialisation, and canonical snapshots (DESIGN 2.5).

A description is JSON-serialisable (it is what goes into a replay file):

    {"alpha": "plain" | "hostile", "dangling": bool,
     "entries": [ {"k": "d", "n": name, "p": int},
                  {"k": "f", "n": name, "p": int, "size": int, "seed": int, "c": "bin"|"text"|"textnl", "x": 0..3},
                  {"k": "l", "n": name, "p": int, "t": int, "dangling": bool} , ... ]}

Interpretation (``expand``) is state-relative, so every description is valid and shrinks well:

* ``p`` selects the parent among the directories created so far that are less than ``MAX_DEPTH`` deep
  (``p % len(candidates)``; candidate 0 is the root);
* a name already used in that directory gets the suffix ``~<entry index>``;
* file content is ``content(size, seed, c)`` (shake-256 stream / printable text), never stored;
  ``x`` selects the mode: 0 -> 0o644, 1 -> 0o755, 2 -> 0o700, 3 -> 0o600;
* a link points (relative path, inside the tree) at the entry ``t % len(entries so far)`` - a file, a
  directory or another link - or at a missing name when ``dangling`` is set or nothing exists yet. A
  link to a directory that would make the *dereferenced* tree cyclic, or push the dereferenced size
  above ``max_deref`` bytes, is downgraded to a link to a missing name (so ``tar -h``-style copies of a
  generated tree are always finite). With ``"dangling": false`` every link that would dangle is dropped.

``materialize(desc, root)`` creates the tree below ``root`` (created if missing) and returns the expanded
entry list. ``snapshot(root)`` returns the canonical ``{relpath: (type, exec bits, sha1 | link target)}``
(``"."`` is the root itself; type is ``"d"``, ``"f"`` or ``"l"``; exec bits are ``mode & 0o111`` for
regular files and 0 otherwise). ``snapshot(root, deref=True)`` is the view a symlink-following copy
(``tar chf``, ``aiotarstream`` with ``dereference=True``, ``shutil.copytree``) reproduces: links are
replaced by what they point to, dangling links are reported as ``("l", 0, target)``.

Names come from two alphabets kept as *separate classes*: ``plain`` (``[A-Za-z0-9._-]``, not starting
with ``-``) and ``hostile`` (blanks, quotes, ``$``, backtick, glob characters, backslash, shell
operators, unicode incl. combining and 4-byte characters, leading ``-``, trailing blank); long names
(101..200 bytes) occur in both; names containing a newline only with ``newline_names=True``.
``name_features(name)`` classifies a name by what it actually contains (for histograms).
"""
from __future__ import annotations

import hashlib
import os
import stat
from typing import Any

from hypothesis import strategies as st

MAX_DEPTH = 4
MODES = (0o644, 0o755, 0o700, 0o600)
PLAIN_CHARS = "ABCDEFGHIJKLMNOPQRSTUVWXYZabcdefghijklmnopqrstuvwxyz0123456789._-"
HOSTILE_PIECES = (
    " ", "  ", "'", '"', "$", "`", "*", "?", "[", "]", "\\", ";", "&", "|", "(", ")", "<", ">", "#", "~",
    "%", "!", "{", "}", "=", ":", ",", "-", "--", "$HOME", "$(id)", "`id`", "${x}", "%s", "\t",
    "\u00e9", "e\u0301", "\u00df", "\u65e5\u672c", "\U0001f600", "\u202e", "a", "b", "Z", "0", ".", "_",
)
SIZES = (0, 0, 1, 1, 2, 100, 511, 512, 513, 1023, 1024, 1025, 4095, 4096, 4097, 10239, 10240, 10241,
         65535, 65536, 65537, 131072, 1048575, 1048576)

def current_tier() -> str:
    """"quick" | "thorough" for strategies that are built lazily (``prop.given(name, callable, ...)``): the
    runner calls ``sub.strategy()`` from ``_run_given(sub, state, seed, n, tier)``. ``VERIF_TIER`` wins if the
    runner exports it; otherwise the tier is read from that caller's frame; default "quick"."""
    import sys

    t = os.environ.get("VERIF_TIER")
    if t in ("quick", "thorough"):
        return t
    f = sys._getframe(1)
    for _ in range(6):
        if f is None:
            break
        if f.f_code.co_name == "_run_given" and f.f_locals.get("tier") in ("quick", "thorough"):
            return f.f_locals["tier"]
        f = f.f_back
    return "quick"


# ------------------------------------------------------------------------------------------------
# strategies


def plain_names() -> st.SearchStrategy[str]:
    return st.text(alphabet=PLAIN_CHARS, min_size=1, max_size=12).filter(
        lambda s: not s.startswith("-") and s not in (".", "..")
    )


def hostile_names(newline: bool = False) -> st.SearchStrategy[str]:
    pieces = HOSTILE_PIECES + (("\n", "a\nb") if newline else ())
    body = st.lists(st.sampled_from(pieces), min_size=1, max_size=5).map("".join)
    shaped = st.one_of(
        body,
        body.map(lambda s: "-" + s),  # leading dash
        body.map(lambda s: s + " "),  # trailing blank
        body.map(lambda s: " " + s),
        st.sampled_from(["-rf", "--help", "-", "a b", "it's", 'say "hi"', "*", "?", "[a]", "~", "$0", "a;b", "x&", "#c"]),
    )
    return shaped.filter(lambda s: s not in (".", "..") and "/" not in s and "\0" not in s)


def _long(names: st.SearchStrategy[str], fills=("L", "x", "\u00e9", "-", " y")) -> st.SearchStrategy[str]:
    """Names of 101..200 *bytes* (tar's 100-byte name field and ustar's 155+100 split are exceeded)."""

    def stretch(args):
        name, target, fill = args
        out = name
        while len(out.encode()) < target:
            out += fill
        while len(out.encode()) > 200:
            out = out[:-1]
        return out

    return st.tuples(names, st.sampled_from([101, 102, 128, 155, 156, 157, 199, 200]), st.sampled_from(list(fills))).map(stretch)


def names(alphabet: str = "plain", long_names: bool = True, newline_names: bool = False) -> st.SearchStrategy[str]:
    if alphabet == "plain":
        base = plain_names()
    elif alphabet == "hostile":
        # some plain names stay in, so that hostile and plain siblings coexist
        base = st.one_of(hostile_names(newline_names), hostile_names(newline_names), hostile_names(newline_names), plain_names())
    else:
        raise ValueError(alphabet)
    if not long_names:
        return base
    if alphabet == "plain":
        longs = _long(plain_names(), fills=("L", "x", "-", "_0", "."))
    else:
        longs = _long(st.one_of(plain_names(), hostile_names(newline_names)))
    return st.one_of(*([base] * 7), longs)


def sizes(max_size: int = 65536 + 1) -> st.SearchStrategy[int]:
    fixed = [s for s in SIZES if s <= max_size] or [0]
    return st.one_of(st.sampled_from(fixed), st.sampled_from(fixed), st.integers(0, min(max_size, 5000)), st.integers(0, max_size))


def trees(
    alphabet: str = "plain",
    *,
    max_entries: int = 30,
    max_size: int = 65536 + 1,
    long_names: bool = True,
    symlinks: bool = True,
    dangling: bool = True,
    newline_names: bool = False,
    min_entries: int = 0,
) -> st.SearchStrategy[dict]:
    """Strategy for tree descriptions. ``alphabet`` = "plain" | "hostile" (separate classes: build one
    strategy per class and combine them with ``st.one_of`` if both are wanted)."""
    nm = names(alphabet, long_names, newline_names)
    par = st.integers(0, 63)
    d = st.fixed_dictionaries({"k": st.just("d"), "n": nm, "p": par})
    f = st.fixed_dictionaries(
        {"k": st.just("f"), "n": nm, "p": par, "size": sizes(max_size), "seed": st.integers(0, 999),
         "c": st.sampled_from(["bin", "bin", "text", "textnl"]), "x": st.sampled_from([0, 0, 1, 1, 2, 3])}
    )
    kinds = [d, d, f, f, f]
    if symlinks:
        link = st.fixed_dictionaries(
            {"k": st.just("l"), "n": nm, "p": par, "t": st.integers(0, 63),
             "dangling": st.sampled_from([False] * 5 + [True]) if dangling else st.just(False)}
        )
        kinds.append(link)
    return st.fixed_dictionaries(
        {"alpha": st.just(alphabet), "dangling": st.just(bool(dangling and symlinks)),
         "entries": st.lists(st.one_of(*kinds), min_size=min_entries, max_size=max_entries)}
    )


# ------------------------------------------------------------------------------------------------
# deterministic expansion


def content(size: int, seed: int, kind: str = "bin") -> bytes:
    """Deterministic file content. ``bin``: shake-256 stream; ``text``: printable lines without a trailing
    newline; ``textnl``: the same with a trailing newline (when size > 0)."""
    if size <= 0:
        return b""
    if kind == "bin":
        return hashlib.shake_256(b"vf-fs:%d" % seed).digest(size)
    raw = hashlib.shake_256(b"vf-fs-text:%d" % seed).digest(size)
    out = bytearray(size)
    for i, b in enumerate(raw):
        out[i] = 10 if b % 41 == 0 else 32 + b % 95
    if kind == "textnl":
        out[-1] = 10
    elif out[-1] in (10, 32):
        out[-1] = ord("z")
    return bytes(out)


def expand(desc: dict, max_deref: int = 8 * 2**20) -> list[dict]:
    """Concrete entries in creation order: ``{"path", "type": "dir"|"file"|"link", ...}`` with ``mode``,
    ``size``/``seed``/``c`` for files and ``target`` (relative link text), ``to`` (path pointed at, or None
    when dangling) for links."""
    out: list[dict] = []
    dirs: list[str] = [""]  # candidate parents (depth < MAX_DEPTH); "" is the root
    used: set[str] = set()
    kind_of: dict[str, str] = {"": "dir"}
    # dereferenced-structure bookkeeping: children of each directory, link edges
    children: dict[str, list[str]] = {"": []}
    link_to: dict[str, str | None] = {}

    def resolve(p: str) -> str | None:
        seen = 0
        while p is not None and kind_of.get(p) == "link":
            p = link_to.get(p)
            seen += 1
            if seen > 64:
                return None
        return p

    def reaches(src: str, goal: str) -> bool:
        """Is directory ``goal`` reachable from directory ``src`` in the dereferenced structure?"""
        stack, seen = [src], set()
        while stack:
            cur = stack.pop()
            if cur == goal:
                return True
            if cur in seen:
                continue
            seen.add(cur)
            for ch in children.get(cur, []):
                r = resolve(ch)
                if r is not None and kind_of.get(r) == "dir":
                    stack.append(r)
        return False

    sizes_of: dict[str, int] = {}

    def deref_size(p: str, memo: dict[str, int]) -> int:
        r = resolve(p)
        if r is None:
            return 0
        if kind_of[r] == "file":
            return sizes_of[r]
        if r in memo:
            return memo[r]
        memo[r] = 0  # (acyclic by construction)
        memo[r] = sum(deref_size(ch, memo) for ch in children.get(r, [])) + 1
        return memo[r]

    for i, e in enumerate(desc.get("entries", [])):
        parent = dirs[e["p"] % len(dirs)]
        name = e["n"]
        path = f"{parent}/{name}" if parent else name
        if path in used:
            name = f"{name}~{i}"
            while len(name.encode()) > 255:
                name = name[1:]
            path = f"{parent}/{name}" if parent else name
            if path in used:
                continue
        used.add(path)
        depth = path.count("/") + 1
        if e["k"] == "d":
            out.append({"path": path, "type": "dir", "mode": 0o755})
            kind_of[path] = "dir"
            children[path] = []
            children[parent].append(path)
            if depth < MAX_DEPTH:
                dirs.append(path)
        elif e["k"] == "f":
            out.append({"path": path, "type": "file", "mode": MODES[e.get("x", 0) % 4], "size": e["size"],
                        "seed": e["seed"], "c": e.get("c", "bin")})
            kind_of[path] = "file"
            sizes_of[path] = e["size"]
            children[parent].append(path)
        else:
            to: str | None = None
            if out and not e.get("dangling"):
                to = out[e["t"] % len(out)]["path"]
                final = resolve(to)
                if final is not None and kind_of.get(final) == "dir" and (final == "" or reaches(final, parent)):
                    to = None
            kind_of[path] = "link"
            link_to[path] = to
            children[parent].append(path)
            if to is not None and deref_size("", {}) > max_deref:
                to = None
                link_to[path] = None
            if to is None and not desc.get("dangling", True):
                # dangling links are not wanted in this tree: the entry is dropped
                del kind_of[path], link_to[path]
                children[parent].remove(path)
                used.discard(path)
                continue
            target = os.path.relpath(to, parent or ".") if to is not None else f"missing-{i}"
            out.append({"path": path, "type": "link", "target": target, "to": to})
    return out


def materialize(desc: dict, root: str, max_deref: int = 8 * 2**20) -> list[dict]:
    os.makedirs(root, exist_ok=True)
    entries = expand(desc, max_deref)
    for e in entries:
        p = os.path.join(root, e["path"])
        if e["type"] == "dir":
            os.mkdir(p)
            os.chmod(p, e["mode"])
        elif e["type"] == "file":
            with open(p, "wb") as fh:
                fh.write(content(e["size"], e["seed"], e["c"]))
            os.chmod(p, e["mode"])
        else:
            os.symlink(e["target"], p)
    return entries


# ------------------------------------------------------------------------------------------------
# snapshots


def sha1_file(path: str) -> str:
    h = hashlib.sha1(usedforsecurity=False)
    with open(path, "rb") as fh:
        while chunk := fh.read(1 << 20):
            h.update(chunk)
    return h.hexdigest()


def snapshot(root: str, deref: bool = False, follow_root: bool = False) -> dict[str, tuple]:
    """Canonical ``{relpath: (type, exec bits, sha1 | link target | None)}`` of ``root`` (a directory, a
    file, a link, or nothing: ``{}``). ``deref=True`` follows every link (root included)."""
    snap: dict[str, tuple] = {}

    def visit(path: str, rel: str, follow: bool, depth: int) -> None:
        try:
            st_ = os.stat(path) if follow else os.lstat(path)
        except FileNotFoundError:
            if follow and os.path.islink(path):
                snap[rel] = ("l", 0, os.readlink(path))
            return
        except OSError as err:  # ELOOP and friends: report, never loop
            snap[rel] = ("error", 0, type(err).__name__)
            return
        if stat.S_ISLNK(st_.st_mode):
            snap[rel] = ("l", 0, os.readlink(path))
        elif stat.S_ISDIR(st_.st_mode):
            snap[rel] = ("d", 0, None)
            if depth > 40:
                snap[rel] = ("error", 0, "too-deep")
                return
            for name in sorted(os.listdir(path)):
                visit(os.path.join(path, name), name if rel == "." else f"{rel}/{name}", deref, depth + 1)
        elif stat.S_ISREG(st_.st_mode):
            snap[rel] = ("f", st_.st_mode & 0o111, sha1_file(path))
        else:
            snap[rel] = ("other", 0, stat.S_IFMT(st_.st_mode))

    visit(root, ".", deref or follow_root, 0)
    return snap


def expected_snapshot(entries: list[dict], deref: bool = False) -> dict[str, tuple]:
    """The snapshot a materialised description must have, computed from the description alone (used to
    validate ``materialize``/``snapshot`` against each other and as a filesystem-free oracle)."""
    by_path = {e["path"]: e for e in entries}
    kids: dict[str, list[str]] = {"": []}
    for e in entries:
        parent = e["path"].rsplit("/", 1)[0] if "/" in e["path"] else ""
        kids.setdefault(parent, []).append(e["path"])
        if e["type"] == "dir":
            kids.setdefault(e["path"], [])
    snap: dict[str, tuple] = {".": ("d", 0, None)}

    def final(p: str | None):
        n = 0
        while p is not None and p != "" and by_path[p]["type"] == "link":
            p = by_path[p]["to"]
            n += 1
            if n > 64:
                return None
        return p

    def emit(p: str, rel: str) -> None:
        e = by_path[p]
        if e["type"] == "link" and deref:
            tgt = final(p)
            if tgt is None:
                snap[rel] = ("l", 0, e["target"])
                return
            e = by_path[tgt]
            p = tgt
        if e["type"] == "link":
            snap[rel] = ("l", 0, e["target"])
        elif e["type"] == "file":
            snap[rel] = ("f", e["mode"] & 0o111, hashlib.sha1(content(e["size"], e["seed"], e["c"]), usedforsecurity=False).hexdigest())
        else:
            snap[rel] = ("d", 0, None)
            for ch in kids.get(p, []):
                emit(ch, f"{rel}/{ch.rsplit('/', 1)[-1]}")

    for top in kids[""]:
        emit(top, top)
    return snap


def diff_snapshots(expected: dict, got: dict, limit: int = 6) -> str:
    """Human-readable difference (both directions), empty string when equal."""
    lines = []
    for k in sorted(set(expected) | set(got)):
        a, b = expected.get(k), got.get(k)
        if a is not None:
            a = tuple(a)
        if b is not None:
            b = tuple(b)
        if a != b:
            lines.append(f"{k!r}: expected {a}, got {b}")
    more = len(lines) - limit
    return "\n".join(lines[:limit] + ([f"... and {more} more"] if more > 0 else []))


# ------------------------------------------------------------------------------------------------
# classification


def name_features(name: str) -> set[str]:
    f: set[str] = set()
    if all(c in PLAIN_CHARS for c in name) and not name.startswith("-"):
        f.add("plain")
    else:
        f.add("hostile")
    if " " in name or "\t" in name:
        f.add("blank")
    if name.endswith(" "):
        f.add("trailing-blank")
    if "'" in name or '"' in name:
        f.add("quote")
    if "$" in name or "`" in name:
        f.add("dollar-backtick")
    if any(c in name for c in "*?["):
        f.add("glob")
    if "\\" in name:
        f.add("backslash")
    if any(c in name for c in ";&|()<>#~!{}"):
        f.add("shell-op")
    if name.startswith("-"):
        f.add("leading-dash")
    if any(ord(c) > 127 for c in name):
        f.add("unicode")
    if "\n" in name:
        f.add("newline")
    if len(name.encode()) > 100:
        f.add("long")
    return f


def tree_features(entries: list[dict]) -> set[str]:
    """Measured classes of an expanded tree (for ``rec.label``)."""
    f: set[str] = set()
    if not entries:
        f.add("tree:empty")
    by_path = {e["path"]: e for e in entries}
    has_child = {e["path"].rsplit("/", 1)[0] for e in entries if "/" in e["path"]}
    for e in entries:
        for feat in name_features(e["path"].rsplit("/", 1)[-1]):
            f.add(f"name:{feat}")
        if len(e["path"].encode()) > 100:
            f.add("path>100")
        if e["path"].count("/") + 1 >= MAX_DEPTH:
            f.add("depth:max")
        if e["type"] == "dir":
            f.add("dir:nested" if "/" in e["path"] else "dir")
            if e["path"] not in has_child:
                f.add("dir:empty")
        elif e["type"] == "file":
            s = e["size"]
            f.add("file:empty" if s == 0 else "file:<512" if s < 512 else "file:512-multiple" if s % 512 == 0
                  else "file:>=64KiB" if s >= 65536 else "file:multi-block")
            if e["mode"] & 0o111:
                f.add("file:exec")
        else:
            if e["to"] is None:
                f.add("link:dangling")
            else:
                t = by_path[e["to"]]["type"]
                f.add({"dir": "link:to-dir", "file": "link:to-file", "link": "link:to-link"}[t])
    return f


def _selftest() -> None:
    import shutil
    import tempfile

    from hypothesis import HealthCheck, given, seed, settings

    counts: dict[str, int] = {}

    @seed(1)
    @settings(max_examples=300, database=None, deadline=None, suppress_health_check=list(HealthCheck))
    @given(st.one_of(trees("plain"), trees("hostile", newline_names=True)))
    def run(desc: dict[str, Any]) -> None:
        root = tempfile.mkdtemp(prefix="vf-fs-")
        try:
            entries = materialize(desc, os.path.join(root, "t"))
            for feat in tree_features(entries):
                counts[feat] = counts.get(feat, 0) + 1
            for deref in (False, True):
                got = snapshot(os.path.join(root, "t"), deref=deref)
                exp = expected_snapshot(entries, deref=deref)
                assert got == exp, diff_snapshots(exp, got)
        finally:
            shutil.rmtree(root, ignore_errors=True)

    run()
    for k in sorted(counts):
        print(f"{k:24s} {counts[k]}")
    print("OK")


if __name__ == "__main__":
    _selftest()
