"""Recovery scenario kit shared by C16, C17, C18, C19.

The *protocol* is the one of the repository's recovery tests (tests/test_recovery.py with
tests/utils/workflow.py): workflows are CWLWorkflow instances made of DeployStep, ScheduleStep,
TransferStep, ExecuteStep (+ ScatterStep / GatherStep / the loop sub-graph) on a *local* deployment whose
working directory is volatile; real small files; ``failureManager: {type: default, config:
{max_retries: N, retry_delay: 0}}``; failures are injected in the schedule, transfer or execute phase of
a job, either *soft* (the phase fails, no data is lost) or *fail-stop* (the working directory of the
job's deployment is deleted, then the phase fails).

What differs from the repository's helpers (and why):

* failure injection uses in-memory counters keyed by ``(job name, phase)`` (the test helpers count by
  re-loading every workflow from the database; ~40x slower);
* commands transform their inputs with ``os`` calls in the event-loop thread (the test helper spawns
  ``cp``): no thread, no subprocess, so the deterministic loop's deadlock detector is exact;
* every job *start*, injected failure, deletion, completion and every ``FailureManager.recover`` call is
  appended to an execution log (harness side, independent of the database);
* each command appends a label to the content it reads, so the expected workflow output is predicted by a
  plain-Python reference (``reference_output``) that shares no code with StreamFlow.

Classes defined here are persisted by StreamFlow under their qualified name and re-instantiated by
``WorkflowBuilder`` when a recovery workflow is built; the injection state therefore lives in the module
global ``_RUN`` (one scenario at a time per process).

Determinism (checked: identical execution logs for 80 random scenarios in different processes, with and
without PYTHONHASHSEED): nothing in these scenarios uses a thread or a subprocess -- every
``LocalStreamFlowPath`` operation is a synchronous ``os``/``pathlib`` call (only ``checksum()`` of files
> 2 KiB uses ``to_thread``; the kit never calls it), local-to-local transfers are ``shutil`` copies in the
loop thread, ``LocalConnector.run`` (a subprocess) is never called because the kit's commands do their
work with ``os`` calls, the database is the synchronous sqlite adapter. Three remaining sources of
arbitrariness are pinned for the duration of a scenario: ``uuid.uuid4`` (port / directory names),
``asyncio.wait`` (StreamFlow iterates over the *sets* it returns, i.e. in memory-address order; the
wrapper returns insertion-ordered sets, permuted by the case's ``wait_order``) and the scratch directory
is the only run-dependent string (no behaviour was seen to depend on it).

Fail-stop follows tests/utils/workflow.py::_delete_job_workdir: the *whole* working directory of the
job's deployment is removed, i.e. the data of every job on that deployment (also of jobs still running,
which then fail "collaterally" with the repository's own error paths). Shapes may spread their steps
over up to three volatile local deployments so that some data survives a fail-stop.
"""
from __future__ import annotations

import asyncio
import json
import os
import posixpath
import shutil
import tempfile
import uuid
from collections.abc import MutableMapping, MutableSequence
from typing import Any, cast

from vf.core import HarnessError
from vf.engine import harness as _harness  # noqa: F401  (installs the synchronous sqlite adapter)
from vf.engine.detloop import Chaos, pending_tasks, settle

from streamflow.core.config import BindingConfig  # noqa: E402
from streamflow.core.data import DataType  # noqa: E402
from streamflow.core.deployment import DeploymentConfig, Target  # noqa: E402
from streamflow.core.exception import WorkflowExecutionException  # noqa: E402
from streamflow.core.utils import get_entity_ids, get_tag  # noqa: E402
from streamflow.core.workflow import Command, CommandOutput, Job, Status, Token  # noqa: E402
from streamflow.cwl.transformer import ForwardTransformer  # noqa: E402
from streamflow.cwl.workflow import CWLWorkflow  # noqa: E402
from streamflow.data.remotepath import StreamFlowPath  # noqa: E402
from streamflow.deployment.utils import get_path_processor  # noqa: E402
from streamflow.workflow.combinator import LoopCombinator, LoopTerminationCombinator  # noqa: E402
from streamflow.workflow.executor import StreamFlowExecutor  # noqa: E402
from streamflow.workflow.port import ConnectorPort, JobPort  # noqa: E402
from streamflow.workflow.step import (  # noqa: E402
    CombinatorStep,
    ConditionalStep,
    DefaultCommandOutputProcessor,
    DeployStep,
    ExecuteStep,
    GatherStep,
    InputInjectorStep,
    LoopCombinatorStep,
    LoopOutputStep,
    ScatterStep,
    ScheduleStep,
    TransferStep,
)
from streamflow.workflow.token import (  # noqa: E402
    FileToken,
    IterationTerminationToken,
    JobToken,
    ListToken,
    ObjectToken,
    TerminationToken,
)
from streamflow.workflow.utils import get_job_token  # noqa: E402

VOLATILE = "test-fs-volatile"
PHASES = ("schedule", "transfer", "execute")
KINDS = ("soft", "stop")

# -------------------------------------------------------------------------------------------------
# execution log + failure plan (harness state of the scenario being run)


class Run:
    """Failure plan, execution log and data-availability bookkeeping of one scenario run."""

    def __init__(self, plan: list[dict], chaos: Chaos | None):
        self.chaos = chaos
        self.seq = 0
        self.events: list[dict] = []
        # (job, phase) -> [kind, remaining times]
        self.remaining: dict[tuple[str, str], list] = {}
        # kind "lose": jobs whose latest output instance is deleted when the failure is injected
        self.victims: dict[tuple[str, str], list[str]] = {}
        for p in plan:
            key = (p["job"], p["phase"])
            if key in self.remaining:
                raise HarnessError(f"duplicate failure point {key}")
            self.remaining[key] = [p["kind"], int(p["times"])]
            self.victims[key] = list(p.get("victims", []))
        # job -> output instances [{"seq": seq of the "done" event, "files": [paths]}] (every completed execution)
        self.hist: dict[str, list[dict]] = {}
        self.content: dict[str, str] = {}  # path -> content written (logical value of an output file)
        self.written_seq: dict[str, int] = {}  # path -> seq of the "done" event that wrote it
        self.open_recoveries: dict[int, dict] = {}
        self.wf_rid: dict[int, int | None] = {}  # recovery workflow id -> rid of the recover() call that built it
        self.rid = 0
        self.max_open = 0
        self.harness_errors: list[str] = []  # exceptions raised by kit code itself (never swallowed)
        # cost bound (by count, never by time): recover() calls allowed in this scenario; beyond it every
        # further recovery is refused by the harness, which makes the workflow fail at once
        self.recover_cap: int = 1 << 30
        self.capped = False
        # C19: jobs whose first execution waits until all of them have started, so that their
        # failures are injected in the same loop turn (job durations are arbitrary: feasible schedule)
        self.barrier: set[str] = {p["job"] for p in plan if p.get("barrier")}
        self.arrived: set[str] = set()
        self.gate: asyncio.Event | None = None

    def ev(self, ev: str, job: str, **kw) -> dict:
        self.seq += 1
        e = {"seq": self.seq, "ev": ev, "job": job, **kw}
        self.events.append(e)
        return e

    def take(self, job: str, phase: str) -> str | None:
        """Failure to inject now at (job, phase): 'soft' | 'stop' | None. Consumes one planned failure."""
        slot = self.remaining.get((job, phase))
        if slot and slot[1] > 0:
            slot[1] -= 1
            return slot[0]
        return None

    def missing(self) -> list[str]:
        """jobs with at least one output instance (of any completed execution) not on disk right now.
        Recovery follows the provenance of the *token instances* a failed job consumed, so what matters
        for "data it produced became unavailable" is every instance, not only the newest one."""
        return sorted(
            j for j, insts in self.hist.items() if any(not os.path.exists(f) for i in insts for f in i["files"])
        )

    def missing_instances(self) -> set:
        return {(j, i["seq"]) for j, insts in self.hist.items() for i in insts if any(not os.path.exists(f) for f in i["files"])}

    def record_done(self, job: str, files: list[str], contents: dict[str, str]) -> None:
        e = self.ev("done", job)
        self.hist.setdefault(job, []).append({"seq": e["seq"], "files": list(files)})
        for path, text in contents.items():
            self.content[path] = text
            self.written_seq[path] = e["seq"]

    # convenience views ---------------------------------------------------------------------------
    def count(self, kind: str) -> dict[str, int]:
        out: dict[str, int] = {}
        for e in self.events:
            if e["ev"] == kind:
                out[e["job"]] = out.get(e["job"], 0) + 1
        return out


_RUN: Run | None = None
LAST_RUN: Run | None = None
import contextvars  # noqa: E402

_CUR_RID: contextvars.ContextVar = contextvars.ContextVar("vf_recovery_rid", default=None)


def _run() -> Run:
    if _RUN is None:
        raise HarnessError("recovery_kit step used outside run_scenario")
    return _RUN


async def _pause() -> None:
    r = _run()
    if r.chaos is not None:
        await r.chaos.point()


def _guard(fn):
    """Kit code runs inside ``recoverable`` wrappers that turn *any* exception into a recovery: a bug
    in the kit must not pass as an injected failure, so everything but the documented failure type is
    recorded and reported as a harness error at the end of the scenario."""
    import functools
    import traceback

    @functools.wraps(fn)
    async def wrapper(*a, **k):
        try:
            return await fn(*a, **k)
        except (WorkflowExecutionException, asyncio.CancelledError):
            raise
        except Exception as e:  # noqa: BLE001
            tb = traceback.extract_tb(e.__traceback__)
            if tb and tb[-1].filename == __file__:
                _run().harness_errors.append("".join(traceback.format_exception(e))[-1500:])
            raise

    return wrapper


def _delete_workdir(context, job: Job) -> None:
    """Fail-stop: delete the working directory of the deployment the job is allocated on (what
    tests/utils/workflow.py::_delete_job_workdir does), with plain ``shutil`` in the loop thread."""
    workdir = os.path.dirname(job.output_directory) if job.output_directory else context.scheduler.get_allocation(job.name).target.workdir
    if not os.path.basename(workdir).startswith(VOLATILE):
        raise HarnessError(f"refusing to delete {workdir}")
    r = _run()
    before = r.missing_instances()
    shutil.rmtree(workdir, ignore_errors=True)
    # jobs that lose an output instance *now* (a job appears again when a regenerated instance is lost)
    lost = sorted({j for j, _ in r.missing_instances() - before})
    r.ev("delete", job.name, workdir=os.path.basename(workdir), lost=lost)
    for rec in r.open_recoveries.values():
        rec["lost_during"].update(lost)


def _delete_outputs(job: Job, victims: list[str]) -> None:
    """Selective loss: the output directory of the latest completed execution of each victim job
    vanishes (a single directory lost on a volatile location); everything else stays on disk."""
    r = _run()
    before = r.missing_instances()
    for v in victims:
        insts = r.hist.get(v) or []
        if insts:
            for d in sorted({os.path.dirname(f) for f in insts[-1]["files"]}):
                if VOLATILE not in d:
                    raise HarnessError(f"refusing to delete {d}")
                shutil.rmtree(d, ignore_errors=True)
    lost = sorted({j for j, _ in r.missing_instances() - before})
    r.ev("delete", job.name, workdir="outputs:" + ",".join(victims), lost=lost)
    for rec in r.open_recoveries.values():
        rec["lost_during"].update(lost)


def _inject(context, job: Job, phase: str) -> bool:
    r = _run()
    kind = r.take(job.name, phase)
    if kind is None:
        return False
    r.ev("fail", job.name, phase=phase, kind=kind)
    if kind == "stop":
        _delete_workdir(context, job)
    elif kind == "lose":
        _delete_outputs(job, r.victims.get((job.name, phase), []))
    return True


# -------------------------------------------------------------------------------------------------
# tokens, output processor, injector (same behaviour as BaseFileToken / EvalCommandOutputProcessor /
# BaseInputInjectorStep / build_token of tests/utils/workflow.py)


class KitFileToken(FileToken):
    __slots__ = ()

    async def get_paths(self, context) -> MutableSequence[str]:
        return [self.value]


def _is_file_value(v: Any) -> bool:
    return isinstance(v, MutableMapping) and v.get("class") == "File"


def _register(context, job: Job, path: str) -> None:
    locations = context.scheduler.get_locations(job.name)
    if not locations:
        raise WorkflowExecutionException(f"Job {job.name} has no allocated location")
    location = next(iter(locations))
    real = os.path.realpath(path)
    if real != path:
        raise HarnessError(f"kit files must be real paths: {path} -> {real}")
    relpath = (
        os.path.relpath(path, job.output_directory)
        if job.output_directory and path.startswith(job.output_directory)
        else os.path.basename(path)
    )
    context.data_manager.register_path(location=location, path=path, relpath=relpath, data_type=DataType.PRIMARY)


def build_token(job: Job, value: Any, context, recoverable: bool) -> Token:
    tag = get_tag(job.inputs.values())
    if isinstance(value, MutableSequence):
        return ListToken(tag=tag, value=[build_token(job, v, context, recoverable) for v in value])
    if _is_file_value(value):
        _register(context, job, value["path"])
        return KitFileToken(tag=tag, value=value["path"], recoverable=recoverable)
    if isinstance(value, MutableMapping):
        return ObjectToken(tag=tag, value={k: build_token(job, v, context, recoverable) for k, v in value.items()})
    return Token(tag=tag, value=value, recoverable=recoverable)


class KitInjector(InputInjectorStep):
    async def process_input(self, job: Job, token_value: Any) -> Token:
        return build_token(job, token_value, self.workflow.context, recoverable=True)


class KitOutputProcessor(DefaultCommandOutputProcessor):
    async def process(self, job, command_output, connector=None, recoverable: bool = False):
        value = (await command_output).value
        context = self.workflow.context
        for f in _leaves(value):
            if _is_file_value(f) and not os.path.exists(f["path"]):
                raise WorkflowExecutionException(f"Job {job.name} output does not exist: File {f['path']}")
        return build_token(job, value, context, recoverable)


def _leaves(value: Any):
    if isinstance(value, MutableSequence):
        for v in value:
            yield from _leaves(v)
    elif isinstance(value, MutableMapping) and not _is_file_value(value):
        for v in value.values():
            yield from _leaves(v)
    else:
        yield value


# -------------------------------------------------------------------------------------------------
# command: a labelled transformation of the inputs, executed in the loop thread


def _read(token: Token, job: Job) -> Any:
    """token -> plain value (file content for files)"""
    if isinstance(token, ListToken):
        return [_read(t, job) for t in token.value]
    if isinstance(token, ObjectToken):
        return {k: _read(t, job) for k, t in token.value.items()}
    if isinstance(token, FileToken):
        try:
            with open(token.value) as fh:
                return {"file": fh.read()}
        except OSError as e:
            raise WorkflowExecutionException(f"Job {job.name} input does not exist: File {token.value}") from e
    return token.value


def apply_label(value: Any, label: str) -> Any:
    """the function every kit command computes on one input (also used by the reference)"""
    if isinstance(value, list):
        return [apply_label(v, label) for v in value]
    if isinstance(value, dict):
        if "file" in value and len(value) == 1:
            return {"file": value["file"] + "|" + label}
        return {k: apply_label(v, label) for k, v in value.items()}
    if isinstance(value, int):
        return (value * 31 + sum(label.encode())) % 1000003
    return f"{value}|{label}"


def join_values(values: list[Any], label: str) -> Any:
    """function of a command with several inputs (diamond join): leaf-wise concatenation"""
    first = values[0]
    if isinstance(first, list):
        return [join_values([v[i] for v in values], label) for i in range(len(first))]
    if isinstance(first, dict) and not ("file" in first and len(first) == 1):
        return {k: join_values([v[k] for v in values], label) for k in first}
    if isinstance(first, dict):
        return {"file": "(" + "+".join(v["file"] for v in values) + ")|" + label}
    if isinstance(first, int):
        return (sum((i + 1) * v for i, v in enumerate(values)) * 31 + sum(label.encode())) % 1000003
    return "(" + "+".join(str(v) for v in values) + ")|" + label


class KitCommand(Command):
    """spec: {"label": str, "op": "map"|"join"|"inc", "ports": [input port names in order]}"""

    def __init__(self, step, spec: dict):
        super().__init__(step)
        self.spec = spec

    async def _save_additional_params(self, database):
        return {"spec": json.dumps(self.spec)}

    @classmethod
    async def _load(cls, row, loading_context, step):
        return cls(step=step, spec=json.loads(row["spec"]))

    def _write(self, job: Job, value: Any, files: dict[str, str], counter: list[int]) -> Any:
        if isinstance(value, list):
            return [self._write(job, v, files, counter) for v in value]
        if isinstance(value, dict) and "file" in value and len(value) == 1:
            os.makedirs(job.output_directory, exist_ok=True)
            # unique base name per (step, tag, leaf): the transfer step stages every input file of a job
            # flat into one input directory (as the repository's test transfer step does), so two
            # producers must never use the same base name
            # (loops may opt for the repository tests' naming, "result-<step>": the same base name in
            # every iteration, which is what iterated tools usually produce; sound there because the
            # iterations are sequential and each consumer stages exactly one of them)
            tag = "" if self.spec.get("same_names") else "-" + posixpath.basename(job.name)
            path = os.path.join(job.output_directory, f"{self.spec['label']}{tag}-{counter[0]}.txt")
            counter[0] += 1
            with open(path, "w") as fh:
                fh.write(value["file"])
            files[path] = value["file"]
            return {"class": "File", "path": path, "basename": os.path.basename(path)}
        if isinstance(value, dict):
            return {k: self._write(job, v, files, counter) for k, v in value.items()}
        return value

    @_guard
    async def execute(self, job: Job) -> CommandOutput:
        r = _run()
        context = self.step.workflow.context
        r.ev("start", job.name, wf=self.step.workflow.persistent_id)
        await _pause()
        if job.name in r.barrier and job.name not in r.arrived:
            r.arrived.add(job.name)
            if r.gate is None:
                r.gate = asyncio.Event()
            if r.arrived >= r.barrier:
                r.ev("barrier-open", job.name)
                r.gate.set()
            else:
                await r.gate.wait()
        if _inject(context, job, "execute"):
            out = CommandOutput("Injected failure", Status.FAILED)
        else:
            spec = self.spec
            ins = [_read(job.inputs[p], job) for p in spec["ports"]]
            if spec["op"] == "map":
                value = apply_label(ins[0], spec["label"])
            elif spec["op"] == "join":
                value = join_values(ins, spec["label"])
            elif spec["op"] == "inc":
                value = int(ins[0]) + 1
            else:
                raise HarnessError(f"unknown op {spec['op']}")
            files: dict[str, str] = {}
            try:
                result = self._write(job, value, files, [0])
            except OSError as e:
                raise WorkflowExecutionException(f"Job {job.name} cannot write outputs: {e}") from e
            r.record_done(job.name, list(files), files)
            out = CommandOutput(result, Status.COMPLETED)
        # what real commands do (and the repository's test command): one row in the execution table
        job_token = get_job_token(job.name, cast(ExecuteStep, self.step).get_job_port().token_list)
        await context.database.update_execution(
            await context.database.add_execution(self.step.persistent_id, job_token.persistent_id, spec_cmd(self.spec)),
            {"status": out.status},
        )
        await _pause()
        return out


def spec_cmd(spec: dict) -> str:
    return f"kit {spec['op']} {spec['label']}"


# -------------------------------------------------------------------------------------------------
# schedule / transfer steps with an injection point


class KitScheduleStep(ScheduleStep):
    @_guard
    async def _set_job_directories(self, connector, locations, job: Job) -> None:
        _run().ev("sched", job.name, wf=self.workflow.persistent_id)
        await _pause()
        if _inject(self.workflow.context, job, "schedule"):
            raise WorkflowExecutionException(f"Injected error into {self.name} step")
        await super()._set_job_directories(connector, locations, job)


class KitTransferStep(TransferStep):
    """``inject``: only the transfer step of a job's *first* input port is a failure-injection point, so
    that one attempt of a job consumes at most one planned transfer failure (a step with several inputs
    has one transfer step per input, running concurrently)."""

    def __init__(self, name: str, workflow, job_port, inject: bool = True):
        super().__init__(name, workflow, job_port)
        self.inject = inject

    async def _save_additional_params(self, database):
        return cast(dict, await super()._save_additional_params(database)) | {"inject": self.inject}

    @classmethod
    async def _load(cls, row, loading_context):
        return cls(
            name=row["name"],
            workflow=await loading_context.load_workflow(row["workflow"]),
            job_port=cast(JobPort, await loading_context.load_port(row["params"]["job_port"])),
            inject=row["params"]["inject"],
        )

    async def _transfer_path(self, job: Job, path: str) -> str:
        context = self.workflow.context
        dst_connector = context.scheduler.get_connector(job.name)
        dst_locations = context.scheduler.get_locations(job.name)
        if not dst_locations:  # allocation rolled back meanwhile (unreachable on the unchanged tree)
            raise WorkflowExecutionException(f"Job {job.name} has no allocated location")
        dst_path_processor = get_path_processor(dst_locations[0])
        if source_location := await context.data_manager.get_source_location(path=path, dst_deployment=dst_connector.deployment_name):
            dst_path = dst_path_processor.join(job.input_directory, source_location.relpath)
            try:
                await context.data_manager.transfer_data(
                    src_location=source_location.location,
                    src_path=source_location.path,
                    dst_locations=dst_locations,
                    dst_path=dst_path,
                    writable=True,
                )
            except WorkflowExecutionException as err:
                raise WorkflowExecutionException(f"Job {job.name} failed transfer: {err}") from err
            except OSError as err:  # the source vanished between the lookup and the copy
                raise WorkflowExecutionException(f"Job {job.name} failed transfer: {err}") from err
        else:
            raise WorkflowExecutionException(f"Job {job.name} input does not exist: File {path}")
        return dst_path

    async def _move(self, job: Job, token: Token) -> Token:
        if isinstance(token, ListToken):
            return token.update(value=[await self._move(job, t) for t in token.value])
        if isinstance(token, ObjectToken):
            return token.update(value={k: await self._move(job, t) for k, t in token.value.items()})
        if isinstance(token, FileToken):
            token = token.update(await self._transfer_path(job, token.value))
            token.recoverable = False
            return token
        token = token.update(token.value)
        token.recoverable = False
        return token

    @_guard
    async def transfer(self, job: Job, token: Token) -> Token:
        _run().ev("xfer", job.name, wf=self.workflow.persistent_id)
        await _pause()
        if self.inject and _inject(self.workflow.context, job, "transfer"):
            raise WorkflowExecutionException(f"Injected error into {self.name} step")
        return await self._move(job, token)


# -------------------------------------------------------------------------------------------------
# loop helper steps (BaseLoopConditionalStep / BaseLoopOutputLastStep of the repository's tests)


class KitLoopConditional(ConditionalStep):
    """continue while inputs['counter'] < inputs['limit']"""

    def __init__(self, name: str, workflow):
        super().__init__(name, workflow)
        self.skip_ports: MutableMapping[str, str] = {}

    async def _eval(self, inputs):
        return inputs["counter"].value < inputs["limit"].value

    async def _on_true(self, inputs) -> None:
        for port_name, port in self.get_output_ports().items():
            port.put(
                await self._persist_token(
                    token=inputs[port_name].update(inputs[port_name].value),
                    port=port,
                    input_token_ids=get_entity_ids(inputs.values()),
                )
            )

    async def _on_false(self, inputs) -> None:
        for port in self.get_skip_ports().values():
            port.put(IterationTerminationToken(tag=get_tag(inputs.values())))

    async def _save_additional_params(self, database):
        return cast(dict, await super()._save_additional_params(database)) | {
            "skip_ports": {k: p.persistent_id for k, p in self.get_skip_ports().items()}
        }

    @classmethod
    async def _load(cls, row, loading_context):
        step = cls(name=row["name"], workflow=await loading_context.load_workflow(row["workflow"]))
        for k, port_id in row["params"]["skip_ports"].items():
            step.add_skip_port(k, await loading_context.load_port(port_id))
        return step

    def add_skip_port(self, name: str, port) -> None:
        if port.name not in self.workflow.ports:
            self.workflow.ports[port.name] = port
        self.skip_ports[name] = port.name

    def get_skip_ports(self):
        return {k: self.workflow.ports[v] for k, v in self.skip_ports.items()}


class KitLoopOutputLast(LoopOutputStep):
    async def _process_output(self, tag: str) -> Token:
        return sorted(self.token_map.get(tag, [Token(value=None)]), key=lambda t: int(t.tag.split(".")[-1]))[-1].retag(tag=tag)


# -------------------------------------------------------------------------------------------------
# workflow construction (RecoveryTranslator of the repository's tests, with deterministic names)


class Builder:
    def __init__(self, context, workflow, deployments: dict[str, DeploymentConfig]):
        self.context = context
        self.wf = workflow
        self.deployments = deployments
        self.exec_steps: dict[str, ExecuteStep] = {}
        self.n_ports = 0

    def port(self, cls=None, hint: str = "p"):
        self.n_ports += 1
        name = f"{hint}#{self.n_ports}"
        return self.wf.create_port(cls=cls, name=name) if cls else self.wf.create_port(name=name)

    def _deploy_step(self, dep: str) -> DeployStep:
        name = posixpath.join("__deploy__", dep)
        if name not in self.wf.steps:
            return self.wf.create_step(
                cls=DeployStep, name=name, deployment_config=self.deployments[dep],
                connector_port=self.port(ConnectorPort, f"conn-{dep}"),
            )
        return cast(DeployStep, self.wf.steps[name])

    def _schedule_step(self, cls, dep: str, step_name: str) -> ScheduleStep:
        deploy = self._deploy_step(dep)
        binding = BindingConfig(targets=[Target(deployment=deploy.deployment_config)])
        return self.wf.create_step(
            cls=cls,
            name=posixpath.join(step_name, "__schedule__"),
            job_prefix=step_name,
            connector_ports={dep: deploy.get_output_port()},
            binding_config=binding,
            job_port=self.port(JobPort, f"job{step_name}"),
        )

    def injector(self, name: str, value: Any, dep: str):
        """returns the output port; the input token is put (recoverable, not persisted) like the tests do"""
        step_name = f"/{name}-injector"
        sched = self._schedule_step(ScheduleStep, dep, step_name)
        step = self.wf.create_step(cls=KitInjector, name=step_name, job_port=sched.get_output_port())
        pin = self.port(hint=f"in-{name}")
        step.add_input_port(name, pin)
        pout = self.port(hint=f"inj-{name}")
        step.add_output_port(name, pout)
        pin.put(Token(value, recoverable=True))
        pin.put(TerminationToken())
        return pout

    def execute(self, step_name: str, inputs: dict, spec: dict, dep: str, out_name: str = "out"):
        sched = self._schedule_step(KitScheduleStep, dep, step_name)
        ex = self.wf.create_step(ExecuteStep, name=step_name, job_port=sched.get_output_port())
        ex.command = KitCommand(ex, dict(spec, ports=list(inputs)))
        for n, (key, port) in enumerate(inputs.items()):
            sched.add_input_port(key, port)
            tr = self.wf.create_step(
                cls=KitTransferStep, name=posixpath.join(step_name, "__transfer__", key), job_port=sched.get_output_port(), inject=n == 0
            )
            tr.add_input_port(key, port)
            tport = self.port(hint=f"xfer{step_name}-{key}")
            tr.add_output_port(key, tport)
            ex.add_input_port(key, tport)
        out = self.port(hint=f"out{step_name}")
        ex.add_output_port(out_name, out, KitOutputProcessor(out_name, self.wf))
        self.exec_steps[step_name] = ex
        return out

    def scatter(self, name: str, port):
        sc = self.wf.create_step(cls=ScatterStep, name=f"{name}-scatter", size_port=self.port(hint=f"size{name}"))
        sc.add_input_port("x", port)
        out = self.port(hint=f"scat{name}")
        sc.add_output_port("x", out)
        return out, sc.get_size_port()

    def gather(self, name: str, port, size_port):
        g = self.wf.create_step(cls=GatherStep, name=f"{name}-gather", size_port=size_port)
        g.add_input_port("x", port)
        out = self.port(hint=f"gath{name}")
        g.add_output_port("x", out)
        return out

    # loop wiring: RecoveryTranslator.get_input_loop / get_output_loop ----------------------------
    def loop_inputs(self, step_name: str, input_ports: dict) -> dict:
        comb = LoopCombinator(workflow=self.wf, name=step_name + "-loop-combinator")
        forward = {}
        for pn, port in input_ports.items():
            fw = self.wf.create_step(cls=ForwardTransformer, name=os.path.join(step_name, pn) + "-input-forward-transformer")
            fw.add_input_port(pn, port)
            forward[pn] = self.port(hint=f"lfw-{pn}")
            fw.add_output_port(pn, forward[pn])
            comb.add_item(pn)
        cstep = self.wf.create_step(cls=LoopCombinatorStep, name=step_name + "-loop-combinator", combinator=comb)
        for pn, port in forward.items():
            cstep.add_input_port(pn, port)
            cstep.add_output_port(pn, self.port(hint=f"lcomb-{pn}"))
        cond = self.wf.create_step(cls=KitLoopConditional, name=step_name + "-loop-when")
        outs = {}
        for pn in input_ports:
            cond.add_input_port(pn, cstep.get_output_port(pn))
            outs[pn] = self.port(hint=f"lwhen-{pn}")
            cond.add_output_port(pn, outs[pn])
        return outs

    def loop_outputs(self, step_name: str, loop_ports: dict, output_names: list[str]) -> dict:
        cond = cast(KitLoopConditional, self.wf.steps[step_name + "-loop-when"])
        cstep = self.wf.steps[step_name + "-loop-combinator"]
        external = {}
        internal = dict(loop_ports)
        tcomb = LoopTerminationCombinator(workflow=self.wf, name=step_name + "-loop-termination-combinator")
        tstep = self.wf.create_step(cls=CombinatorStep, name=step_name + "-loop-terminator", combinator=tcomb)
        for pn, port in cstep.get_input_ports().items():
            tstep.add_output_port(pn, port)
            tcomb.add_output_item(pn)
        for pn in output_names:
            fw = self.wf.create_step(cls=ForwardTransformer, name=os.path.join(step_name, pn) + "-output-forward-transformer")
            fw.add_input_port(pn, loop_ports[pn])
            fw.add_output_port(pn, self.port(hint=f"lofw-{pn}"))
            internal[pn] = fw.get_output_port(pn)
            lo = self.wf.create_step(cls=KitLoopOutputLast, name=os.path.join(step_name, pn) + "-loop-output")
            lo.add_input_port(pn, fw.get_output_port())
            cond.add_skip_port(pn, fw.get_output_port())
            lo.add_output_port(pn, self.port(hint=f"lout-{pn}"))
            external[pn] = lo.get_output_port(pn)
            tstep.add_input_port(pn, lo.get_output_port(pn))
            tcomb.add_item(pn)
        for pn in loop_ports:
            back = self.wf.create_step(cls=ForwardTransformer, name=os.path.join(step_name, pn) + "-back-propagation-transformer")
            back.add_input_port(pn, internal[pn])
            back.add_output_port(pn, cstep.get_input_port(pn))
        return external


# -------------------------------------------------------------------------------------------------
# shapes: description -> (workflow, job graph) and the plain-Python reference


def input_value(kind: str, n: int = 3) -> Any:
    """plain description of the workflow input for a token kind"""
    if kind == "primitive":
        return 100
    if kind == "file":
        return {"file": "StreamFlow fault tolerance"}
    if kind == "list":
        return [{"file": f"element {i}"} for i in range(n)]
    if kind == "object":
        return {f"k{i}": {"file": f"member {i}"} for i in range(n)}
    raise HarnessError(kind)


def materialise(value: Any, directory: str, counter: list[int]) -> Any:
    """plain description -> what the injector receives (File dictionaries pointing at real files
    outside the volatile working directory)"""
    if isinstance(value, list):
        return [materialise(v, directory, counter) for v in value]
    if isinstance(value, dict) and "file" in value and len(value) == 1:
        path = os.path.join(directory, f"input-{counter[0]}.txt")
        counter[0] += 1
        with open(path, "w") as fh:
            fh.write(value["file"])
        return {"class": "File", "path": path, "basename": os.path.basename(path)}
    if isinstance(value, dict):
        return {k: materialise(v, directory, counter) for k, v in value.items()}
    return value


class Shape:
    """Resolved scenario shape.

    ``steps``: ordered exec steps ``{"name", "parents": [step names], "scattered": bool, "label", "op",
    "dep"}``; ``jobs(step)``: the job names of a step; ``parents_of(job)``: reference provenance DAG."""

    def __init__(self, desc: dict):
        self.desc = desc
        self.kind = desc["kind"]
        self.token = desc.get("token", "file")
        self.steps: list[dict] = []
        self.width = int(desc.get("width", 0))  # scatter width
        self.iters = int(desc.get("iters", 0))
        k = self.kind
        ndep = max(1, int(desc.get("ndep", 1)))

        def dep(i: int) -> str:
            return f"{VOLATILE}-{i % ndep}" if ndep > 1 else VOLATILE

        self.deps = sorted({dep(i) for i in range(ndep)})
        if k == "pipeline":
            for i in range(int(desc["n"])):
                self.steps.append({"name": f"/e{i}", "parents": [f"/e{i - 1}"] if i else [], "scattered": False, "op": "map", "dep": dep(i)})
        elif k == "scatter":
            # [pre ->] scatter -> b0 [-> b1] -> gather [-> post]
            prev: list[str] = []
            i = 0
            if desc.get("pre"):
                self.steps.append({"name": "/a", "parents": [], "scattered": False, "op": "map", "dep": dep(i)})
                prev = ["/a"]
                i += 1
            for j in range(int(desc.get("inner", 1))):
                self.steps.append({"name": f"/b{j}", "parents": prev, "scattered": True, "op": "map", "dep": dep(i)})
                prev = [f"/b{j}"]
                i += 1
            if desc.get("post"):
                self.steps.append({"name": "/c", "parents": prev, "scattered": False, "op": "map", "dep": dep(i)})
        elif k == "diamond":
            # a -> branch_0..branch_{k-1} (each 1..2 steps) -> d (join)
            self.steps.append({"name": "/a", "parents": [], "scattered": False, "op": "map", "dep": dep(0)})
            lasts = []
            for b, ln in enumerate(desc["branches"]):
                prev = ["/a"]
                for j in range(int(ln)):
                    nm = f"/b{b}_{j}"
                    self.steps.append({"name": nm, "parents": prev, "scattered": False, "op": "map", "dep": dep(1 + b)})
                    prev = [nm]
                lasts.append(prev[0])
            self.steps.append({"name": "/d", "parents": lasts, "scattered": False, "op": "join", "dep": dep(1 + len(lasts))})
        elif k == "loop":
            self.token = "file"
            self.steps.append({"name": "/increment", "parents": [], "scattered": False, "op": "inc", "dep": dep(0), "loop": True})
            self.steps.append({"name": "/body", "parents": [], "scattered": False, "op": "map", "dep": dep(0), "loop": True})
        else:
            raise HarnessError(f"unknown shape {k}")
        for s in self.steps:
            s["label"] = s["name"].strip("/")
        self.by_name = {s["name"]: s for s in self.steps}

    # job names ------------------------------------------------------------------------------------
    def tags(self, step: dict) -> list[str]:
        if step.get("loop"):
            return [f"0.{i}" for i in range(self.iters)]
        if step["scattered"]:
            return [f"0.{i}" for i in range(self.width)]
        return ["0"]

    def jobs(self) -> list[str]:
        return [posixpath.join(s["name"], t) for s in self.steps for t in self.tags(s)]

    def parents_of(self, job: str) -> list[str]:
        step = self.by_name[posixpath.dirname(job)]
        tag = posixpath.basename(job)
        out = []
        if step.get("loop"):
            # the loop conditional derives each of its outputs from all of its inputs
            i = int(tag.split(".")[-1])
            if i > 0:
                out.extend(posixpath.join(s["name"], f"0.{i - 1}") for s in self.steps)
            return out
        for pn in step["parents"]:
            p = self.by_name[pn]
            if p["scattered"] == step["scattered"]:
                out.append(posixpath.join(pn, tag))
            elif p["scattered"]:  # gather: all elements
                out.extend(posixpath.join(pn, t) for t in self.tags(p))
            else:  # scatter: the single producer
                out.append(posixpath.join(pn, "0"))
        return out

    def ancestors(self, job: str) -> set[str]:
        seen: set[str] = set()
        todo = list(self.parents_of(job))
        while todo:
            j = todo.pop()
            if j not in seen:
                seen.add(j)
                todo.extend(self.parents_of(j))
        return seen

    def produces_files(self, job: str) -> bool:
        step = self.by_name[posixpath.dirname(job)]
        return step["op"] != "inc" and self.token != "primitive"

    # plain-Python reference ----------------------------------------------------------------------
    def initial(self) -> Any:
        if self.kind == "scatter":
            return [{"file": f"element {i}"} for i in range(self.width)] if self.token != "primitive" else list(range(100, 100 + self.width))
        if self.kind == "loop":
            return {"file": "StreamFlow fault tolerance"}
        return input_value(self.token)

    def reference_output(self) -> Any:
        v = self.initial()
        if self.kind == "pipeline":
            for s in self.steps:
                v = apply_label(v, s["label"])
            return v
        if self.kind == "scatter":
            for s in self.steps:
                v = apply_label(v, s["label"])  # element-wise == list-wise for a leaf-wise function
            return v
        if self.kind == "diamond":
            a = apply_label(v, "a")
            outs = []
            for b, ln in enumerate(self.desc["branches"]):
                x = a
                for j in range(int(ln)):
                    x = apply_label(x, f"b{b}_{j}")
                outs.append(x)
            return join_values(outs, "d")
        if self.kind == "loop":
            if self.iters == 0:
                return None
            # the body's output is back-propagated as the next iteration's "test" input
            for _ in range(self.iters):
                v = apply_label(v, "body")
            return v
        raise HarnessError(self.kind)


def build_workflow(context, shape: Shape, inputs_dir: str, deployments: dict[str, DeploymentConfig]):
    """returns (workflow, builder, output port)"""
    wf = CWLWorkflow(context=context, name="vf-recovery", config={}, cwl_version="v1.2")
    b = Builder(context, wf, deployments)
    first_dep = shape.steps[0]["dep"]
    value = materialise(shape.initial(), inputs_dir, [0])
    if shape.kind == "pipeline":
        port = b.injector("in", value, first_dep)
        for s in shape.steps:
            port = b.execute(s["name"], {"x": port}, {"label": s["label"], "op": "map"}, s["dep"])
        return wf, b, port
    if shape.kind == "scatter":
        port = b.injector("in", value, first_dep)
        size = None
        scattered = False
        for s in shape.steps:
            if s["scattered"] and not scattered:
                port, size = b.scatter("/b", port)
                scattered = True
            if not s["scattered"] and scattered:
                port = b.gather("/b", port, size)
                scattered = False
            port = b.execute(s["name"], {"x": port}, {"label": s["label"], "op": "map"}, s["dep"])
        if scattered:
            port = b.gather("/b", port, size)
        return wf, b, port
    if shape.kind == "diamond":
        port = b.injector("in", value, first_dep)
        outs = {}
        for s in shape.steps:
            if not s["parents"]:
                outs[s["name"]] = b.execute(s["name"], {"x": port}, {"label": s["label"], "op": "map"}, s["dep"])
            elif s["op"] == "join":
                ins = {f"x{i}": outs[p] for i, p in enumerate(s["parents"])}
                outs[s["name"]] = b.execute(s["name"], ins, {"label": s["label"], "op": "join"}, s["dep"])
            else:
                outs[s["name"]] = b.execute(s["name"], {"x": outs[s["parents"][0]]}, {"label": s["label"], "op": "map"}, s["dep"])
        return wf, b, outs[shape.steps[-1]["name"]]
    if shape.kind == "loop":
        # tests/test_recovery.py::test_loop
        ins = {
            "test": b.injector("test", value, first_dep),
            "counter": b.injector("counter", 0, first_dep),
            "limit": b.injector("limit", shape.iters, first_dep),
        }
        loop_in = b.loop_inputs("/body", ins)
        counter = b.execute("/increment", {"counter": loop_in["counter"]}, {"label": "increment", "op": "inc"}, first_dep, out_name="counter")
        body = b.execute("/body", dict(loop_in), {"label": "body", "op": "map", "same_names": bool(shape.desc.get("same_names"))}, first_dep, out_name="test1")
        # the body command reads only its "test" input
        body_step = b.exec_steps["/body"]
        body_step.command.spec["ports"] = ["test"]
        ext = b.loop_outputs("/body", {"test": body, "counter": counter, "limit": loop_in["limit"]}, ["test"])
        return wf, b, ext["test"]
    raise HarnessError(shape.kind)


# -------------------------------------------------------------------------------------------------
# running a scenario


def read_output(token: Token | None, run: Run, lost: list[str]) -> Any:
    """output token -> plain value. Files are read from disk; a file that is not on disk any more is
    reported in ``lost`` and replaced by the content recorded when it was written (a fail-stop of
    *another* job may destroy an output nobody consumes afterwards: no recovery can notice that; the
    oracle accepts it only if a deletion event follows the write)."""
    if token is None:
        return None
    if isinstance(token, ListToken):
        return [read_output(t, run, lost) for t in token.value]
    if isinstance(token, ObjectToken):
        return {k: read_output(t, run, lost) for k, t in token.value.items()}
    if isinstance(token, FileToken):
        try:
            with open(token.value) as fh:
                return {"file": fh.read()}
        except OSError:
            lost.append(token.value)
            if token.value in run.content:
                return {"file": run.content[token.value]}
            return {"missing-file": os.path.basename(token.value)}
    return token.value


class Result:
    def __init__(self) -> None:
        self.raised: str | None = None
        self.raised_msg = ""
        self.deadlock: str | None = None  # description of the pending tasks at quiescence
        self.settling = False
        self.output: Any = None
        self.output_tokens = 0
        self.lost_outputs: list[str] = []  # output files not on disk at the end
        self.unjustified_lost: list[str] = []  # ... with no deletion event after their last write
        self.terminated_ok = False
        self.statuses: dict[str, str] = {}
        self.run: Run | None = None
        self.versions: dict[str, int] = {}
        self.pending: list[str] = []
        self.chaos_points = 0
        self.recovery_workflows = 0
        self.shape: Shape | None = None
        self.alloc_status: dict[str, str] = {}
        self.plan: list[dict] = []
        self.max_retries: int | None = None
        self.simultaneous_completions = 0
        self.recovery_wfs: list = []  # workflows run by the failure manager (harness-side tracking)
        self.barrier_stuck = False
        self.dup_tag_ports: list[str] = []  # "<wf>:<port>" of recovery-workflow ports holding a tag twice
        self.wf = None  # the original workflow (inspected at a deadlock)
        self.starved: list[str] = []  # at a deadlock: "<StepClass>:<PortClass>" of steps waiting on a port nobody feeds


class _OSet(set):
    """A set whose iteration order is its insertion order (a real ``set`` of tasks iterates in an order
    that depends on memory addresses)."""

    def __init__(self, items=()):
        super().__init__()
        self._d: dict = {}
        for i in items:
            self.add(i)

    def add(self, x) -> None:
        self._d[x] = None
        super().add(x)

    def discard(self, x) -> None:
        self._d.pop(x, None)
        super().discard(x)

    def remove(self, x) -> None:
        super().remove(x)
        del self._d[x]

    def pop(self):
        x = next(iter(self._d))
        self.remove(x)
        return x

    def clear(self) -> None:
        self._d.clear()
        super().clear()

    def __iter__(self):
        return iter(list(self._d))


class _OrderedWait:
    """``asyncio.wait`` returns *sets* of tasks and StreamFlow iterates over them (``for task in
    finished``): when several tasks complete in the same loop turn, the order in which they are handled
    depends on memory addresses, i.e. it is arbitrary in a real run. For the duration of a scenario
    ``asyncio.wait`` is wrapped so that this order is a function of the case: the order of the awaited
    collection, permuted by ``salt`` (0 = as given, 1 = reversed, k = rotated by k). Every order so
    produced is one a real run can exhibit."""

    def __init__(self, salt: int):
        self.salt = salt
        self.orig = asyncio.wait
        self.multi = 0  # how many times more than one task was returned as done

    def _perm(self, items: list) -> list:
        if len(items) < 2 or self.salt == 0:
            return items
        if self.salt == 1:
            return items[::-1]
        k = self.salt % len(items)
        return items[k:] + items[:k]

    async def __call__(self, fs, *, timeout=None, return_when=asyncio.ALL_COMPLETED):
        order = list(fs)
        done, pending = await self.orig(order, timeout=timeout, return_when=return_when)
        d = [t for t in order if t in done]
        if len(d) > 1:
            self.multi += 1
        return _OSet(self._perm(d)), _OSet([t for t in order if t in pending])


class _DetUUID:
    """deterministic uuid4 for the duration of a scenario (port / directory names are uuid4 strings;
    any naming is a feasible real run, and fixed names make replays reproduce exactly)"""

    def __init__(self) -> None:
        self.n = 0
        self.orig = uuid.uuid4

    def __call__(self):
        self.n += 1
        return uuid.UUID(int=(0x5EED << 96) | self.n, version=4)


def resolve_plan(shape: Shape, plan: list) -> list[dict]:
    """case plan entries ``[step index, tag index, phase, kind, times(, barrier(, victims))]`` -> job
    names (indices are taken modulo the available steps / tags, so every drawn entry is valid);
    duplicates of a failure point are merged (times added, 'stop' wins over 'lose' over 'soft').
    ``victims`` (kind "lose") is a list of ``[step index, tag index]``."""
    rank = {"soft": 0, "lose": 1, "stop": 2}

    def job_of(si: int, ti: int) -> str | None:
        step = shape.steps[si % len(shape.steps)]
        tags = shape.tags(step)
        return posixpath.join(step["name"], tags[ti % len(tags)]) if tags else None

    out: dict[tuple[str, str], dict] = {}
    for entry in plan:
        si, ti, phase, kind, times = entry[0], entry[1], entry[2], entry[3], entry[4]
        job = job_of(si, ti)
        if job is None:
            continue
        key = (job, phase)
        if key in out:
            out[key]["times"] += int(times)
            if rank[kind] > rank[out[key]["kind"]]:
                out[key]["kind"] = kind
        else:
            out[key] = {"job": job, "phase": phase, "kind": kind, "times": int(times)}
        if len(entry) > 5 and entry[5] and phase == "execute":
            out[key]["barrier"] = True
        if len(entry) > 6 and entry[6]:
            vs = out[key].setdefault("victims", [])
            for vsi, vti in entry[6]:
                v = job_of(vsi, vti)
                if v is not None and v != job and v not in vs:
                    vs.append(v)
    for p in out.values():
        if p["kind"] == "lose" and not p.get("victims"):
            p["kind"] = "soft"  # nothing to lose
    return list(out.values())


async def _scenario(res: Result, shape_desc: dict, plan: list[dict], max_retries: int | None, schedule: list[int] | None,
                    manager: str, retry_delay: int, wait_order: int = 0) -> None:
    global _RUN, LAST_RUN
    shape = Shape(shape_desc)
    res.shape = shape
    res.plan = plan
    res.max_retries = max_retries
    chaos = Chaos(schedule or [])
    run = Run(plan, chaos)
    run.recover_cap = recover_cap(shape, plan)
    res.run = run
    LAST_RUN = run  # debugging aid
    scratch = os.path.realpath(tempfile.mkdtemp(prefix="vf-rec-"))
    fake_uuid = _DetUUID()
    uuid.uuid4 = fake_uuid
    ordered_wait = _OrderedWait(wait_order)
    asyncio.wait = ordered_wait
    import streamflow.recovery.failure_manager as _fm_mod

    recovery_workflows = res.recovery_wfs

    class _TrackedExecutor(StreamFlowExecutor):
        def __init__(self, workflow):
            super().__init__(workflow)
            recovery_workflows.append(workflow)
            # which recover() call built this recovery workflow (same task as the recover wrapper)
            run.wf_rid[workflow.persistent_id] = _CUR_RID.get()

    orig_executor = _fm_mod.StreamFlowExecutor
    _fm_mod.StreamFlowExecutor = _TrackedExecutor
    prev_run, _RUN = _RUN, run
    ctx = None
    try:
        fm = (
            {"type": "default", "config": {"max_retries": max_retries, "retry_delay": retry_delay}}
            if manager == "default"
            else {"type": "dummy", "config": {}}
        )
        ctx = _harness.make_context(chaos, extra={"failureManager": fm}, workdir=scratch)
        _wrap_recover(ctx, run)
        inputs_dir = os.path.join(scratch, "inputs")
        os.makedirs(inputs_dir)
        deployments = {}
        for dep in shape.deps:
            wd = os.path.join(scratch, "work", dep)
            os.makedirs(wd)
            deployments[dep] = DeploymentConfig(name=dep, type="local", config={}, external=True, lazy=False, workdir=wd)
            await ctx.deployment_manager.deploy(deployments[dep])
        wf, builder, out_port = build_workflow(ctx, shape, inputs_dir, deployments)
        res.wf = wf
        await wf.save(ctx.database)
        try:
            await StreamFlowExecutor(wf).run()
        except WorkflowExecutionException as e:
            res.raised = type(e).__name__
            res.raised_msg = str(e)
        res.settling = True  # tells run_scenario that the coming quiescence is requested, not a deadlock
        await settle()
        res.settling = False
        res.pending = sorted(t.get_name() for t in pending_tasks() if t.get_name() != "vf-main")
        toks = [t for t in out_port.token_list if not isinstance(t, TerminationToken)]
        res.output_tokens = len(toks)
        res.output = read_output(toks[0], run, res.lost_outputs) if toks else None
        deletions = [e["seq"] for e in run.events if e["ev"] == "delete"]
        res.unjustified_lost = [
            p for p in res.lost_outputs if not any(d > run.written_seq.get(p, 1 << 60) for d in deletions)
        ]
        res.terminated_ok = bool(out_port.token_list) and isinstance(out_port.token_list[-1], TerminationToken) and (
            sum(isinstance(t, TerminationToken) for t in out_port.token_list) == 1
        )
        res.statuses = {name: step.status.name for name, step in wf.steps.items()}
        for rwf in res.recovery_wfs:  # ports of recovery workflows that received one tag twice
            for port in rwf.ports.values():
                if isinstance(port, ConnectorPort) or port.name.startswith("size"):
                    # connector tokens all carry tag "0"; the size token of a resumed ScatterStep is both
                    # injected (it is always available) and regenerated, with the same value: harmless
                    continue
                tags = [t.tag for t in port.token_list if not isinstance(t, (TerminationToken, IterationTerminationToken))]
                if len(set(tags)) < len(tags):
                    res.dup_tag_ports.append(f"wf{rwf.persistent_id}:{port.name}")
        if manager == "default":
            res.versions = {name: req.version for name, req in ctx.failure_manager._retry_requests.items()}
        res.alloc_status = {name: a.status.name for name, a in ctx.scheduler.job_allocations.items()}
        res.recovery_workflows = len(await ctx.database.get_workflows_by_name("vf-recovery")) - 1
        res.chaos_points = chaos.n
    finally:
        _RUN = prev_run
        uuid.uuid4 = fake_uuid.orig
        asyncio.wait = ordered_wait.orig
        _fm_mod.StreamFlowExecutor = orig_executor
        res.simultaneous_completions = ordered_wait.multi
        try:
            if ctx is not None:
                try:
                    await ctx.deployment_manager.undeploy_all()
                    await ctx.close()
                except Exception:  # noqa: BLE001  (teardown after a detected deadlock)
                    if res.deadlock is None:
                        raise
        finally:
            shutil.rmtree(scratch, ignore_errors=True)


async def run_scenario(shape_desc: dict, plan: list[dict], *, max_retries: int | None, schedule: list[int] | None = None,
                       manager: str = "default", retry_delay: int = 0, wait_order: int = 0) -> Result:
    """Build the shape and run it with ``plan`` (resolved entries with job names) under the rollback (or
    dummy) failure manager on the current deterministic loop; return what was observed.

    The scenario runs as a task while this coroutine waits for quiescence of the deterministic loop:
    a quiescent loop with the scenario unfinished is a deadlock (exact: no ready callback, no timer, no
    external operation). It is reported in ``Result.deadlock`` (so that the caller can give the
    violation a precise kind) instead of through the runner's generic detector."""
    res = Result()
    task = asyncio.ensure_future(_scenario(res, shape_desc, plan, max_retries, schedule, manager, retry_delay, wait_order))
    while not task.done():
        await settle()
        if not task.done() and res.settling:
            continue
        if not task.done():
            lines = []
            for t in sorted(pending_tasks(), key=lambda t: t.get_name()):
                if t is task:
                    continue
                stack = t.get_stack(limit=2)
                where = " <- ".join(f"{f.f_code.co_filename.rsplit('/', 1)[-1]}:{f.f_lineno}:{f.f_code.co_name}" for f in stack)
                lines.append(f"{t.get_name()}: {where}")
            res.deadlock = "\n".join(lines[:40])
            res.pending = [ln.split(":")[0] for ln in lines]
            res.starved = starved_ports(res)
            if res.run is not None and res.run.barrier and (res.run.gate is None or not res.run.gate.is_set()):
                res.barrier_stuck = True
            task.cancel()
            try:
                await task
            except (asyncio.CancelledError, Exception):  # noqa: BLE001
                pass
            break
    if task.done() and not task.cancelled() and res.deadlock is None:
        task.result()  # propagate exceptions of the scenario
    if res.run is not None and res.run.harness_errors:
        raise HarnessError("exception inside kit code:\n" + res.run.harness_errors[0])
    return res


def starved_ports(res: Result) -> list[str]:
    """At a deadlock: for every unfinished step of a recovery workflow, the input ports that hold no
    token, have no producer step in that workflow and are not the target of any inter-workflow boundary
    rule: nothing can ever arrive there. Returned as sorted, de-duplicated "<StepClass>:<PortClass>"."""
    from streamflow.workflow.port import InterWorkflowPort

    targets = set()
    for wf in res.recovery_wfs:
        for port in wf.ports.values():
            if isinstance(port, InterWorkflowPort):
                for b in port.boundaries:
                    if b.port is not port:
                        targets.add(id(b.port))
    out = set()
    for wf in res.recovery_wfs:
        for step in wf.steps.values():
            if step.terminated:
                continue
            for port in step.get_input_ports().values():
                if port.token_list or id(port) in targets or port.get_input_steps():
                    continue
                out.add(f"{type(step).__name__.replace('Kit', '')}:{type(port).__name__}")
    return sorted(out)


def _normalise(msg: str) -> str:
    """error message -> stable bucket (no paths, ids, job names, counters)"""
    import re

    msg = msg.split("\n")[0]
    msg = re.sub(r"/[\w./#-]+", "<path>", msg)
    msg = re.sub(r"0x[0-9a-f]+", "<addr>", msg)
    msg = re.sub(r"\d+", "<n>", msg)
    return msg[:90]


def _wrap_recover(ctx, run: Run) -> None:
    """log every FailureManager.recover call (entry with the availability snapshot, exit with the outcome)"""
    fm = ctx.failure_manager
    orig = fm.recover

    async def recover(job, step, exception):
        if run.rid >= run.recover_cap:
            # runaway recovery (retry storm / unbounded re-submission of an internal error): stop it
            # here; measured: correct runs of the generated plans need <= 14 recover() calls
            if not run.capped:
                run.capped = True
                run.ev("recover-cap", job.name, exc=type(exception).__name__)
            from streamflow.core.exception import FailureHandlingException

            raise FailureHandlingException(f"vf: more than {run.recover_cap} recover() calls, refusing further recoveries")
        run.rid += 1
        rid = run.rid
        rec = {"job": job.name, "missing_at_enter": set(run.missing()), "lost_during": set()}
        run.open_recoveries[rid] = rec
        run.max_open = max(run.max_open, len(run.open_recoveries))
        run.ev("recover-enter", job.name, rid=rid, step=step.name, exc=type(exception).__name__, msg=str(exception)[:160],
               open=sorted(r["job"] for k, r in run.open_recoveries.items() if k != rid),
               missing=sorted(rec["missing_at_enter"]))
        outcome = "ok"
        why = ""
        token = _CUR_RID.set(rid)
        try:
            return await orig(job, step, exception)
        except BaseException as e:
            outcome = type(e).__name__
            why = _normalise(str(e))
            raise
        finally:
            _CUR_RID.reset(token)
            run.open_recoveries.pop(rid, None)
            run.ev("recover-exit", job.name, rid=rid, outcome=outcome, why=why, unavailable=sorted(rec["missing_at_enter"] | rec["lost_during"]))

    fm.recover = recover


# -------------------------------------------------------------------------------------------------
# derived observations shared by the four oracles


class View:
    """Counts and relations computed from the execution log of a Result (harness data only)."""

    def __init__(self, res: Result):
        self.res = res
        run = res.run
        self.shape = res.shape
        self.starts = run.count("start")
        self.dones = run.count("done")
        self.scheds = run.count("sched")
        self.xfers = run.count("xfer")
        self.recoveries = [e for e in run.events if e["ev"] == "recover-enter"]
        self.exits = {e["rid"]: e for e in run.events if e["ev"] == "recover-exit"}
        self.deletes = [e for e in run.events if e["ev"] == "delete"]
        self.fails = [e for e in run.events if e["ev"] == "fail"]
        self.failing_jobs = sorted({e["job"] for e in self.recoveries})
        # own failures in the execute phase (the only ones after which the job's command starts again)
        self.own_exec: dict[str, int] = {}
        self.own_any: dict[str, int] = {}
        for e in self.recoveries:
            self.own_any[e["job"]] = self.own_any.get(e["job"], 0) + 1
            if e["step"] == posixpath.dirname(e["job"]):
                self.own_exec[e["job"]] = self.own_exec.get(e["job"], 0) + 1
        self.planned_total: dict[str, int] = {}
        self.planned_exec: dict[str, int] = {}
        for p in res.plan:
            self.planned_total[p["job"]] = self.planned_total.get(p["job"], 0) + p["times"]
            if p["phase"] == "execute":
                self.planned_exec[p["job"]] = self.planned_exec.get(p["job"], 0) + p["times"]
        self.has_stop = any(p["kind"] in ("stop", "lose") for p in res.plan)

    def unavailable(self, rid: int) -> set[str]:
        """jobs with a lost output instance at some time between entry and exit of recovery ``rid``
        (for a recovery still open at the end: until the end)"""
        if rid in self.exits:
            return set(self.exits[rid]["unavailable"])
        rec = self.res.run.open_recoveries.get(rid)
        return set(rec["missing_at_enter"]) | set(rec["lost_during"]) if rec else set()

    def concurrent_pairs(self) -> list[tuple[dict, dict]]:
        """pairs of recoveries of *different* jobs that were open at the same time"""
        out = []
        for e in self.recoveries:
            for other in e["open"]:
                if other != e["job"]:
                    out.append((e, other))
        return out

    def raised_kind(self) -> str:
        """why the workflow failed: retries exhausted (the failure manager refused a recovery because a
        job reached max_retries) or an error inside the recovery machinery"""
        refused = [e for e in self.exits.values() if e["outcome"] != "ok" and e["outcome"] != "CancelledError"]
        refused.sort(key=lambda e: e["seq"])
        limit = self.res.max_retries
        exhausted = limit is not None and any(v >= limit for v in self.res.versions.values())
        first = refused[0] if refused else None
        # exceptions handed to recover() that are neither job failures nor refusals: errors inside the
        # recovery machinery itself (they are retried like job failures, up to RecursionError / exhaustion)
        internal = sorted(
            {e["exc"] for e in self.recoveries} - {"WorkflowExecutionException", "FailureHandlingException", "RecursionError"}
        )
        if internal:
            return "raised:internal-error:" + "+".join(internal)
        if self.res.run.capped:
            return "raised:runaway-recovery"
        if first is not None and first["why"].startswith("FAILED Job") and "Execution aborted" in first["why"]:
            return "raised:retries-exhausted" if exhausted else "raised:refused-below-limit"
        if first is not None and first["outcome"] == "RecursionError":
            # recover() -> _do_handle_failure (itself @recoverable) -> _recover raises a non-recovery
            # error -> recover() ... without bound
            return "raised:RecursionError"
        if first is not None:
            return f"raised:{first['outcome']}:{first['why']}"
        return "raised:no-refused-recovery"

    def output_kind(self, got: Any, ref: Any) -> str:
        """bucket of an output mismatch, by cause where the log shows one"""
        if self.res.wf is not None:
            orig = self.res.wf.persistent_id
            n: dict[str, int] = {}
            for e in self.res.run.events:
                if e["ev"] == "start" and e["wf"] == orig:
                    n[e["job"]] = n.get(e["job"], 0) + 1
            if any(k > 1 + self.own_exec.get(j, 0) for j, k in n.items()) or self.res.dup_tag_ports:
                # a job ran twice in the *original* workflow without failing in between (its job token /
                # input token arrived twice), or a port of a recovery workflow received the same tag
                # twice (injected available token + the one regenerated / propagated): nothing
                # de-duplicates tags, GatherStep counts tokens
                return "output-differs:duplicated-token"
        return output_kind(got, ref)

    def rerun_without_own_failure(self) -> list[str]:
        return sorted(j for j, n in self.starts.items() if n > 1 + self.own_exec.get(j, 0))

    def deadlock_kind(self) -> str:
        """stable root-cause bucket of a deadlock, from what is observable at quiescence"""
        starved = self.res.starved
        if "ScheduleStep:ConnectorPort" in starved:
            # a recovery workflow holds a ScheduleStep but neither the DeployStep nor a connector token
            return "schedule-step-without-connector"
        if any("JobPort" in s for s in starved):
            # a recovery workflow holds a Transfer/ExecuteStep whose job port has no producer
            return "step-without-job-token"
        if starved:
            return "starved-" + "+".join(starved)
        failed = self.res.wf is not None and any(s.status.name == "FAILED" for s in self.res.wf.steps.values())
        if self.shape.kind == "loop":
            # "after-step-failure": a step of the loop body terminated FAILED (refused recovery / no
            # failure manager) and the loop machinery never terminates
            if not failed:
                return "loop-recovery"
            # which step failed: on the unchanged tree the loop sub-graph is not released when the
            # FAILED termination comes from a step off the loop's output path (the counter branch) or
            # from the body's ScheduleStep; a failed body Transfer/ExecuteStep does release it
            names = [n for n, st in self.res.wf.steps.items() if st.status.name == "FAILED"]
            if any(n.startswith("/increment") for n in names):
                return "loop-after-step-failure:counter-branch"
            if any(n.endswith("/__schedule__") for n in names):
                return "loop-after-step-failure:schedule-step"
            return "loop-after-step-failure:body"
        if failed:
            return "after-step-failure"
        if self.concurrent_pairs():
            return "concurrent-recoveries"
        if self.res.run.max_open >= 2:
            return "nested-recovery"
        return "single-recovery"


def output_kind(got: Any, ref: Any) -> str:
    """sub-bucket of an output mismatch"""
    if isinstance(ref, list) and isinstance(got, list) and len(got) != len(ref):
        return "output-differs:list-length"
    if isinstance(ref, list) and isinstance(got, list) and len(got) == len(ref):
        keys = [json.dumps(x, sort_keys=True) for x in got]
        refkeys = {json.dumps(x, sort_keys=True) for x in ref}
        if len(set(keys)) < len(keys) and set(keys) <= refkeys:
            # a scatter element reached the gather twice (a job executed twice in the original
            # workflow), the gather fired on the count and another element is missing
            return "output-differs:duplicated-list-element"
    if isinstance(ref, dict) and isinstance(got, dict) and "file" in ref and "file" in got and ref["file"].endswith("|body"):
        # loop shape: the value of an earlier iteration (fewer applications of the body) is returned
        if ref["file"].startswith(got["file"]) and got["file"] != ref["file"]:
            return "output-differs:loop-returns-earlier-iteration"
    return "output-differs"


def recover_cap(shape: Shape, plan: list[dict]) -> int:
    """recover() calls after which a scenario is cut off (a count, never a time): twice the planned
    failures, plus for every deletion two collateral failures of each job that can be alive at the same
    time (scatter width / number of branches / 2 for the sequential iterations of a loop), plus slack.
    1000 sampled correct runs needed at most 14 calls; retry storms and the unbounded re-submission of
    internal errors (up to ~2000 nested calls) are what it stops."""
    f = sum(p["times"] for p in plan)
    d = sum(p["times"] for p in plan if p["kind"] in ("stop", "lose"))
    if shape.kind == "scatter":
        alive = shape.width + 1
    elif shape.kind == "diamond":
        alive = len(shape.desc["branches"]) + 1
    elif shape.kind == "loop":
        alive = 2
    else:
        alive = 1
    return 16 + 2 * f + 2 * d * (alive + 1)


def safe_retries(shape: Shape, plan: list[dict]) -> int:
    """A retry limit no job can reach in a correct run of ``plan``: a job's retry counter grows by one
    per own failure and per roll-back on behalf of a failing descendant; besides the planned failures a
    deletion can make every job fail collaterally (missing directories / inputs). Deliberately generous:
    C16/C18/C19 are not about the bound (C17 is)."""
    f = sum(p["times"] for p in plan)
    d = sum(p["times"] for p in plan if p["kind"] in ("stop", "lose"))
    # the tests use 10 for at most 8 roll-backs of one job; a job is rolled back once per failure of a
    # descendant (the "domino effect"), plus collateral failures after deletions
    # (a producer shared by n jobs is rolled back once per job that fails after a deletion: a scatter of
    # width 10 with one fail-stop legitimately takes the producer to version 10)
    return max(10, 4 + f + d * (2 + len(shape.jobs())))


def classify(rec, res: Result, view: View) -> None:
    shape = res.shape
    rec.label(f"shape={shape.kind}", f"token={shape.token}", f"ndep={len(shape.deps)}")
    if shape.kind == "scatter":
        rec.label("width>=10" if shape.width >= 10 else "width=1" if shape.width == 1 else "width=2..9")
    if shape.kind == "loop":
        rec.label(f"iters={shape.iters}")
    rec.label(f"planned-failure-points={min(len(res.plan), 4)}{'+' if len(res.plan) > 4 else ''}")
    for ph in PHASES:
        if any(p["phase"] == ph for p in res.plan):
            rec.label(f"phase={ph}")
    for kd in (*KINDS, "lose"):
        if any(p["kind"] == kd for p in res.plan):
            rec.label(f"kind={kd}")
    if any(p["times"] >= 2 for p in res.plan):
        rec.label("times>=2")
    if res.run.chaos is not None and res.run.chaos.s:
        rec.label("non-default-schedule")
    if view.concurrent_pairs():
        rec.label("concurrent-recoveries")
    if res.run.max_open >= 2 and not view.concurrent_pairs():
        rec.label("nested-recovery")
    if view.rerun_without_own_failure():
        rec.label("upstream-re-executed")
    if len(view.recoveries) > sum(p["times"] for p in res.plan):
        rec.label("collateral-failures")
    if res.lost_outputs:
        rec.label("final-output-destroyed-after-production")


# -------------------------------------------------------------------------------------------------
# Hypothesis strategies (case = JSON description; everything is built inside the check)


def st_shape(kinds=("pipeline", "scatter", "diamond", "loop"), max_width: int = 13, tokens=("primitive", "file", "list", "object")):
    from hypothesis import strategies as st

    ndep = st.sampled_from([1, 1, 1, 2, 3])
    token = st.sampled_from(list(tokens))
    opts = []
    if "pipeline" in kinds:
        opts.append(st.fixed_dictionaries({"kind": st.just("pipeline"), "n": st.integers(1, 5), "token": token, "ndep": ndep}))
    if "scatter" in kinds:
        # indices >= 10 matter (tags 0.10, 0.11 ... sort and match differently as strings)
        big = [w for w in (11, 12, 13) if w <= max_width]
        width = st.one_of(st.integers(1, min(5, max_width)), st.integers(1, max_width), *( [st.sampled_from(big)] if big else [] ))
        opts.append(
            st.fixed_dictionaries(
                {
                    "kind": st.just("scatter"), "width": width, "pre": st.integers(0, 1), "inner": st.integers(1, 2),
                    "post": st.integers(0, 1), "token": st.sampled_from([t for t in tokens if t in ("file", "primitive")] or ["file"]),
                    "ndep": ndep,
                }
            )
        )
    if "diamond" in kinds:
        opts.append(
            st.fixed_dictionaries(
                {"kind": st.just("diamond"), "branches": st.lists(st.integers(1, 2), min_size=2, max_size=3), "token": token, "ndep": ndep}
            )
        )
    if "loop" in kinds:
        opts.append(st.fixed_dictionaries({"kind": st.just("loop"), "iters": st.integers(0, 6), "ndep": st.just(1), "same_names": st.booleans()}))
    return st.one_of(*opts)


def st_plan(max_points: int = 4, max_times: int = 3, kinds=KINDS, phases=PHASES, min_points: int = 0):
    """``kinds`` may include "lose" (selective loss): such a point carries 1..3 victims"""
    from hypothesis import strategies as st

    plain = [k for k in kinds if k != "lose"]
    point = st.tuples(
        st.integers(0, 9), st.integers(0, 12), st.sampled_from(list(phases)), st.sampled_from(plain), st.integers(1, max_times)
    ).map(list)
    if "lose" in kinds:
        victims = st.lists(st.tuples(st.integers(0, 9), st.integers(0, 12)).map(list), min_size=1, max_size=3)
        lose = st.tuples(
            st.integers(0, 9), st.integers(0, 12), st.sampled_from(list(phases)), st.just("lose"), st.integers(1, 2), st.just(0), victims
        ).map(list)
        point = st.one_of(point, point, point, lose)
    return st.lists(point, min_size=min_points, max_size=max_points)


def st_schedule():
    from hypothesis import strategies as st

    return st.lists(st.integers(0, 4), max_size=12)


def st_case(**kw):
    from hypothesis import strategies as st

    return st.fixed_dictionaries(
        {
            "shape": st_shape(**{k: v for k, v in kw.items() if k in ("kinds", "max_width", "tokens")}),
            "plan": st_plan(**{k: v for k, v in kw.items() if k in ("max_points", "max_times", "min_points", "phases")} | ({"kinds": kw["fail_kinds"]} if "fail_kinds" in kw else {})),
            "schedule": st_schedule(),
            # order in which tasks completing in the same loop turn are handled (see _OrderedWait)
            "wait_order": st.sampled_from([0, 0, 1, 2, 3]),
        }
    )


_BASELINES: dict[str, dict] = {}


async def baseline(shape_desc: dict) -> dict:
    """failure-free run of the shape (cached per process): output, step statuses, token count"""
    key = json.dumps(shape_desc, sort_keys=True)
    if key not in _BASELINES:
        res = await run_scenario(shape_desc, [], max_retries=3, schedule=[])
        ref = res.shape.reference_output()
        if res.deadlock or res.raised or res.output != ref or res.lost_outputs:
            raise HarnessError(
                f"failure-free run of {key} is not the reference: raised={res.raised} deadlock={bool(res.deadlock)} "
                f"output={res.output!r} reference={ref!r}"
            )
        starts = res.run.count("start")
        if sorted(starts) != sorted(res.shape.jobs()) or any(n != 1 for n in starts.values()):
            raise HarnessError(f"failure-free run of {key}: job starts {starts} != one per job of the reference DAG {res.shape.jobs()}")
        _BASELINES[key] = {"output": res.output, "statuses": res.statuses, "tokens": res.output_tokens, "terminated_ok": res.terminated_ok}
    return _BASELINES[key]


def survey(fn):
    """Development aid: with VF_RK_SURVEY=<file> every violation is appended to that file (kind, case)
    and the case returns normally, so that one run lists all kinds instead of stopping at the first."""
    import functools

    @functools.wraps(fn)
    async def wrapper(case, rec):
        path = os.environ.get("VF_RK_SURVEY")
        if not path:
            return await fn(case, rec)
        import time

        from vf.core import Violation

        t0 = time.time()
        try:
            return await fn(case, rec)
        except Violation as v:
            with open(path, "a") as fh:
                fh.write(json.dumps({"kind": v.kind, "case": case, "msg": v.message[:600]}) + "\n")
            rec.nontrivial(True)
        finally:
            if time.time() - t0 > 2.0:  # cost survey only (never used by an oracle)
                with open(path + ".slow", "a") as fh:
                    fh.write(json.dumps({"s": round(time.time() - t0, 1), "events": len(LAST_RUN.events) if LAST_RUN else 0, "rid": LAST_RUN.rid if LAST_RUN else 0, "case": case}) + "\n")

    return wrapper
