"""Generators and the independent structural canonicaliser for C08 (persistence round trip).

* ``Chooser`` turns a drawn list of small integers into deterministic choices, so a case is a compact,
  shrinkable description and the objects are built inside the check.
* ``build_workflow`` instantiates the built-in persistable classes (steps, ports, combinators,
  transformers, token processors, command output processors, commands, command token processors,
  targets / deployment / filter configs, hardware requirement) with generated constructor arguments.
* ``canon`` is the oracle's canonical form: class name + public state found by reflection
  (``__dict__`` and ``__slots__``), entities (workflow / step / port) referenced by name together
  with the information whether the reference points *into the root workflow* (wiring), no
  StreamFlow save/load code involved.
* ``containers`` / ``mutate`` support the independence oracle (two loads share no mutable state).
"""
from __future__ import annotations

import asyncio
import enum
from typing import Any

from streamflow.core.config import BindingConfig, Config
from streamflow.core.deployment import DeploymentConfig, FilterConfig, LocalTarget, Target, WrapsConfig
from streamflow.core.exception import WorkflowDefinitionException
from streamflow.core.processor import (
    MapCommandOutputProcessor,
    MapTokenProcessor,
    NullTokenProcessor,
    ObjectCommandOutputProcessor,
    ObjectTokenProcessor,
    PopCommandOutputProcessor,
    UnionCommandOutputProcessor,
    UnionTokenProcessor,
)
from streamflow.core.workflow import Job, Port, Status, Step, Token, Workflow
from streamflow.cwl.combinator import ListMergeCombinator
from streamflow.cwl.command import (
    CWLCommand,
    CWLCommandTokenProcessor,
    CWLExpressionCommand,
    CWLForwardCommandTokenProcessor,
    CWLMapCommandTokenProcessor,
    CWLObjectCommandTokenProcessor,
)
from streamflow.cwl.hardware import CWLHardwareRequirement
from streamflow.cwl.processor import (
    CWLCommandOutputProcessor,
    CWLExpressionToolOutputProcessor,
    CWLObjectCommandOutputProcessor,
    CWLTokenProcessor,
)
from streamflow.cwl.step import (
    CWLConditionalStep,
    CWLEmptyScatterConditionalStep,
    CWLExecuteStep,
    CWLInputInjectorStep,
    CWLLoopConditionalStep,
    CWLLoopOutputAllStep,
    CWLLoopOutputLastStep,
    CWLScheduleStep,
    CWLTransferStep,
)
from streamflow.cwl.token import CWLFileToken
from streamflow.cwl.transformer import (
    AllNonNullTransformer,
    BroadcastTransformer,
    CartesianProductSizeTransformer,
    CloneTransformer,
    CWLTokenTransformer,
    DefaultRetagTransformer,
    DefaultTransformer,
    DotProductSizeTransformer,
    FirstNonNullTransformer,
    ForwardTransformer,
    ListToElementTransformer,
    LoopValueFromTransformer,
    OnlyNonNullTransformer,
    ValueFromTransformer,
)
from streamflow.cwl.utils import LoadListing, SecondaryFile
from streamflow.cwl.workflow import CWLWorkflow
from streamflow.workflow.combinator import (
    CartesianProductCombinator,
    DotProductCombinator,
    LoopCombinator,
    LoopTerminationCombinator,
)
from streamflow.workflow.command import (
    MapCommandTokenProcessor,
    ObjectCommandTokenProcessor,
    UnionCommandTokenProcessor,
)
from streamflow.workflow.port import (
    ConnectorPort,
    FilterTokenPort,
    InterWorkflowJobPort,
    InterWorkflowPort,
    JobPort,
)
from streamflow.workflow.step import (
    CombinatorStep,
    DefaultCommandOutputProcessor,
    DeployStep,
    ExecuteStep,
    GatherStep,
    LoopCombinatorStep,
    ScatterStep,
    ScheduleStep,
)
from streamflow.workflow.token import (
    IterationTerminationToken,
    JobToken,
    ListToken,
    ObjectToken,
    TerminationToken,
)

SENTINEL = "__vf_mut__"

STRS = [
    "a", "", "x y", "$(inputs.a)", "${ return 1; }", "ünïçødé", "\U0001F600 astral",
    "q'\"\\", "t\tn\n", "\u0001\u001f", "0", "null", "a/b/c", "-x", "long" * 20, "*.txt", "true",
]
NAMES = ["a", "b", "in-1", "out 2", "ü", "x/y", "__z__", "\U0001F600", "c.d", "e"]
EXPRS = ["$(inputs.x)", "${ return inputs.y + 1; }", "$(1 + 1)", "$(self)", "plain"]
TYPES = ["string", "int", "long", "File", "Directory", "Any", "enum", "boolean", "double", "null"]
STEP_SUFFIX = ["", "-scatter", "/sub/α", " sp", "-x.y"]


class Chooser:
    """Deterministic choices from a drawn integer list (consumed cyclically, shifted on wrap)."""

    def __init__(self, seq):
        self.seq = [int(x) for x in (seq or [0])] or [0]
        self.i = 0

    def n(self, k: int) -> int:
        v = self.seq[self.i % len(self.seq)] + 13 * (self.i // len(self.seq))
        self.i += 1
        return v % k if k > 0 else 0

    def bool(self) -> bool:
        return self.n(2) == 1

    def of(self, options):
        return options[self.n(len(options))]

    def str(self) -> str:
        return self.of(STRS)

    def name(self) -> str:
        return self.of(NAMES)

    def opt_str(self):
        return None if self.n(3) == 0 else self.str()

    def strlist(self, lo: int = 0, hi: int = 3):
        return [self.str() for _ in range(lo + self.n(hi - lo + 1))]

    def opt_strlist(self):
        return None if self.n(3) == 0 else self.strlist()

    def scalar(self):
        k = self.n(14)
        return [None, True, False, 0, -1, 7, 2**53 + 1, 2**64, -(2**63) - 1, 1.5, -0.0, 1e308, 5e-324][k] if k < 13 else self.str()

    def json(self, depth: int = 2):
        k = self.n(6 if depth > 0 else 3)
        if k < 3:
            return self.scalar()
        if k in (3, 4):
            return [self.json(depth - 1) for _ in range(self.n(4))]
        return {self.name(): self.json(depth - 1) for _ in range(self.n(4))}

    def jdict(self, depth: int = 2):
        return {self.name(): self.json(depth - 1) for _ in range(self.n(4))}


# ------------------------------------------------------------------------------------------------
# building entities


class Builder:
    def __init__(self, ctx, desc: dict):
        self.ctx = ctx
        self.desc = desc
        self.c = Chooser(desc.get("p"))
        self.cwl = bool(desc.get("cwl", 1))
        self.wf: Workflow | None = None
        self.ports: list[Port] = []
        self.auto = 0
        self.deployments: list[DeploymentConfig] = []
        self.skipped: list[str] = []

    # -- workflow and ports
    def make_workflow(self) -> Workflow:
        c = self.c
        name = "wf-" + c.name()
        config = c.jdict()
        if self.cwl:
            g = None
            k = c.n(4)
            if k >= 2:
                from rdflib import Graph, Literal, URIRef

                g = Graph()
                if k == 3:
                    g.add((URIRef("http://example.org/a"), URIRef("http://example.org/p"), Literal(c.str() or "lit")))
                    g.add((URIRef("http://example.org/b"), URIRef("http://www.w3.org/2000/01/rdf-schema#subClassOf"), URIRef("http://example.org/a")))
            wf = CWLWorkflow(context=self.ctx, name=name, config=config, cwl_version=c.of(["v1.0", "v1.1", "v1.2"]), format_graph=g)
        else:
            wf = Workflow(context=self.ctx, name=name, config=config)
        self.wf = wf
        return wf

    PORT_CLASSES = [Port, Port, JobPort, ConnectorPort, InterWorkflowPort, InterWorkflowJobPort, FilterTokenPort]

    def make_port(self, k: int, idx: int) -> Port:
        cls = self.PORT_CLASSES[k % len(self.PORT_CLASSES)]
        p = self.wf.create_port(cls, name=f"p{idx}-{self.c.name()}")
        self.ports.append(p)
        return p

    def new_port(self, cls=Port) -> Port:
        self.auto += 1
        p = self.wf.create_port(cls, name=f"auto{self.auto}")
        self.ports.append(p)
        return p

    def pick(self, used: set, cls=Port, exact: bool = False) -> Port:
        """A port of class ``cls`` not yet wired to the step being built (``used``)."""
        cands = [p for p in self.ports if (type(p) is cls if exact else isinstance(p, cls)) and p.name not in used]
        p = cands[self.c.n(len(cands))] if cands and self.c.n(4) != 0 else self.new_port(cls)
        used.add(p.name)
        return p

    # -- configs
    def deployment(self) -> DeploymentConfig:
        c = self.c
        if self.deployments and c.n(3) == 0:
            return c.of(self.deployments)
        d = DeploymentConfig(
            name=f"dep{len(self.deployments)}-{c.name()}",
            type=c.of(["docker", "ssh", "local", "slurm"]),
            config=c.jdict(),
            external=c.bool(),
            lazy=c.bool(),
            scheduling_policy=None if c.n(2) else Config(name=c.name(), type=c.of(["data_locality", "x"]), config=c.jdict(1)),
            workdir=c.opt_str(),
            wraps=None if c.n(2) else WrapsConfig(deployment=c.name(), service=c.opt_str()),
        )
        self.deployments.append(d)
        return d

    def target(self) -> Target:
        c = self.c
        if c.n(3) == 0:
            return LocalTarget(workdir=c.opt_str())
        return Target(deployment=self.deployment(), locations=1 + c.n(3), service=c.opt_str(), workdir=c.opt_str())

    def opt_target(self):
        return None if self.c.n(3) else self.target()

    def filter(self) -> FilterConfig:
        c = self.c
        return FilterConfig(name=c.name(), type=c.of(["shuffle", "match"]), config=c.jdict(1))

    def binding(self) -> BindingConfig:
        c = self.c
        targets = [self.target() for _ in range(1 + c.n(3))]
        filters = [self.filter() for _ in range(c.n(3))]
        return BindingConfig(targets=targets, filters=filters) if filters or c.bool() else BindingConfig(targets=targets)

    def hardware(self):
        c = self.c
        if c.n(3) == 0:
            return None
        num = lambda: c.of([None, 1, 2.5, 4096, "$(inputs.n)", 0.5])  # noqa: E731
        return CWLHardwareRequirement(
            cwl_version=c.of(["v1.0", "v1.2"]), cores=num(), memory=num(), tmpdir=num(), outdir=num(),
            full_js=c.bool(), expression_lib=c.opt_strlist(),
        )

    def secondary_files(self):
        c = self.c
        return None if c.n(2) else [SecondaryFile(pattern=c.str(), required=c.of([True, False, "$(1 == 1)"])) for _ in range(c.n(3))]

    def token_type(self):
        c = self.c
        k = c.n(4)
        return None if k == 0 else c.of(TYPES) if k < 3 else [c.of(TYPES) for _ in range(1 + c.n(2))]

    # -- token processors (CWLTokenTransformer, ValueFrom*)
    def token_processor(self, name: str, depth: int = 2):
        c, wf = self.c, self.wf
        k = c.n(6 if depth > 0 else 2)
        if k == 0:
            return NullTokenProcessor(name=name, workflow=wf)
        if k in (1, 2):
            return CWLTokenProcessor(
                name=name, workflow=wf, token_type=self.token_type(), enum_symbols=c.opt_strlist(),
                expression_lib=c.opt_strlist(), file_format=c.opt_str(), full_js=c.bool(),
                load_contents=c.of([None, True, False]),
                load_listing=c.of([None, LoadListing.no_listing, LoadListing.shallow_listing, LoadListing.deep_listing]),
                only_propagate_secondary_files=c.bool(), secondary_files=self.secondary_files(), streamable=c.bool(),
            )
        if k == 3:
            return MapTokenProcessor(name=name, workflow=wf, processor=self.token_processor(name, depth - 1))
        if k == 4:
            return ObjectTokenProcessor(name=name, workflow=wf, processors={c.name(): self.token_processor(name, depth - 1) for _ in range(c.n(3))})
        return UnionTokenProcessor(name=name, workflow=wf, processors=[self.token_processor(name, depth - 1) for _ in range(c.n(3))])

    # -- command output processors (ExecuteStep)
    def output_processor(self, name: str, depth: int = 2):
        c, wf = self.c, self.wf
        if not self.cwl:
            k = c.n(5 if depth > 0 else 1)
            k = {0: 0, 1: 4, 2: 5, 3: 6, 4: 7}[k]
        else:
            k = c.n(8 if depth > 0 else 3)
        if k == 0:
            return DefaultCommandOutputProcessor(name=name, workflow=wf, target=self.opt_target())
        if k == 1:
            return CWLCommandOutputProcessor(
                name=name, workflow=wf, target=self.opt_target(), token_type=self.token_type(),
                enum_symbols=c.opt_strlist(), expression_lib=c.opt_strlist(), file_format=c.opt_str(), full_js=c.bool(),
                glob=c.of([None, "*.txt", "$(inputs.g)", ["a", "b*"]]), load_contents=c.bool(),
                load_listing=c.of([LoadListing.no_listing, LoadListing.shallow_listing, LoadListing.deep_listing]),
                optional=c.bool(), output_eval=c.of([None, *EXPRS]), secondary_files=self.secondary_files(),
                single=c.bool(), streamable=c.bool(),
            )
        if k == 2:
            return CWLExpressionToolOutputProcessor(
                name=name, workflow=wf, target=self.opt_target(), token_type=self.token_type(), enum_symbols=c.opt_strlist(),
                file_format=c.opt_str(), optional=c.bool(), streamable=c.bool(),
            )
        if k == 3:
            return CWLObjectCommandOutputProcessor(
                name=name, workflow=wf, processors={c.name(): self.output_processor(name, depth - 1) for _ in range(c.n(3))},
                expression_lib=c.opt_strlist(), full_js=c.bool(), output_eval=c.of([None, *EXPRS]), target=self.opt_target(), single=c.bool(),
            )
        if k == 4:
            return MapCommandOutputProcessor(name=name, workflow=wf, processor=self.output_processor(name, depth - 1), target=self.opt_target())
        if k == 5:
            return ObjectCommandOutputProcessor(
                name=name, workflow=wf, processors={c.name(): self.output_processor(name, depth - 1) for _ in range(c.n(3))}, target=self.opt_target()
            )
        if k == 6:
            return PopCommandOutputProcessor(name=name, workflow=wf, processor=self.output_processor(name, depth - 1), target=self.opt_target())
        return UnionCommandOutputProcessor(
            name=name, workflow=wf, processors=[self.output_processor(name, depth - 1) for _ in range(c.n(3))], target=self.opt_target()
        )

    # -- command token processors and commands
    def command_token_processor(self, depth: int = 2):
        c = self.c
        k = c.n(9 if depth > 0 else 3)
        name = c.name()
        if k in (0, 1):
            return CWLCommandTokenProcessor(
                name=name, expression=c.json(1), processor=None if depth <= 0 or c.n(2) else self.command_token_processor(depth - 1),
                token_type=c.of([None, *TYPES]), is_shell_command=c.bool(), item_separator=c.of([None, ",", " ", "&"]),
                position=c.of([0, 2, -1, "$(inputs.pos)"]), prefix=c.opt_str(), separate=c.bool(), shell_quote=c.bool(),
            )
        if k == 2:
            return CWLForwardCommandTokenProcessor(name=name, token_type=c.of([None, *TYPES]))
        if k == 3:
            return CWLMapCommandTokenProcessor(name=name, processor=self.command_token_processor(depth - 1))
        if k == 4:
            return CWLObjectCommandTokenProcessor(name=name, processors={c.name(): self.command_token_processor(depth - 1) for _ in range(c.n(3))})
        if k == 5:
            return UnionCommandTokenProcessor(name=name, processors=[self.command_token_processor(depth - 1) for _ in range(c.n(3))])
        if k == 6:
            return MapCommandTokenProcessor(name=name, processor=self.command_token_processor(depth - 1))
        if k == 7:
            return ObjectCommandTokenProcessor(name=name, processors={c.name(): self.command_token_processor(depth - 1) for _ in range(c.n(3))})
        return CWLForwardCommandTokenProcessor(name=name)

    def command(self, step):
        c = self.c
        k = c.n(6)
        if k == 0 or not self.cwl:
            return None
        k = 3 if k == 5 else min(k, 2)
        iwd = c.of([None, "/abs/dir", ["$(inputs.f)", {"entryname": "x", "entry": "y", "writable": True}], []])
        if k == 3:
            return CWLExpressionCommand(
                step=step, expression=c.of(EXPRS), absolute_initial_workdir_allowed=c.bool(), expression_lib=c.opt_strlist(),
                full_js=c.bool(), initial_work_dir=iwd, inplace_update=c.bool(), time_limit=c.of([None, 0, 10, "$(1+1)"]),
            )
        return CWLCommand(
            step=step,
            processors=None if c.n(5) == 0 else [self.command_token_processor() for _ in range(1 + c.n(3))],
            absolute_initial_workdir_allowed=c.bool(), base_command=c.opt_strlist(),
            environment=None if c.n(3) == 0 else {c.name(): c.str() for _ in range(c.n(3))},
            expression_lib=c.opt_strlist(), failure_codes=c.of([None, [], [1, 2]]), full_js=c.bool(), initial_work_dir=iwd,
            inplace_update=c.bool(), is_shell_command=c.bool(), success_codes=c.of([None, [0], [0, 3]]),
            step_stderr=c.opt_str(), step_stdin=c.opt_str(), step_stdout=c.opt_str(), time_limit=c.of([None, 0, 10, "$(1+1)"]),
        )

    # -- combinators
    def combinator(self, base: str, depth: int = 2, loop: bool = False):
        c, wf = self.c, self.wf
        name = f"{base}-c{depth}{c.n(10)}"
        k = 2 if loop else c.n(5 if self.cwl else 4)
        if k == 0:
            comb = DotProductCombinator(name=name, workflow=wf)
        elif k == 1:
            comb = CartesianProductCombinator(name=name, workflow=wf, depth=1 + c.n(3)) if c.n(3) else CartesianProductCombinator(name=name, workflow=wf)
        elif k == 2:
            comb = LoopCombinator(name=name, workflow=wf)
        elif k == 3:
            comb = LoopTerminationCombinator(name=name, workflow=wf)
            for _ in range(c.n(3)):
                comb.add_output_item(c.name())
        else:
            comb = ListMergeCombinator(name=name, workflow=wf, input_names=c.strlist(1, 3), output_name=c.name(), flatten=c.bool())
        for _ in range(c.n(4)):
            if depth > 0 and c.n(3) == 0:
                comb.add_combinator(self.combinator(base, depth - 1), {c.name() for _ in range(1 + c.n(2))})
            else:
                comb.add_item(c.name())
        return comb

    # -- generic wiring
    def wire(self, step, used: set, n_in: int, n_out: int, in_prefix: str = "i", out_prefix: str = "o") -> None:
        for i in range(n_in):
            try:
                step.add_input_port(f"{in_prefix}{i}-{self.c.name()}", self.pick(used))
            except WorkflowDefinitionException:
                break
        for i in range(n_out):
            try:
                step.add_output_port(f"{out_prefix}{i}-{self.c.name()}", self.pick(used))
            except WorkflowDefinitionException:
                break

    CORE_KINDS = ["combinator", "loop-combinator", "deploy", "execute", "gather", "scatter", "schedule"]
    CWL_KINDS = [
        "cwl-execute", "cwl-schedule", "transfer", "injector", "loop-out-all", "loop-out-last", "cond", "loop-cond",
        "empty-scatter-cond", "t-allnonnull", "t-broadcast", "t-cartsize", "t-clone", "t-token", "t-default",
        "t-default-retag", "t-dotsize", "t-firstnonnull", "t-forward", "t-list2elem", "t-onlynonnull", "t-valuefrom",
        "t-loopvaluefrom",
    ]

    EXTRA_WEIGHT = ["cwl-execute", "cwl-execute", "execute", "t-token", "t-clone", "cwl-schedule"]  # 36 kinds in total

    def make_step(self, sd: dict, idx: int) -> Step | None:
        kinds = self.CORE_KINDS + (self.CWL_KINDS + self.EXTRA_WEIGHT if self.cwl else [])
        kind = kinds[sd["k"] % len(kinds)]
        saved, self.c = self.c, Chooser(sd.get("p"))
        try:
            return self._make_step(kind, idx)
        finally:
            self.c = saved

    def _make_step(self, kind: str, idx: int) -> Step:
        c, wf = self.c, self.wf
        name = f"/s{idx}{c.of(STEP_SUFFIX)}"
        used: set = set()
        n_in, n_out = c.n(3), c.n(3)
        if kind == "combinator":
            s = wf.create_step(CombinatorStep, name=name, combinator=self.combinator(name))
            self.wire(s, used, n_in, n_out)
        elif kind == "loop-combinator":
            s = wf.create_step(LoopCombinatorStep, name=name, combinator=self.combinator(name, loop=True))
            self.wire(s, used, n_in, n_out)
        elif kind == "deploy":
            s = wf.create_step(
                DeployStep, name=name, deployment_config=self.deployment(),
                connector_port=None if c.n(3) == 0 else self.pick(used, ConnectorPort),
            )
            self.wire(s, used, n_in, 0)
        elif kind in ("execute", "cwl-execute"):
            jp = self.pick(used, JobPort)
            if kind == "execute":
                s = wf.create_step(ExecuteStep, name=name, job_port=jp)
            else:
                s = wf.create_step(
                    CWLExecuteStep, name=name, job_port=jp, recoverable=c.of([True, False, "$(inputs.file)"]),
                    expression_lib=c.opt_strlist(), full_js=c.bool(),
                )
            for i in range(n_in):
                s.add_input_port(f"i{i}-{c.name()}", self.pick(used))
            for i in range(n_out):
                oname = f"o{i}-{c.name()}"
                s.add_output_port(oname, self.pick(used), None if c.n(3) == 0 else self.output_processor(oname))
            for _ in range(c.n(3)):
                s.output_connectors[c.name()] = c.name()
            s.command = self.command(s)
        elif kind == "gather":
            s = wf.create_step(GatherStep, name=name, size_port=self.pick(used), **({"depth": 1 + c.n(3)} if c.bool() else {}))
            self.wire(s, used, min(n_in, 1), min(n_out, 1))
        elif kind == "scatter":
            s = wf.create_step(ScatterStep, name=name, size_port=None if c.n(3) == 0 else self.pick(used))
            self.wire(s, used, min(n_in, 1), min(n_out, 1))
        elif kind in ("schedule", "cwl-schedule"):
            binding = self.binding()
            cports = {}
            for t in binding.targets:
                if t.deployment.name not in cports:
                    cports[t.deployment.name] = self.pick(used, ConnectorPort)
            kw: dict[str, Any] = {}
            if c.bool():
                kw["job_port"] = self.pick(used, JobPort)
            if c.bool():
                kw["job_prefix"] = c.str() or "pfx"
            hw = self.hardware()
            if hw is not None:
                kw["hardware_requirement"] = hw
            for d in ("input_directory", "output_directory", "tmp_directory"):
                if c.bool():
                    kw[d] = c.str()
            s = wf.create_step(
                ScheduleStep if kind == "schedule" else CWLScheduleStep, name=name, binding_config=binding, connector_ports=cports, **kw
            )
            self.wire(s, used, n_in, 0)
        elif kind == "transfer":
            kw = {}
            if c.bool():
                kw["prefix_path"] = c.bool()
            if c.bool():
                kw["writable"] = c.bool()
            s = wf.create_step(CWLTransferStep, name=name, job_port=self.pick(used, JobPort), **kw)
            self.wire(s, used, n_in, n_out)
        elif kind == "injector":
            s = wf.create_step(CWLInputInjectorStep, name=name, job_port=self.pick(used, JobPort))
            self.wire(s, used, min(n_in, 1), min(n_out, 1))
        elif kind in ("loop-out-all", "loop-out-last"):
            s = wf.create_step(CWLLoopOutputAllStep if kind == "loop-out-all" else CWLLoopOutputLastStep, name=name)
            self.wire(s, used, min(n_in, 1), min(n_out, 1))
        elif kind in ("cond", "loop-cond"):
            kw = {}
            if c.bool():
                kw["expression_lib"] = c.opt_strlist()
            if c.bool():
                kw["full_js"] = c.bool()
            s = wf.create_step(CWLConditionalStep if kind == "cond" else CWLLoopConditionalStep, name=name, expression=c.of(EXPRS), **kw)
            self.wire(s, used, n_in, n_out)
            for i in range(c.n(3)):
                s.add_skip_port(f"k{i}-{c.name()}", self.pick(used))
        elif kind == "empty-scatter-cond":
            s = wf.create_step(
                CWLEmptyScatterConditionalStep, name=name, scatter_method=c.of(["dotproduct", "flat_crossproduct", "nested_crossproduct"])
            )
            self.wire(s, used, n_in, n_out)
            for i in range(c.n(3)):
                s.add_skip_port(f"k{i}-{c.name()}", self.pick(used))
        elif kind in ("t-allnonnull", "t-firstnonnull", "t-forward", "t-list2elem", "t-onlynonnull"):
            cls = {
                "t-allnonnull": AllNonNullTransformer, "t-firstnonnull": FirstNonNullTransformer, "t-forward": ForwardTransformer,
                "t-list2elem": ListToElementTransformer, "t-onlynonnull": OnlyNonNullTransformer,
            }[kind]
            s = wf.create_step(cls, name=name)
            self.wire(s, used, min(n_in, 1), min(n_out, 1))
        elif kind == "t-broadcast":
            s = wf.create_step(BroadcastTransformer, name=name)
            self.wire(s, used, min(n_in, 1), n_out)
        elif kind in ("t-cartsize", "t-dotsize"):
            s = wf.create_step(CartesianProductSizeTransformer if kind == "t-cartsize" else DotProductSizeTransformer, name=name)
            self.wire(s, used, n_in, min(n_out, 1))
        elif kind == "t-clone":
            s = wf.create_step(CloneTransformer, name=name, replicas_port=self.pick(used))
            self.wire(s, used, min(n_in, 1), min(n_out, 1))
        elif kind == "t-token":
            pname = c.name()
            s = wf.create_step(CWLTokenTransformer, name=name, port_name=pname, processor=self.token_processor(pname))
            self.wire(s, used, n_in, min(n_out, 1))
        elif kind == "t-default":
            s = wf.create_step(DefaultTransformer, name=name, default_port=self.pick(used))
            self.wire(s, used, n_in, min(n_out, 1))
        elif kind == "t-default-retag":
            s = wf.create_step(DefaultRetagTransformer, name=name, default_port=self.pick(used), primary_port=c.name())
            self.wire(s, used, n_in, min(n_out, 1))
        elif kind in ("t-valuefrom", "t-loopvaluefrom"):
            pname = c.name()
            kw = {}
            if c.bool():
                kw["expression_lib"] = c.opt_strlist()
            if c.bool():
                kw["full_js"] = c.bool()
            s = wf.create_step(
                ValueFromTransformer if kind == "t-valuefrom" else LoopValueFromTransformer, name=name, port_name=pname,
                processor=self.token_processor(pname), value_from=c.of(EXPRS), **kw,
            )
            if kind == "t-loopvaluefrom":
                for i in range(c.n(3)):
                    s.add_loop_input_port(f"l{i}-{c.name()}", self.pick(used))
                if c.bool():
                    s.add_loop_source_port(c.name(), self.pick(used))
            self.wire(s, used, n_in, min(n_out, 1))
        else:  # pragma: no cover
            raise AssertionError(kind)
        return s


TERMINATED = (Status.COMPLETED, Status.FAILED, Status.SKIPPED)
INITIAL_STATUSES = [Status.WAITING, Status.WAITING, Status.FIREABLE, Status.RUNNING, Status.SKIPPED, Status.COMPLETED, Status.FAILED]


def build_workflow(ctx, desc: dict) -> tuple[Workflow, Builder]:
    """desc: {"cwl": 0/1, "p": [ints], "ports": [k...], "steps": [{"k": int, "p": [ints]}], "outs": [ints],
    "ins": [ints], "status": [ints], "dup": 0/1}"""
    b = Builder(ctx, desc)
    wf = b.make_workflow()
    for i, k in enumerate(desc.get("ports", [])):
        b.make_port(k, i)
    for i, sd in enumerate(desc.get("steps", [])):
        b.make_step(sd, i)
    ports = list(wf.ports.values())
    for j, i in enumerate(desc.get("outs", [])):
        if ports:
            wf.output_ports[f"out{j}-{NAMES[i % len(NAMES)]}"] = ports[i % len(ports)].name
    for j, i in enumerate(desc.get("ins", [])):
        if ports:
            wf.input_ports[f"in{j}-{NAMES[i % len(NAMES)]}"] = ports[i % len(ports)].name
    steps = list(wf.steps.values())
    for j, k in enumerate(desc.get("status", [])):
        if j < len(steps):
            st = INITIAL_STATUSES[k % len(INITIAL_STATUSES)]
            steps[j].status = st
            steps[j].terminated = st in TERMINATED
    return wf, b


# ------------------------------------------------------------------------------------------------
# tokens


def build_token(td: dict) -> Token:
    """td: {"t": "tok"|"file"|"list"|"obj"|"job"|"term"|"iter", ...} (see c08.token_desc)."""
    t = td["t"]
    if t == "tok":
        return Token(value=td["v"], tag=td["tag"], recoverable=bool(td["rec"]))
    if t == "file":
        return CWLFileToken(value=td["v"], tag=td["tag"], recoverable=bool(td["rec"]))
    if t == "list":
        return ListToken(value=[build_token(x) for x in td["items"]], tag=td["tag"])
    if t == "obj":
        return ObjectToken(value={k: build_token(x) for k, x in td["items"].items()}, tag=td["tag"])
    if t == "job":
        job = Job(
            name=td["name"], workflow_id=td["wid"], inputs={k: build_token(x) for k, x in td["inputs"].items()},
            input_directory=td["dirs"][0], output_directory=td["dirs"][1], tmp_directory=td["dirs"][2],
        )
        return JobToken(value=job, tag=td["tag"], recoverable=bool(td["rec"]))
    if t == "term":
        return TerminationToken(Status(td["status"]))
    if t == "iter":
        return IterationTerminationToken(tag=td["tag"])
    raise AssertionError(t)


def token_model(td: dict) -> Any:
    """Expected canonical form of a token, computed from the *description* (not from the object)."""
    t = td["t"]
    if t == "tok":
        return ["token", "streamflow.core.workflow.Token", td["tag"], bool(td["rec"]), canon_value(td["v"])]
    if t == "file":
        return ["token", "streamflow.cwl.token.CWLFileToken", td["tag"], bool(td["rec"]), canon_value(td["v"])]
    if t == "list":
        items = [token_model(x) for x in td["items"]]
        return ["token", "streamflow.workflow.token.ListToken", td["tag"], all(i[3] for i in items), ["list", items]]
    if t == "obj":
        items = {k: token_model(x) for k, x in td["items"].items()}
        return ["token", "streamflow.workflow.token.ObjectToken", td["tag"], all(i[3] for i in items.values()), ["dict", items]]
    if t == "job":
        job = ["obj", "streamflow.core.workflow.Job", {
            "name": td["name"], "workflow_id": ["int", td["wid"]],
            "inputs": ["dict", {k: token_model(x) for k, x in td["inputs"].items()}],
            "input_directory": td["dirs"][0], "output_directory": td["dirs"][1], "tmp_directory": td["dirs"][2],
        }]
        return ["token", "streamflow.workflow.token.JobToken", td["tag"], bool(td["rec"]), job]
    if t == "term":
        return ["token", "streamflow.workflow.token.TerminationToken", "0", False, ["enum", "Status", Status(td["status"]).name]]
    if t == "iter":
        return ["token", "streamflow.workflow.token.IterationTerminationToken", td["tag"], False, None]
    raise AssertionError(t)


def token_depth(td: dict) -> int:
    t = td["t"]
    if t == "list":
        return 1 + max((token_depth(x) for x in td["items"]), default=0)
    if t == "obj":
        return 1 + max((token_depth(x) for x in td["items"].values()), default=0)
    if t == "job":
        return 1 + max((token_depth(x) for x in td["inputs"].values()), default=0)
    return 0


def token_classes(td: dict, out: set) -> set:
    out.add(td["t"])
    for x in (td.get("items", []) if isinstance(td.get("items"), list) else list((td.get("items") or {}).values())):
        token_classes(x, out)
    for x in (td.get("inputs") or {}).values():
        token_classes(x, out)
    return out


# ------------------------------------------------------------------------------------------------
# canonical form (the oracle)

SKIP_ATTRS = {"persistent_id", "context", "queues", "token_list"}
_SYNC = (asyncio.Lock, asyncio.Event, asyncio.Queue, asyncio.Condition, asyncio.Semaphore)


def fullname(cls: type) -> str:
    return cls.__module__ + "." + cls.__qualname__


def public_attrs(o: Any) -> dict:
    d: dict[str, Any] = {}
    for klass in type(o).__mro__:
        slots = klass.__dict__.get("__slots__", ())
        for s in (slots,) if isinstance(slots, str) else slots:
            if s.startswith("__"):
                continue
            try:
                d[s] = getattr(o, s)
            except AttributeError:
                pass
    d.update(getattr(o, "__dict__", {}))
    return {k: v for k, v in d.items() if not k.startswith("_") and k not in SKIP_ATTRS}


def canon_value(v: Any) -> Any:
    """Canonical form of a plain JSON-like value (types kept: bool / int / float are distinguished)."""
    if v is None or isinstance(v, str):
        return v
    if isinstance(v, bool):
        return ["bool", v]
    if isinstance(v, int):
        return ["int", v]
    if isinstance(v, float):
        return ["float", repr(v)]
    if isinstance(v, list):
        return ["list", [canon_value(x) for x in v]]
    if isinstance(v, tuple):
        return ["tuple", [canon_value(x) for x in v]]
    if isinstance(v, dict):
        return ["dict", {(k if isinstance(k, str) else f"<{type(k).__name__}>{k!r}"): canon_value(x) for k, x in v.items()}]
    raise TypeError(f"not a plain value: {type(v)}")


def canon(root: Any, *, normalize_status: bool = False, drop: frozenset = frozenset()) -> Any:
    """Canonical structural form of ``root`` (a Workflow, Step, Port, Token, Target, ...).

    Entities (Workflow / Step / Port) met anywhere but at their defining position are emitted as
    references by name plus whether they are the objects registered in the root workflow ("own") —
    that is the wiring. ``normalize_status`` maps every step to WAITING / not terminated (what a
    WorkflowBuilder copy must look like). ``drop`` = attribute names left out (e.g. input_ports of
    the workflow, checked separately)."""
    root_wf = root if isinstance(root, Workflow) else getattr(root, "workflow", None)
    stack: list[int] = []

    def ref(o: Any) -> Any:
        if isinstance(o, Workflow):
            return ["wf-ref", "root" if o is root_wf else "foreign:" + str(o.name)]
        if isinstance(o, Port):
            own = root_wf is not None and root_wf.ports.get(o.name) is o
            return ["port-ref", o.name, "own" if own else "foreign"]
        own = root_wf is not None and root_wf.steps.get(o.name) is o
        return ["step-ref", o.name, "own" if own else "foreign"]

    def c(o: Any, expand: bool = False) -> Any:
        if o is None or isinstance(o, str):
            return o
        if isinstance(o, bool):
            return ["bool", o]
        if isinstance(o, enum.Enum):
            return ["enum", type(o).__name__, o.name]
        if isinstance(o, int):
            return ["int", o]
        if isinstance(o, float):
            return ["float", repr(o)]
        if isinstance(o, (bytes, bytearray)):
            return ["bytes", o.hex()]
        if isinstance(o, list):
            return ["list", [c(x) for x in o]]
        if isinstance(o, tuple):
            return ["tuple", [c(x) for x in o]]
        if isinstance(o, (set, frozenset)):
            return ["set", sorted((c(x) for x in o), key=repr)]
        if isinstance(o, dict):
            return ["dict", {(k if isinstance(k, str) else f"<{type(k).__name__}>{k!r}"): c(x) for k, x in o.items()}]
        if isinstance(o, _SYNC):
            return ["sync"]
        if isinstance(o, (Workflow, Step, Port)) and not expand:
            return ref(o)
        mod = type(o).__module__
        if mod.startswith("rdflib"):
            return ["graph", sorted(" ".join(t.n3() for t in triple) for triple in o)]
        if type(o).__name__ in ("function", "method", "builtin_function_or_method", "partial"):
            return ["callable"]
        if isinstance(o, Token):
            return ["token", fullname(type(o)), o.tag, o.recoverable, c(o.value)]
        if id(o) in stack:
            return ["cycle", fullname(type(o))]
        stack.append(id(o))
        try:
            attrs = public_attrs(o)
            out = {}
            for k, v in attrs.items():
                if k in drop and o is root:
                    continue
                if isinstance(o, Workflow) and k in ("ports", "steps") and isinstance(v, dict):
                    out[k] = ["dict", {n: c(e, expand=isinstance(e, (Step, Port))) for n, e in v.items()}]
                elif isinstance(o, DeploymentConfig) and k in ("external", "lazy"):
                    out[k] = ["bool", bool(v)]  # sqlite INTEGER column: 0/1 accepted for False/True
                elif isinstance(o, Step) and normalize_status and k == "status":
                    out[k] = ["enum", "Status", "WAITING"]
                elif isinstance(o, Step) and normalize_status and k == "terminated":
                    out[k] = ["bool", False]
                else:
                    out[k] = c(v)
            return ["obj", fullname(type(o)), out]
        finally:
            stack.pop()

    return c(root, expand=True)


def classes_in(cn: Any, out: set) -> set:
    """Class names of all objects / tokens in a canonical form."""
    if isinstance(cn, list):
        if len(cn) == 3 and cn[0] == "obj" and isinstance(cn[2], dict):
            out.add(cn[1].rsplit(".", 1)[-1])
            for v in cn[2].values():
                classes_in(v, out)
        elif len(cn) == 5 and cn[0] == "token":
            out.add(cn[1].rsplit(".", 1)[-1])
            classes_in(cn[4], out)
        else:
            for v in cn:
                classes_in(v, out)
    elif isinstance(cn, dict):
        for v in cn.values():
            classes_in(v, out)
    return out


def first_diff(a: Any, b: Any, path: str = "", owner: str = "?") -> tuple[str, str, Any, Any] | None:
    """First difference between two canonical forms: (path, owner 'Class.attr', a-part, b-part)."""
    if type(a) is not type(b):
        return path, owner, a, b
    if isinstance(a, list):
        if len(a) == 3 and a[0] == "obj" and len(b) == 3 and b[0] == "obj" and isinstance(a[2], dict) and isinstance(b[2], dict):
            if a[1] != b[1]:
                return path + "<class>", owner, a[1], b[1]
            cls = a[1].rsplit(".", 1)[-1]
            for k in sorted(set(a[2]) | set(b[2])):
                if k not in a[2] or k not in b[2]:
                    return f"{path}.{k}", f"{cls}.{k}", a[2].get(k, "<missing>"), b[2].get(k, "<missing>")
                d = first_diff(a[2][k], b[2][k], f"{path}.{k}", f"{cls}.{k}")
                if d:
                    return d
            return None
        if len(a) == 5 and a[0] == "token" and len(b) == 5 and b[0] == "token":
            names = ["", "<class>", "tag", "recoverable", "value"]
            cls = str(a[1]).rsplit(".", 1)[-1]
            for i in range(1, 5):
                d = first_diff(a[i], b[i], f"{path}.{names[i]}", f"{cls}.{names[i]}")
                if d:
                    return d
            return None
        if len(a) != len(b):
            return path + "<len>", owner, a, b
        for i, (x, y) in enumerate(zip(a, b)):
            d = first_diff(x, y, f"{path}[{i}]", owner)
            if d:
                return d
        return None
    if isinstance(a, dict):
        for k in sorted(set(a) | set(b)):
            if k not in a or k not in b:
                return f"{path}[{k!r}]", owner, a.get(k, "<missing>"), b.get(k, "<missing>")
            d = first_diff(a[k], b[k], f"{path}[{k!r}]", owner)
            if d:
                return d
        return None
    if a != b:
        return path, owner, a, b
    return None


# ------------------------------------------------------------------------------------------------
# independence oracle support


def containers(root: Any) -> dict[int, tuple[str, Any]]:
    """id -> ('Class.attr', container) for every list / dict / set reachable from ``root`` through
    public state (same traversal as ``canon``; entities are entered, the context is not)."""
    out: dict[int, tuple[str, Any]] = {}
    seen: set[int] = set()

    def walk(o: Any, owner: str) -> None:
        if o is None or isinstance(o, (str, bool, int, float, bytes, enum.Enum)) or isinstance(o, _SYNC):
            return
        if id(o) in seen:
            return
        seen.add(id(o))
        if isinstance(o, (list, tuple, set, frozenset)):
            if isinstance(o, (list, set)):
                out[id(o)] = (owner, o)
            for x in list(o):
                walk(x, owner)
            return
        if isinstance(o, dict):
            out[id(o)] = (owner, o)
            for x in list(o.values()):
                walk(x, owner)
            return
        mod = type(o).__module__
        if mod.startswith("rdflib") or type(o).__name__ in ("function", "method", "builtin_function_or_method"):
            return
        cls = type(o).__name__
        if isinstance(o, Token):
            walk(o.value, f"{cls}.value")
            return
        if not (mod.startswith("streamflow") or mod.startswith("vf")):
            return
        for k, v in public_attrs(o).items():
            walk(v, f"{cls}.{k}")

    walk(root, type(root).__name__)
    return out


def mutate(conts: list[Any]) -> None:
    for o in conts:
        if isinstance(o, list):
            o.append(SENTINEL)
        elif isinstance(o, dict):
            o[SENTINEL] = SENTINEL
        elif isinstance(o, set):
            o.add(SENTINEL)


def entity_ids(wf: Workflow) -> set[int]:
    return {id(wf), *(id(s) for s in wf.steps.values()), *(id(p) for p in wf.ports.values())}
