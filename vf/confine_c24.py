"""Confinement and liveness helpers for C24 (remote path operations with hostile names).

Why this exists
---------------
``RemoteStreamFlowPath`` pastes paths *unquoted* into several shell commands (finding F6). With names
from the hostile alphabet the shell therefore splits, expands and executes parts of a name:
``rm -rf /sandbox/r/a ~`` removes ``$HOME``, ``rm -rf /sandbox/r/a *`` removes the working directory's
entries, ``mkdir -p /sandbox/r/a >x`` creates ``x`` in the working directory, and a directory name ending
in a blank followed by ``/child`` produces the *absolute* word ``/child``. A check that generates such
names must make sure nothing outside its sandbox can be touched:

1. (generator side, in ``vf/props/c24.py``) no path handed to the code under test has a non-final
   component that can end a shell word or expand to nothing, so no absolute word other than the sandbox
   prefix itself can arise, and the shell's working directory and ``$HOME`` are sandbox directories;
2. (this module, defence in depth) every ``sh`` the connector spawns runs inside a private *mount
   namespace* in which every mount is read-only except the shard's sandbox directory.

``Box`` implements 2 *in the calling thread* (the shard's main thread, which is the one that forks every
subprocess of the event loop): ``os.unshare(CLONE_NEWNS)``, mount propagation private, the sandbox
bind-mounted read-write onto itself, every other mount remounted read-only (``mount(2)`` through ctypes; no
helper process). Children inherit the namespace, the working directory (``<box>/cwd``) and ``HOME``
(``<box>/home``). ``close()`` returns to the original namespace (``os.setns``), so a runner that executes
the shard inline can still write its evidence. The local reference side never uses a shell and only writes
below the sandbox. If namespaces are not permitted the box degrades to working directory + ``HOME`` inside
the sandbox (``box.confined`` is False).

``shell_stuck(connector, location)`` is the exact "the persistent shell can make no progress" test used
to decide that an operation hangs without relying on elapsed time: StreamFlow waits for the shell's end
marker while the shell (no child process, empty stdin pipe) is itself blocked reading its stdin.
"""
from __future__ import annotations

import array
import ctypes
import fcntl
import os
import shutil
import tempfile
import termios

MS_RDONLY, MS_REMOUNT, MS_BIND, MS_REC, MS_PRIVATE = 1, 32, 4096, 16384, 1 << 18
PROTECTED = ("/", "/tmp", "/dev", "/root", "/verif", "/repo", "/var/tmp", "/home")


def _mount(source: str | None, target: str, flags: int) -> None:
    libc = ctypes.CDLL(None, use_errno=True)
    libc.mount.argtypes = [ctypes.c_char_p, ctypes.c_char_p, ctypes.c_char_p, ctypes.c_ulong, ctypes.c_void_p]
    src = source.encode() if source is not None else None
    if libc.mount(src, target.encode(), None, flags, None) != 0:
        err = ctypes.get_errno()
        raise OSError(err, os.strerror(err), target)


def _mount_points() -> list[str]:
    out = []
    with open("/proc/self/mountinfo") as fh:
        for line in fh:
            mp = line.split(" ")[4]
            out.append(mp.encode().decode("unicode_escape") if "\\" in mp else mp)
    return out


class Box:
    """Per-shard sandbox: ``base`` (mkdtemp) with ``cwd/``, ``home/``, ``cases/``, ``tmp/`` (``TMPDIR``).

    ``suspend()`` / ``resume()`` leave and re-enter the box (namespace, working directory, ``HOME``, ``TMPDIR``)
    without destroying it: a runner that executes several sub-checks or replays in its own process keeps one
    box (and one deployed connector) and is outside the box whenever it writes its own files."""

    def __init__(self, prefix: str = "vf-c24-") -> None:
        self.base = os.path.realpath(tempfile.mkdtemp(prefix=prefix))
        self.cwd = os.path.join(self.base, "cwd")
        self.home = os.path.join(self.base, "home")
        self.cases = os.path.join(self.base, "cases")
        self.tmp = os.path.join(self.base, "tmp")
        for d in (self.cwd, self.home, self.cases, self.tmp):
            os.mkdir(d)
        self.confined = False
        self.inside = False
        self.trapped = False
        self._orig_ns: int | None = None
        self._box_ns: int | None = None
        self._saved: tuple | None = None
        self._counter = 0
        self._remember()
        try:
            self._confine()
        except Exception:  # noqa: BLE001 - degrade, never fail the shard because of the belt
            self._to_ns(self._orig_ns)
            for fd in (self._orig_ns, self._box_ns):
                if fd is not None:
                    os.close(fd)
            self._orig_ns = self._box_ns = None
            self.confined = False
        self._enter_env()

    # -- environment (suspenders; the whole protection when namespaces are unavailable) --
    def _remember(self) -> None:
        self._saved = (os.getcwd(), os.environ.get("HOME"), os.environ.get("TMPDIR"), tempfile.tempdir)

    def _enter_env(self) -> None:
        os.environ["HOME"] = self.home
        os.environ["TMPDIR"] = self.tmp
        tempfile.tempdir = self.tmp
        os.chdir(self.cwd)
        self.inside = True

    def _leave_env(self) -> None:
        cwd, home, tmpdir, tempdir = self._saved
        try:
            os.chdir(cwd)
        except OSError:
            os.chdir("/")
        for key, val in (("HOME", home), ("TMPDIR", tmpdir)):
            if val is None:
                os.environ.pop(key, None)
            else:
                os.environ[key] = val
        tempfile.tempdir = tempdir
        self.inside = False

    # -- namespace (belt) --
    def _to_ns(self, fd: int | None) -> None:
        if fd is not None:
            os.setns(fd, os.CLONE_NEWNS)

    def _confine(self) -> None:
        if os.environ.get("C24_NO_CONFINE") or not hasattr(os, "unshare") or os.geteuid() != 0:
            return
        self._orig_ns = os.open("/proc/thread-self/ns/mnt", os.O_RDONLY)
        os.unshare(os.CLONE_NEWNS)
        self._box_ns = os.open("/proc/thread-self/ns/mnt", os.O_RDONLY)
        _mount(None, "/", MS_REC | MS_PRIVATE)
        _mount(self.base, self.base, MS_BIND)
        for mp in _mount_points():
            if mp == self.base or mp.startswith(self.base + "/"):
                continue
            try:
                _mount(None, mp, MS_BIND | MS_REMOUNT | MS_RDONLY)
            except OSError:
                pass
        for d in PROTECTED:
            if os.path.isdir(d) and os.access(d, os.W_OK):
                raise RuntimeError(f"{d} is still writable")
        if not os.access(self.cases, os.W_OK):
            raise RuntimeError("the sandbox is not writable")
        self.confined = True

    def suspend(self) -> None:
        if self.inside:
            if self.confined:
                try:
                    self._to_ns(self._orig_ns)
                except OSError:
                    # a thread created inside the box shares this thread's fs_struct: the kernel refuses setns.
                    # The process stays confined (harmless for a shard process that is about to exit).
                    self.trapped = True
            self._leave_env()

    def resume(self) -> None:
        if not self.inside:
            self._remember()
            if self.confined:
                self._to_ns(self._box_ns)
            self._enter_env()

    def new_case_dir(self) -> str:
        self._counter += 1
        d = os.path.join(self.cases, f"c{self._counter}")
        os.mkdir(d)
        return d

    def strays(self) -> list[str]:
        """Names that appeared in the shell's working directory or ``$HOME`` (word-split leftovers)."""
        out = []
        for d, tag in ((self.cwd, "cwd"), (self.home, "home")):
            try:
                out += [f"{tag}/{n}" for n in sorted(os.listdir(d))]
            except FileNotFoundError:
                out.append(f"{tag} (removed)")
        return out

    def scrub(self) -> None:
        """Empty (or re-create) the working directory and ``$HOME``."""
        for d in (self.cwd, self.home):
            if os.path.isdir(d) and not os.path.islink(d):
                for n in os.listdir(d):
                    p = os.path.join(d, n)
                    if os.path.isdir(p) and not os.path.islink(p):
                        _chmod_tree(p)
                        shutil.rmtree(p, ignore_errors=True)
                    else:
                        try:
                            os.unlink(p)
                        except OSError:
                            pass
            else:
                try:
                    os.unlink(d)
                except OSError:
                    pass
                os.makedirs(d, exist_ok=True)

    def close(self) -> None:
        self.suspend()
        for fd in (self._orig_ns, self._box_ns):
            if fd is not None:
                os.close(fd)
        self._orig_ns = self._box_ns = None
        self.confined = False
        _chmod_tree(self.base)
        shutil.rmtree(self.base, ignore_errors=True)


def _chmod_tree(root: str) -> None:
    """Make every directory below ``root`` removable again (cases chmod directories to 0o000 etc.)."""
    for dirpath, dirnames, _ in os.walk(root):
        for d in dirnames:
            p = os.path.join(dirpath, d)
            if not os.path.islink(p):
                try:
                    os.chmod(p, 0o700)
                except OSError:
                    pass


# -------------------------------------------------------------------------------------------------
# exact liveness test of the persistent shell


def _children(pid: int) -> list[int]:
    out: list[int] = []
    try:
        for tid in os.listdir(f"/proc/{pid}/task"):
            with open(f"/proc/{pid}/task/{tid}/children") as fh:
                out += [int(x) for x in fh.read().split()]
    except (OSError, ValueError):
        pass
    return out


_SYS = {"x86_64": {"read": 0, "wait": (61, 247)}, "aarch64": {"read": 63, "wait": (260, 95)}}.get(
    os.uname().machine, {"read": 0, "wait": (61, 247)}
)


def _syscall(pid: int) -> tuple[int, int] | None:
    """(number, first argument) of the system call the process is blocked in, None if running/unknown."""
    try:
        with open(f"/proc/{pid}/syscall") as fh:
            words = fh.read().split()
        return int(words[0]), int(words[1], 16)
    except (OSError, ValueError, IndexError):
        return None


def _fd_target(pid: int, fd: int) -> str | None:
    try:
        return os.readlink(f"/proc/{pid}/fd/{fd}")
    except OSError:
        return None


def _tree_blocked_on(pid: int, pipe: str, depth: int = 0) -> bool:
    """Can the process never run again unless data arrives on ``pipe`` (the persistent shell's stdin)?
    Either it is itself blocked in read() on that pipe (whatever children it still has: zombies of finished
    background jobs, jobs still running - none of them can make *it* continue), or it is blocked waiting for
    children all of which are blocked in this sense."""
    if depth > 8:
        return False
    sc = _syscall(pid)
    if sc is None:
        return False
    if sc[0] == _SYS["read"]:
        return _fd_target(pid, sc[1]) == pipe
    if sc[0] in _SYS["wait"]:
        kids = _children(pid)
        return bool(kids) and all(_tree_blocked_on(k, pipe, depth + 1) for k in kids)
    return False


def _stdin_empty(pid: int) -> bool:
    try:
        fd = os.open(f"/proc/{pid}/fd/0", os.O_RDONLY | os.O_NONBLOCK)
    except OSError:
        return False
    try:
        buf = array.array("i", [0])
        fcntl.ioctl(fd, termios.FIONREAD, buf)
        return buf[0] == 0
    except OSError:
        return False
    finally:
        os.close(fd)


def _reader_drained(reader) -> bool:
    if reader is None:
        return False
    if len(getattr(reader, "_buffer", b"")) != 0:
        return False
    transport = getattr(reader, "_transport", None)
    pipe = transport.get_extra_info("pipe") if transport is not None else None
    if pipe is None:
        return False
    try:
        buf = array.array("i", [0])
        fcntl.ioctl(pipe.fileno(), termios.FIONREAD, buf)
        return buf[0] == 0
    except (OSError, ValueError):
        return False


def shell_procs(connector, location) -> list:
    """The ``asyncio.subprocess.Process`` objects of the connector's persistent shells on ``location``."""
    shells = getattr(connector, "_shells", {}).get(location.name, {})
    return [s._proc for s in shells.values() if getattr(s, "_proc", None) is not None]


def shell_stuck(connector, location) -> bool:
    """True iff a persistent shell of ``location`` holds its execute-lock (a command is in flight) and the
    shell process is alive and it - or every command it is waiting for - is blocked reading the shell's *empty* stdin pipe whose writer has
    nothing buffered, and no output of the shell is pending on StreamFlow's side (pipe and StreamReader buffer
    empty): neither side can ever make progress (the command's text left the shell inside an
    unterminated quote / here-document, so the end marker was swallowed)."""
    shells = getattr(connector, "_shells", {}).get(location.name, {})
    for s in shells.values():
        proc = getattr(s, "_proc", None)
        lock = getattr(s, "_lock", None)
        if proc is None or proc.returncode is not None or lock is None or not lock.locked():
            continue
        transport = getattr(proc.stdin, "transport", None)
        if transport is not None and transport.get_write_buffer_size() != 0:
            continue
        # nothing the shell has already said may be on its way to StreamFlow (pipe or StreamReader buffer)
        if not _reader_drained(proc.stdout):
            continue
        pid = proc.pid
        pipe = _fd_target(pid, 0)
        if pipe is None or not pipe.startswith("pipe:"):
            continue
        # the shell itself, or a command it is waiting for that reads the shell's own stdin (`cat PATH -`)
        if _stdin_empty(pid) and _tree_blocked_on(pid, pipe) and _stdin_empty(pid):
            return True
    return False


def kill_shells(connector, location) -> None:
    import signal

    for proc in shell_procs(connector, location):
        if proc.returncode is None:
            victims = []

            def collect(pid: int, depth: int = 0) -> None:
                if depth < 8:
                    for k in _children(pid):
                        collect(k, depth + 1)
                        victims.append(k)

            collect(proc.pid)
            try:
                proc.kill()
            except ProcessLookupError:
                pass
            for k in victims:
                try:
                    os.kill(k, signal.SIGKILL)
                except OSError:
                    pass
