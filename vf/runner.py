"""CLI runner: ``./check <ID> <quick|thorough>`` and ``./check <ID> --replay <file>``.

Exit codes: 0 = held on everything explored (possibly with KNOWN-FINDING lines);
1 = ``VIOLATION property=<ID> replay=<path>``; 2 = harness error / inconclusive.
"""
from __future__ import annotations

import asyncio
import gc
import importlib
import json
import multiprocessing
import os
import signal
import sys
import time
import traceback
from collections import Counter
from pathlib import Path
from typing import Any

from vf.core import HarnessError, Prop, Rec, SubCheck, Violation, canon_json, case_hash

VERIF = Path(__file__).resolve().parent.parent
REPO = Path(os.environ.get("VERIF_REPO", "/repo"))
NCPU = int(os.environ.get("VERIF_JOBS", "16"))
MAX_SAMPLES = 3
MAX_SAMPLE_CHARS = 1500


# ------------------------------------------------------------------------------------------------
# known findings


def load_known(pid: str) -> list[dict]:
    out: list[dict] = []
    paths = [VERIF / "known_findings.json", *sorted((VERIF / "known_findings.d").glob("*.json"))]
    for path in paths:
        if not path.exists():
            continue
        data = None
        for _ in range(5):  # a fragment may be mid-rewrite while checks of other properties run
            try:
                data = json.loads(path.read_text())
                break
            except (json.JSONDecodeError, OSError):
                time.sleep(0.2)
        if data is None:
            raise HarnessError(f"cannot parse {path}")
        for f in data.get("findings", []):
            if f.get("property") == pid and f.get("status") == "known" and f["kind"] not in {o["kind"] for o in out}:
                out.append(f)
    return out


# ------------------------------------------------------------------------------------------------
# running one case


def _in_repo(tb) -> bool:
    """True if the innermost frames of the traceback pass through the code under test."""
    repo = str(REPO)
    for frame, _ in traceback.walk_tb(tb):
        fn = frame.f_code.co_filename
        if fn.startswith(repo + "/streamflow"):
            return True
    return False


def _crash_kind(pid: str, exc: BaseException) -> str:
    where = "?"
    repo = str(REPO)
    for frame, _ in traceback.walk_tb(exc.__traceback__):
        fn = frame.f_code.co_filename
        if fn.startswith(repo + "/streamflow"):
            where = f"{os.path.relpath(fn, repo)}:{frame.f_code.co_name}"
    return f"{pid}:crash:{type(exc).__name__}@{where}"


def call_case(sub: SubCheck, case: Any, rec: Rec, pid: str) -> None:
    """Run the property function on one case; normalise outcomes to Violation / HarnessError."""
    # The pinned cachebox (6.2.0) self-deadlocks when a cyclic garbage collection starts inside a
    # cache-miss of a `cached` getter (its tp_traverse takes the mutex the thread already holds).
    # Collections are therefore deferred to the gaps between cases; no semantic effect on the case.
    global _CASES
    gc.disable()
    try:
        _call_case(sub, case, rec, pid)
    finally:
        gc.enable()
        _CASES += 1
        if _CASES % 25 == 0:
            gc.collect()


_CASES = 0


def _call_case(sub: SubCheck, case: Any, rec: Rec, pid: str) -> None:
    try:
        if sub.is_async:
            if sub.loop == "det":
                from vf.engine import detloop

                detloop.run(sub.fn(case, rec))
            else:
                timeout = sub.case_timeout or 120.0

                async def guarded():
                    return await asyncio.wait_for(sub.fn(case, rec), timeout)

                try:
                    asyncio.run(guarded())
                except asyncio.TimeoutError as e:
                    raise HarnessError(f"case exceeded the {timeout}s safety net (inconclusive)") from e
        else:
            sub.fn(case, rec)
    except (Violation, HarnessError):
        raise
    except (KeyboardInterrupt, SystemExit):
        raise
    except BaseException as e:  # noqa: BLE001
        if getattr(e, "_vf_deadlock", False):
            raise Violation(f"{pid}:deadlock", str(e)) from e
        if _in_repo(e.__traceback__):
            raise Violation(_crash_kind(pid, e), "".join(traceback.format_exception(e))[-1500:]) from e
        raise HarnessError("".join(traceback.format_exception(e))[-3000:]) from e


class ShardState:
    def __init__(self, pid: str, sub: SubCheck, known: set[str]):
        self.pid = pid
        self.sub = sub
        self.known = known
        self.evaluations = 0
        self.nontrivial: set[int] = set()
        self.labels: Counter = Counter()
        self.samples: list = []
        self.bulk_evaluations = 0
        self.bulk_nontrivial = 0
        self.known_hits: Counter = Counter()
        self.known_examples: dict[str, Any] = {}
        self.failure: dict | None = None
        self.harness_error: str | None = None

    def run_case(self, case: Any) -> None:
        if self.harness_error is not None:
            raise HarnessError(self.harness_error)
        self.evaluations += 1
        rec = Rec()
        try:
            call_case(self.sub, case, rec, self.pid)
        except Violation as v:
            self._account(case, rec)
            if v.kind in self.known:
                self.known_hits[v.kind] += 1
                self.known_examples.setdefault(v.kind, case)
                return
            self.failure = {"case": case, "kind": v.kind, "message": v.message}
            raise
        except HarnessError as h:
            self.harness_error = f"sub-check {self.sub.name}: {h}\ncase: {canon_json(case)[:2000]}"
            raise
        self._account(case, rec)

    def _account(self, case: Any, rec: Rec) -> None:
        for lab in rec.labels:
            self.labels[lab] += 1
        if rec.bulk_evaluations and self.sub.mode == "enumerated":
            self.bulk_evaluations += rec.bulk_evaluations
            self.bulk_nontrivial += rec.bulk_nontrivial
            if rec.bulk_nontrivial and len(self.samples) < MAX_SAMPLES:
                self.samples.append({"block": case, "elementary_cases": rec.bulk_evaluations})
            return
        if rec.is_nontrivial:
            self.labels["nontrivial"] += 1
            h = case_hash(rec.key if rec.key is not None else case)
            if h not in self.nontrivial:
                self.nontrivial.add(h)
                if len(self.samples) < MAX_SAMPLES:
                    s = canon_json(case)
                    self.samples.append(json.loads(s) if len(s) <= MAX_SAMPLE_CHARS else s[:MAX_SAMPLE_CHARS] + "...")

    def result(self) -> dict:
        return {
            "sub": self.sub.name,
            "evaluations": self.evaluations,
            "nontrivial": self.nontrivial,
            "bulk": (self.bulk_evaluations, self.bulk_nontrivial),
            "labels": dict(self.labels),
            "samples": self.samples,
            "known_hits": dict(self.known_hits),
            "known_examples": self.known_examples,
            "failure": self.failure,
            "harness_error": self.harness_error,
        }


def load_prop(pid: str) -> Prop:
    mod = importlib.import_module(f"vf.props.{pid.lower()}")
    return mod.prop


def _shard_main(args) -> dict:
    pid, sub_name, tier, seed, shard, nshards, n_examples, known = args
    try:
        prop = load_prop(pid)
        sub = prop.subs[sub_name]
        state = ShardState(pid, sub, set(known))
        if sub.setup:
            sub.setup()
        try:
            if sub.mode == "given":
                _run_given(sub, state, seed * 1000 + shard, n_examples, tier)
            else:
                _run_enumerated(sub, state, tier, shard, nshards)
        finally:
            if sub.teardown:
                sub.teardown()
        return state.result()
    except BaseException as e:  # noqa: BLE001
        return {
            "sub": sub_name, "evaluations": 0, "nontrivial": set(), "bulk": (0, 0), "labels": {}, "samples": [],
            "known_hits": {}, "known_examples": {}, "failure": None,
            "harness_error": "shard crashed: " + "".join(traceback.format_exception(e))[-3000:],
        }


def _run_given(sub: SubCheck, state: ShardState, seed: int, n: int, tier: str) -> None:
    import hypothesis
    from hypothesis import HealthCheck, Phase, given, settings

    phases = [Phase.explicit, Phase.generate, Phase.target]
    if sub.shrink:
        phases.append(Phase.shrink)
    from hypothesis.strategies import SearchStrategy

    strategy = sub.strategy if isinstance(sub.strategy, SearchStrategy) else sub.strategy()

    @hypothesis.seed(seed)
    @settings(
        max_examples=max(1, n),
        database=None,
        deadline=None,
        derandomize=False,
        report_multiple_bugs=False,
        suppress_health_check=list(HealthCheck),
        phases=phases,
        print_blob=False,
        verbosity=hypothesis.Verbosity.quiet,
    )
    @given(strategy)
    def test(case):
        state.run_case(case)

    try:
        test()
    except Violation:
        pass  # state.failure holds the (shrunk) last failing case
    except HarnessError:
        pass
    except (hypothesis.errors.HypothesisException, BaseExceptionGroup) as e:  # noqa: F821
        flaky = "Flaky" in type(e).__name__ or "unreliable" in str(e) or "Inconsistent" in str(e)
        if flaky and state.failure is not None and state.harness_error is None:
            # a violation was observed but did not reproduce when Hypothesis re-executed the case: the
            # outcome depends on non-determinism outside the case (e.g. set iteration order inside the
            # code under test). The observed violation stands; the replay may need several attempts.
            state.failure["message"] += "\n[not reproduced on immediate re-execution: outcome depends on non-determinism outside the case]"
        elif state.harness_error is None:
            state.harness_error = f"hypothesis: {type(e).__name__}: {e}"


def _run_enumerated(sub: SubCheck, state: ShardState, tier: str, shard: int, nshards: int) -> None:
    for i, case in enumerate(sub.gen(tier)):
        if i % nshards != shard:
            continue
        try:
            state.run_case(case)
        except (Violation, HarnessError):
            return


# ------------------------------------------------------------------------------------------------
# orchestration


def _budget(sub: SubCheck, tier: str) -> int:
    n = sub.quick if tier == "quick" else sub.thorough
    scale = float(os.environ.get("VERIF_BUDGET", "1"))
    return max(1, int(n * scale))


def run_check(pid: str, tier: str, seed: int, only: str | None = None) -> int:
    t0 = time.time()
    os.environ["VERIF_TIER"] = tier
    prop = load_prop(pid)
    known = load_known(pid)
    known_kinds = {f["kind"] for f in known}
    reproduced: dict[str, bool] = {}

    # replay tier: every listed finding's saved replay is re-executed first
    for f in known:
        rp = f.get("replay")
        if rp and (VERIF / rp).exists():
            out = replay_file(prop, VERIF / rp, quiet=True)
            reproduced[f["kind"]] = out == f["kind"]

    # regression replays committed under replays/<pid>/regress-*.json must pass (fixed findings and
    # shrunk mutant reproductions); they bypass Hypothesis entirely
    for rp in sorted((VERIF / "replays" / pid).glob("regress-*.json")):
        kind = replay_file(prop, rp, quiet=True)
        if kind is not None:  # a fixed finding came back (known kinds suppress nothing here)
            print(f"violation kind={kind} (regression replay)")
            print(f"VIOLATION property={pid} replay={rp}")
            return 1
    tasks = []
    for sub in prop.subs.values():
        if only and sub.name != only:
            continue
        if sub.mode == "given":
            n = _budget(sub, tier)
            nshards = max(1, min(sub.max_shards, NCPU, n // 20 or 1))
            per = -(-n // nshards)
            for sh in range(nshards):
                tasks.append((pid, sub.name, tier, seed, sh, nshards, per, sorted(known_kinds)))
        else:
            nshards = max(1, min(sub.max_shards, NCPU))
            for sh in range(nshards):
                tasks.append((pid, sub.name, tier, seed, sh, nshards, 0, sorted(known_kinds)))

    results: list[dict] = []
    if len(tasks) == 1 or os.environ.get("VERIF_INLINE") == "1":
        results = [_shard_main(t) for t in tasks]
    else:
        ctx = multiprocessing.get_context(os.environ.get("VERIF_MP", "spawn"))
        with ctx.Pool(min(NCPU, len(tasks)), maxtasksperchild=1) as pool:
            results = pool.map(_shard_main, tasks, chunksize=1)

    # merge
    per_sub: dict[str, dict] = {}
    failure = None
    harness_errors = []
    known_hits: Counter = Counter()
    known_examples: dict[str, Any] = {}
    for r in results:
        m = per_sub.setdefault(r["sub"], {"evaluations": 0, "nontrivial": set(), "labels": Counter(), "samples": [],
                                          "bulk_e": 0, "bulk_n": 0, "blocks": 0})
        if r["bulk"][0]:
            m["blocks"] += r["evaluations"]
            m["bulk_e"] += r["bulk"][0]
            m["bulk_n"] += r["bulk"][1]
            m["evaluations"] += r["bulk"][0]
        else:
            m["evaluations"] += r["evaluations"]
        m["nontrivial"] |= r["nontrivial"]
        m["labels"].update(r["labels"])
        if len(m["samples"]) < MAX_SAMPLES:
            m["samples"].extend(r["samples"][: MAX_SAMPLES - len(m["samples"])])
        known_hits.update(r["known_hits"])
        for k, v in r["known_examples"].items():
            known_examples.setdefault(k, v)
        if r["failure"] and failure is None:
            failure = dict(r["failure"], sub=r["sub"])
        if r["harness_error"]:
            harness_errors.append(r["harness_error"])

    evaluations = sum(m["evaluations"] for m in per_sub.values())
    for m in per_sub.values():
        m["distinct"] = len(m["nontrivial"]) + m["bulk_n"]
    distinct = sum(m["distinct"] for m in per_sub.values())
    samples = []
    for name, m in per_sub.items():
        for s in m["samples"][:2]:
            samples.append({"sub_check": name, "case": s})
    wall = time.time() - t0

    coverage = {
        "evaluations": evaluations,
        "distinct_nontrivial": distinct,
        "rule": prop.rule,
        "samples": samples,
        "sub_checks": {
            name: {
                "evaluations": m["evaluations"],
                "distinct_nontrivial": m["distinct"],
                "classes": dict(sorted(m["labels"].items())),
                "mode": prop.subs[name].mode,
                "exhaustive": bool(prop.subs[name].exhaustive and prop.subs[name].mode == "enumerated"),
            }
            for name, m in per_sub.items()
        },
        "known_findings_excluded": dict(known_hits),
        "technique": prop.technique,
    }
    if prop.level == "translation_validation":
        coverage["programs"] = evaluations
        coverage["disagreements_checked"] = sum(known_hits.values()) + (1 if failure else 0)
    evidence = {
        "property_id": pid,
        "tier": tier,
        "seed": seed,
        "level": prop.level,
        "coverage": coverage,
        "assumptions": prop.assumptions,
        "wall_s": round(wall, 2),
        "violations": 1 if failure else 0,
    }
    evdir = Path(os.environ.get("VERIF_EVIDENCE_DIR", VERIF / "evidence"))
    evdir.mkdir(exist_ok=True, parents=True)
    if not only:
        (evdir / f"{pid}.json").write_text(json.dumps(evidence, indent=1, default=repr) + "\n")

    for name, m in per_sub.items():
        print(f"[{pid}/{name}] evaluations={m['evaluations']} distinct_nontrivial={m['distinct']} "
              f"classes={dict(sorted(m['labels'].items()))}")

    if harness_errors:
        print(f"HARNESS-ERROR property={pid}\n" + "\n---\n".join(harness_errors[:3]), file=sys.stderr)
        if failure is None:
            return 2
        # a violation observed by one shard stands even if another shard hit a harness error

    if failure is not None:
        rdir = Path(os.environ.get("VERIF_REPLAY_DIR", VERIF / "replays")) / pid
        rdir.mkdir(parents=True, exist_ok=True)
        payload = {"property": pid, "sub": failure["sub"], "case": failure["case"],
                   "kind": failure["kind"], "message": failure["message"][:4000], "seed": seed, "tier": tier}
        h = "%016x" % case_hash([failure["sub"], failure["case"]])
        path = rdir / f"{h}.json"
        path.write_text(json.dumps(payload, indent=1, default=repr) + "\n")
        print(f"violation kind={failure['kind']} sub={failure['sub']}\n{failure['message'][:1500]}")
        print(f"VIOLATION property={pid} replay={path}")
        return 1

    for f in known:
        k = f["kind"]
        if reproduced.get(k) or known_hits.get(k):
            print(f"KNOWN-FINDING: property={pid} {f['what']} [kind={k}; replay "
                  f"{'reproduced' if reproduced.get(k) else 'n/a'}; generated cases excluded={known_hits.get(k, 0)}]")

    for name, m in per_sub.items():
        if m["distinct"] == 0 and m["evaluations"] > 0 and not only:
            print(f"HARNESS-ERROR property={pid} sub-check {name} produced no non-trivial case", file=sys.stderr)
            return 2
    if distinct < 2:
        print(f"HARNESS-ERROR property={pid}: fewer than 2 distinct non-trivial cases", file=sys.stderr)
        return 2
    print(f"OK property={pid} tier={tier} seed={seed} evaluations={evaluations} distinct_nontrivial={distinct} wall={wall:.1f}s")
    return 0


def replay_file(prop: Prop, path: Path, quiet: bool = False) -> str | None:
    """Run the saved case through the property function directly (no Hypothesis). Returns the
    violation kind, or None if the case passes."""
    data = json.loads(Path(path).read_text())
    sub = prop.subs[data["sub"]]
    if sub.setup:
        sub.setup()
    try:
        call_case(sub, data["case"], Rec(), prop.pid)
    except Violation as v:
        if not quiet:
            print(f"violation kind={v.kind}\n{v.message[:3000]}")
        return v.kind
    finally:
        if sub.teardown:
            sub.teardown()
    return None


def main(argv: list[str]) -> int:
    if len(argv) < 2:
        print("usage: check <ID> <quick|thorough> | check <ID> --replay <file>", file=sys.stderr)
        return 2
    pid = argv[0].upper()
    seed = int(os.environ.get("VERIF_SEED", "1") or "1")

    def on_alarm(signum, frame):
        print(f"HARNESS-ERROR property={pid}: global watchdog expired (inconclusive)", file=sys.stderr)
        os._exit(2)

    signal.signal(signal.SIGALRM, on_alarm)
    try:
        if argv[1] == "--replay":
            prop = load_prop(pid)
            kind = replay_file(prop, Path(argv[2]))
            if kind is None:
                print(f"OK property={pid} replay passes")
                return 0
            if kind in {f["kind"] for f in load_known(pid)}:
                print(f"KNOWN-FINDING: property={pid} kind={kind}")
                return 0
            print(f"VIOLATION property={pid} replay={argv[2]}")
            return 1
        tier = argv[1]
        if tier not in ("quick", "thorough"):
            print("tier must be quick or thorough", file=sys.stderr)
            return 2
        signal.alarm(int(os.environ.get("VERIF_WATCHDOG", "1500" if tier == "quick" else "7200")))
        only = argv[2] if len(argv) > 2 else None
        return run_check(pid, tier, seed, only)
    except HarnessError as h:
        print(f"HARNESS-ERROR property={pid}: {h}", file=sys.stderr)
        return 2
    except Exception:  # noqa: BLE001
        traceback.print_exc()
        print(f"HARNESS-ERROR property={pid}: runner crashed", file=sys.stderr)
        return 2


if __name__ == "__main__":
    sys.exit(main(sys.argv[1:]))
