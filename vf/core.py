"""Core of the verification framework: property registry, case recorder, violation type.

A property module ``vf/props/cNN.py`` creates ``prop = Prop("CNN", ...)`` and registers *sub-checks*:

* ``@prop.given(name, strategy, quick=N, thorough=M)``: a Hypothesis-driven sub-check. The decorated
  function ``fn(case, rec)`` (sync or ``async``) receives a JSON-serialisable *case* drawn from
  ``strategy`` and a :class:`Rec`; it raises :class:`Violation` when the oracle disagrees.
* ``@prop.enumerated(name, gen)``: a bounded-exhaustive sub-check, ``gen(tier)`` yields cases.

Nothing in here imports StreamFlow.
"""
from __future__ import annotations

import hashlib
import inspect
import json
from collections.abc import Callable, Iterable
from typing import Any


class Violation(Exception):
    """The oracle disagreed with the code under test. ``kind`` is a stable root-cause bucket."""

    def __init__(self, kind: str, message: str = ""):
        super().__init__(f"{kind}: {message}")
        self.kind = kind
        self.message = message


class HarnessError(Exception):
    """The harness (generator, model, wiring) is broken: exit code 2, never a VIOLATION."""


class Rec:
    """Per-case recorder: classification labels and the non-triviality verdict."""

    __slots__ = ("labels", "is_nontrivial", "key", "info", "bulk_evaluations", "bulk_nontrivial")

    def __init__(self) -> None:
        self.labels: list[str] = []
        self.is_nontrivial = False
        self.key: Any = None
        self.info: Any = None
        self.bulk_evaluations = 0
        self.bulk_nontrivial = 0

    def bulk(self, evaluations: int, nontrivial: int) -> None:
        """For *enumerated* sub-checks whose case is a block of an enumeration: the block contained
        ``evaluations`` distinct elementary cases, ``nontrivial`` of them non-trivial."""
        self.bulk_evaluations += evaluations
        self.bulk_nontrivial += nontrivial

    def label(self, *labels: str) -> None:
        self.labels.extend(labels)

    def nontrivial(self, flag: bool = True, key: Any = None) -> None:
        """Mark the case non-trivial by the property's stated rule.

        ``key`` (JSON-serialisable) overrides what "distinct" means; default: the whole case."""
        self.is_nontrivial = bool(flag)
        if key is not None:
            self.key = key


def canon_json(obj: Any) -> str:
    return json.dumps(obj, sort_keys=True, default=repr, ensure_ascii=True, separators=(",", ":"))


def case_hash(obj: Any) -> int:
    return int.from_bytes(hashlib.sha1(canon_json(obj).encode()).digest()[:8], "big")


class SubCheck:
    def __init__(
        self,
        name: str,
        fn: Callable,
        *,
        mode: str,
        strategy: Any = None,
        gen: Callable | None = None,
        quick: int = 0,
        thorough: int = 0,
        loop: str | None = None,
        max_shards: int = 16,
        shrink: bool = True,
        exhaustive: bool = False,
        case_timeout: float | None = None,
        setup: Callable | None = None,
        teardown: Callable | None = None,
    ):
        self.name = name
        self.fn = fn
        self.mode = mode  # "given" | "enumerated"
        self.strategy = strategy
        self.gen = gen
        self.quick = quick
        self.thorough = thorough
        self.is_async = inspect.iscoroutinefunction(fn)
        # loop: "det" = deterministic loop with deadlock detection (vf.engine.detloop),
        #       "std" = plain asyncio loop (real subprocesses / threads allowed)
        self.loop = loop or ("det" if self.is_async else None)
        self.max_shards = max_shards
        self.shrink = shrink
        self.exhaustive = exhaustive
        self.case_timeout = case_timeout
        self.setup = setup
        self.teardown = teardown


class Prop:
    def __init__(
        self,
        pid: str,
        *,
        level: str,
        rule: str,
        technique: str,
        level_text: str,
        level_note: str,
        assumptions: Iterable[str] = (),
        design_ref: str = "",
    ):
        self.pid = pid
        self.level = level
        self.rule = rule
        self.technique = technique
        self.level_text = level_text
        self.level_note = level_note
        self.assumptions = list(assumptions)
        self.design_ref = design_ref or f"DESIGN.md section 3, {pid}"
        self.subs: dict[str, SubCheck] = {}

    def given(self, name: str, strategy: Any, *, quick: int, thorough: int, **kw):
        def deco(fn):
            self.subs[name] = SubCheck(
                name, fn, mode="given", strategy=strategy, quick=quick, thorough=thorough, **kw
            )
            return fn

        return deco

    def enumerated(self, name: str, gen: Callable, *, exhaustive: bool = True, **kw):
        """``gen(tier)`` yields JSON-serialisable cases (small first, so the first failure is small)."""

        def deco(fn):
            self.subs[name] = SubCheck(
                name, fn, mode="enumerated", gen=gen, exhaustive=exhaustive, **kw
            )
            return fn

        return deco
