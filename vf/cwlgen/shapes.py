"""Document shapes behind recorded findings: detectors (to give a disagreement a precise, stable kind)
and small generated case lists that keep exercising each shape (``known_shape_cases``).

The main generator (``gen.workflow_cases``) avoids these shapes by construction so the search goes on
behind them; this module keeps producing them in the dedicated ``known-shapes`` sub-check.
"""
from __future__ import annotations

import copy

from vf.cwlgen import tools as T
from vf.cwlgen.gen import CWLTOOL_NS, TOP_REQS


def _aslist(x):
    return [] if x is None else (x if isinstance(x, list) else [x])


def _workflows(doc, path=""):
    """yield (path, workflow dict) for the document and every nested sub-workflow"""
    if doc.get("class") == "Workflow":
        yield path, doc
        for sid, st in doc.get("steps", {}).items():
            if isinstance(st.get("run"), dict):
                yield from _workflows(st["run"], f"{path}/{sid}")


def _entry(ent):
    return {"source": ent} if isinstance(ent, str) else ent


# ------------------------------------------------------------------------------------------------
# detectors


def unused_steps(doc) -> list[str]:
    """steps that are not upstream of any output of their workflow (DESIGN F1)"""
    found = []
    for path, wf in _workflows(doc):
        needed = set()
        frontier = []
        for out in wf.get("outputs", {}).values():
            frontier += [s.split("/")[0] for s in _aslist(_entry(out).get("outputSource")) if "/" in s]
        while frontier:
            sid = frontier.pop()
            if sid in needed:
                continue
            needed.add(sid)
            st = wf["steps"][sid]
            for ent in st.get("in", {}).values():
                frontier += [s.split("/")[0] for s in _aslist(_entry(ent).get("source")) if "/" in s]
            loop = st.get("requirements", {}).get("cwltool:Loop")
        found += [f"{path}/{sid}" for sid in wf.get("steps", {}) if sid not in needed]
    return found


def _conditional_downstream(wf) -> set[str]:
    """ids of steps of `wf` that are conditional or downstream of a conditional step"""
    tainted: set[str] = set()
    changed = True
    while changed:
        changed = False
        for sid, st in wf.get("steps", {}).items():
            if sid in tainted:
                continue
            t = "when" in st
            if not t and isinstance(st.get("run"), dict) and st["run"].get("class") == "Workflow":
                t = any("when" in s2 for _, w2 in _workflows(st["run"]) for s2 in w2.get("steps", {}).values())
            for ent in st.get("in", {}).values():
                for s in _aslist(_entry(ent).get("source")):
                    if "/" in s and s.split("/")[0] in tainted:
                        t = True
            if t:
                tainted.add(sid)
                changed = True
    return tainted


def loops_fed_by_conditional(doc) -> list[str]:
    found = []
    for path, wf in _workflows(doc):
        tainted = _conditional_downstream(wf)
        for sid, st in wf.get("steps", {}).items():
            has_loop = "cwltool:Loop" in st.get("requirements", {}) or (
                isinstance(st.get("run"), dict) and any(
                    "cwltool:Loop" in s2.get("requirements", {})
                    for _, w2 in _workflows(st["run"]) for s2 in w2.get("steps", {}).values()))
            if not has_loop:
                continue
            for ent in st.get("in", {}).values():
                if any("/" in s and s.split("/")[0] in tainted for s in _aslist(_entry(ent).get("source"))):
                    found.append(f"{path}/{sid}")
                    break
    return found


def duplicate_sources(doc) -> list[str]:
    found = []
    for path, wf in _workflows(doc):
        for sid, st in wf.get("steps", {}).items():
            for name, ent in st.get("in", {}).items():
                srcs = _entry(ent).get("source")
                if isinstance(srcs, list) and len(set(srcs)) != len(srcs):
                    found.append(f"{path}/{sid}/{name}")
        for name, out in wf.get("outputs", {}).items():
            srcs = _entry(out).get("outputSource")
            if isinstance(srcs, list) and len(set(srcs)) != len(srcs):
                found.append(f"{path}#{name}")
    return found


def single_source_linkmerge_outputs(doc) -> list[str]:
    return [f"{path}#{name}" for path, wf in _workflows(doc) for name, out in wf.get("outputs", {}).items()
            if isinstance(out, dict) and isinstance(out.get("outputSource"), list)
            and len(out["outputSource"]) == 1 and "linkMerge" in out]


def pickvalue_single_source_step_inputs(doc) -> list[str]:
    found = []
    for path, wf in _workflows(doc):
        for sid, st in wf.get("steps", {}).items():
            for name, ent in st.get("in", {}).items():
                ent = _entry(ent)
                if "pickValue" in ent and len(_aslist(ent.get("source"))) == 1:
                    found.append(f"{path}/{sid}/{name}")
    return found


def nested_array_defaults(doc) -> list[str]:
    """`default` values (workflow inputs, step inputs) that are arrays of arrays"""
    found = []

    def nested(d):
        return isinstance(d, list) and any(isinstance(x, list) for x in d)

    for path, wf in _workflows(doc):
        for name, inp in wf.get("inputs", {}).items():
            if isinstance(inp, dict) and nested(inp.get("default")):
                found.append(f"{path}#{name}")
        for sid, st in wf.get("steps", {}).items():
            for name, ent in st.get("in", {}).items():
                if nested(_entry(ent).get("default")):
                    found.append(f"{path}/{sid}/{name}")
    return found


def single_source_linkmerge_inputs(doc) -> list[str]:
    found = []
    for path, wf in _workflows(doc):
        for sid, st in wf.get("steps", {}).items():
            for name, ent in st.get("in", {}).items():
                ent = _entry(ent)
                if isinstance(ent.get("source"), list) and len(ent["source"]) == 1 and "linkMerge" in ent \
                        and "pickValue" not in ent:
                    found.append(f"{path}/{sid}/{name}")
    return found


def outputs_sharing_a_source(doc) -> list[str]:
    """a step output referenced by two workflow outputs, at least one of them as a plain outputSource"""
    found = []
    for path, wf in _workflows(doc):
        refs: dict[str, list] = {}
        for name, out in wf.get("outputs", {}).items():
            out = out if isinstance(out, dict) else {"outputSource": out}
            src = out.get("outputSource")
            plain = isinstance(src, str) or (isinstance(src, list) and len(src) == 1 and "linkMerge" not in out)
            plain = plain and "pickValue" not in out
            for x in _aslist(src):
                if "/" in x:
                    refs.setdefault(x, []).append((name, plain))
        for x, uses in refs.items():
            if len(uses) > 1 and any(p for _, p in uses):
                found.append(f"{path}#{'+'.join(n for n, _ in uses)}")
    return found


def constant_steps_in_subworkflows(doc) -> list[str]:
    """steps of a nested workflow none of whose inputs has a source (constants only)"""
    found = []
    for path, wf in _workflows(doc):
        if path == "":
            continue
        for sid, st in wf.get("steps", {}).items():
            if not any(_aslist(_entry(ent).get("source")) for ent in st.get("in", {}).values()):
                found.append(f"{path}/{sid}")
    return found


def nested_crossproduct_steps(doc) -> list[str]:
    return [f"{path}/{sid}" for path, wf in _workflows(doc) for sid, st in wf.get("steps", {}).items()
            if st.get("scatterMethod") == "nested_crossproduct"]


def nested_crossproduct_over_inner_scatter(doc) -> list[str]:
    found = []
    for path, wf in _workflows(doc):
        for sid, st in wf.get("steps", {}).items():
            run = st.get("run")
            if st.get("scatterMethod") == "nested_crossproduct" and isinstance(run, dict) and run.get("class") == "Workflow":
                if any("scatter" in s2 for _, w2 in _workflows(run) for s2 in w2.get("steps", {}).values()):
                    found.append(f"{path}/{sid}")
    return found


def valuefrom_with_constant_input_in_repeated_subworkflow(doc) -> list[str]:
    """a step inside a scattered / looped sub-workflow that has both a valueFrom input and a constant-only
    (`default` without source) input"""
    found = []

    def walk(wf, path, repeated):
        for sid, st in wf.get("steps", {}).items():
            ents = [_entry(e) for e in st.get("in", {}).values()]
            if repeated and any("valueFrom" in e for e in ents) and any(not _aslist(e.get("source")) for e in ents):
                found.append(f"{path}/{sid}")
            run = st.get("run")
            if isinstance(run, dict) and run.get("class") == "Workflow":
                walk(run, f"{path}/{sid}", repeated or "scatter" in st or "cwltool:Loop" in st.get("requirements", {}))

    if doc.get("class") == "Workflow":
        walk(doc, "", False)
    return found


def loop_input_valuefrom_in_repeated_subworkflow(doc) -> list[str]:
    """a loop step with valueFrom on one of its `in` entries or on a fed-back loop variable, inside a sub-workflow
    that is scattered or looped"""
    found = []

    def walk(wf, path, repeated):
        for sid, st in wf.get("steps", {}).items():
            loop = "cwltool:Loop" in st.get("requirements", {})
            if loop and repeated and (
                    any("valueFrom" in _entry(e) for e in st.get("in", {}).values())
                    or any(isinstance(v, dict) and "valueFrom" in v and "loopSource" in v
                           for v in st["requirements"]["cwltool:Loop"].get("loop", {}).values())):
                found.append(f"{path}/{sid}")
            run = st.get("run")
            if isinstance(run, dict) and run.get("class") == "Workflow":
                walk(run, f"{path}/{sid}", repeated or loop or "scatter" in st)

    if doc.get("class") == "Workflow":
        walk(doc, "", False)
    return found


def merge_flattened_of_crossproduct(doc) -> list[str]:
    """a merge_flattened sink one of whose sources is (or comes from a sub-workflow containing) a cross-product scatter"""
    found = []
    for path, wf in _workflows(doc):
        xp = set()
        for sid, st in wf.get("steps", {}).items():
            run = st.get("run")
            inner = isinstance(run, dict) and run.get("class") == "Workflow" and any(
                s2.get("scatterMethod") in ("flat_crossproduct", "nested_crossproduct")
                for _, w2 in _workflows(run) for s2 in w2.get("steps", {}).values())
            if st.get("scatterMethod") in ("flat_crossproduct", "nested_crossproduct") or inner:
                xp.add(sid)
        sinks = [(f"{path}/{sid}/{n}", _entry(e), "source") for sid, st in wf.get("steps", {}).items()
                 for n, e in st.get("in", {}).items()]
        sinks += [(f"{path}#{n}", o if isinstance(o, dict) else {}, "outputSource") for n, o in wf.get("outputs", {}).items()]
        for where, ent, key in sinks:
            if ent.get("linkMerge") == "merge_flattened" and any(
                    "/" in x and x.split("/")[0] in xp for x in _aslist(ent.get(key))):
                found.append(where)
    return found


def conditional_scatter_steps(doc) -> list[str]:
    return [f"{path}/{sid}" for path, wf in _workflows(doc) for sid, st in wf.get("steps", {}).items()
            if "scatter" in st and "when" in st]


def kind_for(pid: str, case: dict, symptom: str, detail: str) -> str:
    """Stable root-cause bucket: a recorded shape + its symptom, else the bare symptom."""
    doc = case["doc"]
    if doc.get("class") == "Workflow":
        if symptom == "sf-hangs" and loop_input_valuefrom_in_repeated_subworkflow(doc):
            return f"{pid}:loop-valueFrom-in-repeated-subworkflow-hangs"
        if symptom == "sf-hangs" and loops_fed_by_conditional(doc):
            return f"{pid}:loop-after-all-false-conditional-hangs"
        if symptom in ("sf-fails-only", "sf-hangs") and unused_steps(doc):
            return f"{pid}:unused-step-cancelled"
        if symptom == "output-mismatch" and merge_flattened_of_crossproduct(doc):
            return f"{pid}:merge-flattened-of-crossproduct-array-reordered"
        if symptom in ("output-mismatch", "sf-fails-only") and duplicate_sources(doc):
            return f"{pid}:duplicate-source-collapsed"
        if symptom == "output-mismatch" and outputs_sharing_a_source(doc):
            return f"{pid}:outputs-sharing-a-source"
        if symptom == "sf-fails-only" and single_source_linkmerge_outputs(doc) and "WorkflowDefinitionException" in detail:
            return f"{pid}:single-source-linkMerge-output-rejected"
        if symptom in ("sf-fails-only", "output-mismatch") and single_source_linkmerge_inputs(doc):
            return f"{pid}:single-source-linkMerge-input-not-wrapped"
        if symptom in ("sf-fails-only", "output-mismatch") and pickvalue_single_source_step_inputs(doc):
            return f"{pid}:pickValue-single-source-step-input-ignored"
        if symptom in ("sf-fails-only", "output-mismatch") and nested_array_defaults(doc):
            return f"{pid}:nested-array-default"
        if symptom in ("sf-hangs", "output-mismatch", "sf-fails-only") and valuefrom_with_constant_input_in_repeated_subworkflow(doc):
            return f"{pid}:valueFrom-with-constant-input-in-repeated-subworkflow"
        if symptom in ("sf-hangs", "output-mismatch") and constant_steps_in_subworkflows(doc):
            return f"{pid}:constant-step-in-subworkflow-runs-once"
        if symptom == "sf-fails-only" and "`recoverable` property can't be changed" in detail and conditional_scatter_steps(doc):
            return f"{pid}:default-on-array-with-skipped-nulls"
        if symptom in ("sf-fails-only", "output-mismatch") and nested_crossproduct_over_inner_scatter(doc):
            return f"{pid}:nested-crossproduct-over-inner-scatter"
        if symptom == "output-mismatch" and nested_crossproduct_steps(doc) and "[]" in detail:
            return f"{pid}:nested-crossproduct-empty-array"
    if symptom == "sf-fails-only":
        import re

        m = re.search(r"first error type: (\w+)", detail)
        if m:
            return f"{pid}:sf-fails-only:{m.group(1)}"
    return f"{pid}:{symptom}"


# ------------------------------------------------------------------------------------------------
# cases


def _top(wf: dict) -> dict:
    return {"cwlVersion": "v1.2", "$namespaces": CWLTOOL_NS, "requirements": dict(TOP_REQS), **wf}


def _ets():
    return {p["tag"]: p for p in T.expression_tools()}


def _arr(t):
    return {"type": "array", "items": t}


def known_shape_cases(seed: int = 1) -> list[dict]:
    """Deterministic list of small cases, one family per recorded finding; `seed` varies the values."""
    ets = _ets()
    clts = {p["tag"]: p for p in T.command_line_tools()}
    a = 3 + seed % 40
    cases = []

    def add(shape, doc, job, files=None):
        cases.append({"shape": shape, "doc": _top(doc), "job": job, "files": files or {}})

    inc = ets["affine"]["doc"]
    rev = ets["rev_int"]["doc"]
    # the unused step must still be running when the outputs are complete, also on a loaded machine: 8 s
    sleeper = T.sleeper_tool(8)["doc"]

    # --- F1: unused slow step (top level / scattered / inside a sub-workflow / next to a CommandLineTool)
    base = {"class": "Workflow", "inputs": {"a": {"type": "int"}, "xs": {"type": _arr("int")}},
            "outputs": {"o": {"type": "int", "outputSource": "used/o"}},
            "steps": {"used": {"run": inc, "in": {"a": {"source": "a"}}, "out": ["o"]},
                      "unused": {"run": sleeper, "in": {"a": {"source": "a"}}, "out": ["o"]}}}
    add("unused-step", base, {"a": a, "xs": [1, 2]})
    v = copy.deepcopy(base)
    v["steps"]["unused"] = {"run": sleeper, "in": {"a": {"source": "xs"}}, "out": ["o"], "scatter": "a"}
    add("unused-step", v, {"a": a, "xs": [1, 2]})
    v = copy.deepcopy(base)
    v["steps"]["used"] = {"run": clts["arith"]["doc"], "in": {"a": {"source": "a"}, "b": {"default": 1}}, "out": ["o"]}
    add("unused-step", v, {"a": a, "xs": []})
    sub = copy.deepcopy(base)
    add("unused-step", {"class": "Workflow", "inputs": base["inputs"],
                        "outputs": {"o": {"type": "int", "outputSource": "w/o"}},
                        "steps": {"w": {"run": sub, "in": {"a": {"source": "a"}, "xs": {"source": "xs"}}, "out": ["o"]}}},
        {"a": a, "xs": [4]})

    # --- F13: loop fed by the output of a conditional step (all-false => hang; true => fine)
    loop_tool = {"class": "ExpressionTool", "inputs": {"i": {"type": "int"}, "extra": {"type": ["null", "int"]}},
                 "outputs": {"o": {"type": "int"}}, "expression": '${ return {"o": inputs.i + 1}; }'}
    f13 = {"class": "Workflow", "inputs": {"flag": {"type": "boolean"}, "start": {"type": "int"}},
           "outputs": {"o": {"type": ["null", "int"], "outputSource": "b/o"}},
           "steps": {
               "a": {"run": inc, "in": {"a": {"source": "start"}, "flag": {"source": "flag"}}, "out": ["o"],
                     "when": "$(inputs.flag)"},
               "b": {"run": loop_tool, "in": {"i": {"source": "start"}, "extra": {"source": "a/o"}}, "out": ["o"],
                     "requirements": {"cwltool:Loop": {"loopWhen": "$(inputs.i < 3)", "loop": {"i": "o"},
                                                       "outputMethod": "last"}}}}}
    add("loop-after-conditional", f13, {"flag": False, "start": seed % 3})
    add("loop-after-conditional", f13, {"flag": True, "start": seed % 3})
    v = copy.deepcopy(f13)
    v["steps"]["b"]["in"]["extra"] = {"source": "a/o", "default": 5}
    v["steps"]["b"]["requirements"]["cwltool:Loop"]["outputMethod"] = "all"
    v["outputs"]["o"]["type"] = _arr("int")
    add("loop-after-conditional", v, {"flag": False, "start": 1})

    # --- the same source listed more than once in one sink
    dup = {"class": "Workflow", "inputs": {"a": {"type": "int"}, "b": {"type": "int"}},
           "outputs": {"o": {"type": _arr("int"), "outputSource": "s/o"}},
           "steps": {"s": {"run": rev, "in": {"xs": {"source": ["a", "a", "a"], "linkMerge": "merge_nested"}}, "out": ["o"]}}}
    add("duplicate-source", dup, {"a": a, "b": a + 1})
    v = copy.deepcopy(dup)
    v["steps"]["s"]["in"]["xs"]["source"] = ["a", "b", "a"]
    add("duplicate-source", v, {"a": a, "b": a + 1})
    v = copy.deepcopy(dup)
    v["steps"]["s"]["in"]["xs"] = {"source": "a", "valueFrom": "$([self])"}
    v["outputs"]["o"] = {"type": _arr(_arr("int")), "outputSource": ["s/o", "s/o"], "linkMerge": "merge_nested"}
    add("duplicate-source", v, {"a": a, "b": 0})

    # --- a one-element outputSource list with linkMerge
    one = {"class": "Workflow", "inputs": {"a": {"type": "int"}},
           "outputs": {"o": {"type": _arr("int"), "outputSource": ["s/o"], "linkMerge": "merge_nested"}},
           "steps": {"s": {"run": inc, "in": {"a": {"source": "a"}}, "out": ["o"]}}}
    add("single-source-linkMerge-output", one, {"a": a})
    v = copy.deepcopy(one)
    v["steps"]["s"] = {"run": rev, "in": {"xs": {"source": ["a"], "linkMerge": "merge_nested"}}, "out": ["o"]}
    v["outputs"]["o"]["linkMerge"] = "merge_flattened"
    add("single-source-linkMerge-output", v, {"a": a})

    # --- pickValue on a step input with a single (array) source
    pv = {"class": "Workflow", "inputs": {"xs": {"type": _arr(["null", "int"])}},
          "outputs": {"o": {"type": _arr("int"), "outputSource": "s/o"}},
          "steps": {"s": {"run": rev, "in": {"xs": {"source": "xs", "pickValue": "all_non_null"}}, "out": ["o"]}}}
    add("pickValue-single-source-step-input", pv, {"xs": [a, None, 3]})
    v = copy.deepcopy(pv)
    v["steps"]["s"] = {"run": inc, "in": {"a": {"source": "xs", "pickValue": "all_non_null"}}, "out": ["o"], "scatter": "a"}
    add("pickValue-single-source-step-input", v, {"xs": [None, a, None, 1]})
    v = copy.deepcopy(pv)
    v["steps"]["s"] = {"run": inc, "in": {"a": {"source": "xs", "pickValue": "first_non_null"}}, "out": ["o"]}
    v["outputs"]["o"]["type"] = "int"
    add("pickValue-single-source-step-input", v, {"xs": [None, a]})

    # --- a `default` that is an array of arrays (workflow input / step input, with and without scatter)
    shape_t = ets["shape"]["doc"]
    nd = {"class": "Workflow", "inputs": {"a": {"type": "int"}, "xss": {"type": _arr(_arr("int")), "default": [[1, 2], [a]]}},
          "outputs": {"o": {"type": _arr("int"), "outputSource": "s/o"}},
          "steps": {"s": {"run": shape_t, "in": {"xss": {"source": "xss"}}, "out": ["o"]}}}
    add("nested-array-default", nd, {"a": a})
    sd = {"class": "Workflow", "inputs": {"a": {"type": "int"}},
          "outputs": {"o": {"type": _arr(_arr("int")), "outputSource": "s/o"}},
          "steps": {"s": {"run": rev, "in": {"xs": {"default": [[1, 2], [a]]}}, "out": ["o"], "scatter": "xs"}}}
    add("nested-array-default", sd, {"a": a})
    v = {"class": "Workflow", "inputs": {"a": {"type": "int"}},
         "outputs": {"o": {"type": _arr("int"), "outputSource": "s/o"}},
         "steps": {"s": {"run": inc, "in": {"a": {"source": "a"}, "b": {"default": [[1, 2], [3]]}}, "out": ["o"],
                         "scatter": "b"}}}
    add("nested-array-default", v, {"a": a})

    # --- a one-element source list with linkMerge on a step input whose source is an array
    sl = {"class": "Workflow", "inputs": {"xs": {"type": _arr("int")}},
          "outputs": {"o": {"type": _arr("int"), "outputSource": "s/o"}},
          "steps": {"s": {"run": shape_t, "in": {"xss": {"source": ["xs"], "linkMerge": "merge_nested"}}, "out": ["o"]}}}
    add("single-source-linkMerge-input", sl, {"xs": [a, 2]})
    v = {"class": "Workflow", "inputs": {"xs": {"type": _arr("int")}},
         "outputs": {"o": {"type": _arr(_arr("int")), "outputSource": "s/o"}},
         "steps": {"s": {"run": rev, "in": {"xs": {"source": ["xs"], "linkMerge": "merge_nested"}}, "out": ["o"],
                         "scatter": "xs"}}}
    add("single-source-linkMerge-input", v, {"xs": [a, 2, 3]})

    # --- a step with constant inputs only, inside a scattered (runs once instead of per item) / looped (hangs) sub-workflow
    const_sub = {"class": "Workflow", "inputs": {"a": {"type": "int"}},
                 "outputs": {"o": {"type": "int", "outputSource": "s/o"}},
                 "steps": {"s": {"run": inc, "in": {"a": {"default": 5}}, "out": ["o"]}}}
    cs = {"class": "Workflow", "inputs": {"xs": {"type": _arr("int")}},
          "outputs": {"o": {"type": _arr("int"), "outputSource": "w/o"}},
          "steps": {"w": {"run": const_sub, "in": {"a": {"source": "xs"}}, "out": ["o"], "scatter": "a"}}}
    add("constant-step-in-subworkflow", cs, {"xs": [1, 2, a]})
    cl = {"class": "Workflow", "inputs": {"a": {"type": "int"}},
          "outputs": {"o": {"type": ["null", "int"], "outputSource": "w/o"}},
          "steps": {"w": {"run": const_sub, "in": {"a": {"source": "a"}, "cnt": {"default": 0}}, "out": ["o"],
                          "requirements": {"cwltool:Loop": {"loopWhen": "$(inputs.cnt < 2)",
                                                            "loop": {"cnt": {"valueFrom": "$(inputs.cnt + 1)"}},
                                                            "outputMethod": "last"}}}}}
    add("constant-step-in-subworkflow", cl, {"a": a})

    # --- valueFrom + a constant-only input on one step of a scattered sub-workflow: the step is skipped
    vc_inner = {"class": "Workflow", "inputs": {"k": {"type": "int"}, "x": {"type": "string"}},
                "outputs": {"o": {"type": "int", "outputSource": "s/o"}},
                "steps": {"s": {"run": ets["add"]["doc"],
                                "in": {"a": {"source": "x", "valueFrom": "$(self.length)"}, "b": {"default": 29}},
                                "out": ["o"]}}}
    vc = {"class": "Workflow", "inputs": {"ks": {"type": _arr("int")}, "x": {"type": "string"}},
          "outputs": {"o": {"type": _arr("int"), "outputSource": "w/o"}},
          "steps": {"w": {"run": vc_inner, "in": {"k": {"source": "ks"}, "x": {"source": "x"}}, "out": ["o"], "scatter": "k"}}}
    add("valueFrom-with-constant-input-in-repeated-subworkflow", vc, {"ks": [1, 2, a], "x": "abc"})

    # --- merge_flattened of the output array of a flat_crossproduct scatter
    mf = {"class": "Workflow", "inputs": {"xs": {"type": _arr("int")}, "ys": {"type": _arr("int")}},
          "outputs": {"o": {"type": _arr("int"), "outputSource": "t/o"}},
          "steps": {"s": {"run": ets["add"]["doc"], "in": {"a": {"source": "xs"}, "b": {"source": "ys"}}, "out": ["o"],
                          "scatter": ["a", "b"], "scatterMethod": "flat_crossproduct"},
                    "t": {"run": rev, "in": {"xs": {"source": ["s/o", "ys"], "linkMerge": "merge_flattened"}}, "out": ["o"]}}}
    add("merge-flattened-of-crossproduct-array", mf, {"xs": [1, 2], "ys": [10, 20, a]})
    v = copy.deepcopy(mf)
    v["outputs"]["o"] = {"type": _arr("int"), "outputSource": ["s/o", "s2/o"], "linkMerge": "merge_flattened"}
    v["steps"]["s2"] = {"run": inc, "in": {"a": {"source": "xs"}}, "out": ["o"], "scatter": "a"}
    del v["steps"]["t"]
    add("merge-flattened-of-crossproduct-array", v, {"xs": [1, 2, 3], "ys": [10, a]})

    # --- nested_crossproduct with an empty scatter array
    nc = {"class": "Workflow", "inputs": {"xs": {"type": _arr("int")}, "ys": {"type": _arr("int")}},
          "outputs": {"o": {"type": _arr(_arr("int")), "outputSource": "s/o"}},
          "steps": {"s": {"run": ets["add"]["doc"], "in": {"a": {"source": "xs"}, "b": {"source": "ys"}}, "out": ["o"],
                          "scatter": ["a", "b"], "scatterMethod": "nested_crossproduct"}}}
    add("nested-crossproduct-empty-array", nc, {"xs": [1, 2, a], "ys": []})
    add("nested-crossproduct-empty-array", nc, {"xs": [], "ys": [1, a]})
    add("nested-crossproduct-empty-array", nc, {"xs": [], "ys": []})

    # --- nested_crossproduct over a sub-workflow that contains a scatter
    inner = {"class": "Workflow", "inputs": {"k": {"type": "int"}, "j": {"type": "int"}, "xs": {"type": _arr("int")}},
             "outputs": {"o": {"type": _arr("int"), "outputSource": "s/o"}, "p": {"type": "int", "outputSource": "t/o"}},
             "steps": {"s": {"run": inc, "in": {"a": {"source": "xs"}}, "out": ["o"], "scatter": "a"},
                       "t": {"run": inc, "in": {"a": {"source": "k"}}, "out": ["o"]}}}
    ncs = {"class": "Workflow", "inputs": {"ks": {"type": _arr("int")}, "js": {"type": _arr("int")}, "xs": {"type": _arr("int")}},
           "outputs": {"o": {"type": _arr(_arr(_arr("int"))), "outputSource": "w/o"},
                       "p": {"type": _arr(_arr("int")), "outputSource": "w/p"}},
           "steps": {"w": {"run": inner, "in": {"k": {"source": "ks"}, "j": {"source": "js"}, "xs": {"source": "xs"}},
                           "out": ["o", "p"], "scatter": ["k", "j"], "scatterMethod": "nested_crossproduct"}}}
    add("nested-crossproduct-over-inner-scatter", ncs, {"ks": [1, 2], "js": [3], "xs": [a]})
    add("nested-crossproduct-over-inner-scatter", ncs, {"ks": [1, 2], "js": [3, 4], "xs": []})

    # --- a loop step with valueFrom on an `in` entry inside a scattered sub-workflow (hang: thorough tier only)
    lv_inner = {"class": "Workflow", "inputs": {"i0": {"type": "string"}},
                "outputs": {"o0": {"type": _arr("int"), "outputSource": "s0/o"}},
                "steps": {"s0": {"run": ets["add"]["doc"],
                                 "in": {"a": {"source": "i0", "valueFrom": "$(self.length)"}, "b": {"default": 9},
                                        "cnt": {"default": 0}},
                                 "out": ["o"],
                                 "requirements": {"cwltool:Loop": {"loopWhen": "$(inputs.cnt < 2)",
                                                                   "loop": {"cnt": {"valueFrom": "$(inputs.cnt + 1)"}, "a": "o"},
                                                                   "outputMethod": "all"}}}}}
    lv = {"class": "Workflow", "inputs": {"ss": {"type": _arr("string")}},
          "outputs": {"o": {"type": _arr(_arr("int")), "outputSource": "w/o0"}},
          "steps": {"w": {"run": lv_inner, "in": {"i0": {"source": "ss"}}, "out": ["o0"], "scatter": "i0"}}}
    add("loop-valueFrom-in-repeated-subworkflow", lv, {"ss": ["x y"]})
    two = ets["two"]["doc"]
    lv2_inner = {"class": "Workflow", "inputs": {"i0": {"type": _arr("int")}},
                 "outputs": {"o0": {"type": _arr("int"), "outputSource": "s0/o1"}},
                 "steps": {"s0": {"run": two, "in": {"a": {"default": 18}, "cnt": {"default": 1}, "dep": {"source": "i0"}},
                                  "out": ["o1"],
                                  "requirements": {"cwltool:Loop": {
                                      "loopWhen": "$(inputs.cnt < 4)",
                                      "loop": {"cnt": {"valueFrom": "$(inputs.cnt + 1)"},
                                               "a": {"loopSource": "o1", "valueFrom": "${ return self - 3; }"}},
                                      "outputMethod": "all"}}}}}
    lv2 = {"class": "Workflow", "inputs": {"n": {"type": "int"}},
           "outputs": {"o0": {"type": _arr(_arr("int")), "outputSource": "w/o0"}},
           "steps": {"w": {"run": lv2_inner, "in": {"i0": {"default": []}, "cnt": {"default": 0}}, "out": ["o0"],
                           "requirements": {"cwltool:Loop": {"loopWhen": "$(inputs.cnt < 3)",
                                                             "loop": {"cnt": {"valueFrom": "$(inputs.cnt + 1)"}},
                                                             "outputMethod": "all"}}}}}
    add("loop-valueFrom-in-repeated-subworkflow", lv2, {"n": a})

    # --- the array of a scatter+when step (nulls for skipped jobs) connected to an input that has a `default`
    cntnn = ets["countnn"]["doc"]
    dn = {"class": "Workflow", "inputs": {"xs": {"type": _arr("int")}},
          "outputs": {"o": {"type": "int", "outputSource": "t/o"}},
          "steps": {"s": {"run": inc, "in": {"a": {"source": "xs"}}, "out": ["o"], "scatter": "a", "when": "$(inputs.a > 1)"},
                    "t": {"run": cntnn, "in": {"xs": {"source": "s/o", "default": [1]}}, "out": ["o"]}}}
    add("default-on-array-with-skipped-nulls", dn, {"xs": [1, 2, a]})
    inner_opt = {"class": "Workflow", "inputs": {"xs": {"type": ["null", _arr(["null", "int"])]}},
                 "outputs": {"o": {"type": "int", "outputSource": "t/o"}},
                 "steps": {"t": {"run": ets["isnull"]["doc"], "in": {"x": {"default": 1}, "dep": {"source": "xs"}}, "out": ["o"]}}}
    inner_opt["outputs"]["o"]["type"] = "boolean"
    dn2 = {"class": "Workflow", "inputs": {"xs": {"type": _arr("int")}},
           "outputs": {"o": {"type": "boolean", "outputSource": "w/o"}},
           "steps": {"s": {"run": inc, "in": {"a": {"source": "xs"}}, "out": ["o"], "scatter": "a", "when": "$(inputs.a > 1)"},
                     "w": {"run": inner_opt, "in": {"xs": {"source": "s/o"}}, "out": ["o"]}}}
    add("default-on-array-with-skipped-nulls", dn2, {"xs": [1, 2, a]})

    # --- two workflow outputs with the same outputSource
    so = {"class": "Workflow", "inputs": {"a": {"type": "int"}},
          "outputs": {"o0": {"type": "int", "outputSource": "s/o"}, "o1": {"type": "int", "outputSource": "s/o"}},
          "steps": {"s": {"run": inc, "in": {"a": {"source": "a"}}, "out": ["o"]}}}
    add("outputs-sharing-a-source", so, {"a": a})
    v = copy.deepcopy(so)
    v["outputs"]["o0"]["type"] = ["null", "int"]
    v["outputs"]["o2"] = {"type": "int", "outputSource": "s/o"}
    add("outputs-sharing-a-source", v, {"a": a})
    v = copy.deepcopy(so)
    v["steps"]["t"] = {"run": ets["maybe"]["doc"], "in": {"a": {"source": "a"}}, "out": ["o"]}
    v["outputs"] = {"o0": {"type": _arr("int"), "outputSource": ["s/o", "t/o"], "pickValue": "all_non_null"},
                    "o1": {"type": "int", "outputSource": "s/o"}}
    add("outputs-sharing-a-source", v, {"a": a})
    return cases
