"""Materialise a generated description into a directory."""
from __future__ import annotations

import json
import os


def materialise(case: dict, root: str, sf_database: str = ":memory:") -> dict:
    """Writes ``wf.cwl`` (JSON is YAML), ``job.json``, the input files and a StreamFlow file.

    Returns the paths. Input files are referenced from the job relative to the job file. Binary-ish
    content is not needed: contents are text, written as UTF-8 without newline translation."""
    os.makedirs(root, exist_ok=True)
    for name, content in case.get("files", {}).items():
        path = os.path.join(root, name)
        os.makedirs(os.path.dirname(path), exist_ok=True)
        with open(path, "w", encoding="utf-8", newline="") as f:
            f.write(content)
    for name, mode in case.get("executables", {}).items():
        os.chmod(os.path.join(root, name), mode)
    cwl = os.path.join(root, "wf.cwl")
    with open(cwl, "w", encoding="utf-8") as f:
        json.dump(case["doc"], f, indent=1, ensure_ascii=False)
    job = os.path.join(root, "job.json")
    with open(job, "w", encoding="utf-8") as f:
        json.dump(case.get("job", {}), f, indent=1, ensure_ascii=False)
    sf = os.path.join(root, "streamflow.yml")
    with open(sf, "w", encoding="utf-8") as f:
        json.dump({"version": "v1.0", "database": {"type": "default", "config": {"connection": sf_database}}}, f)
    return {"cwl": cwl, "job": job, "streamflow_file": sf}
