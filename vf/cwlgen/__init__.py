"""CWL generator and differential runner (DESIGN 2.6) — shared by C29, C30, C34.

* ``gen``       grammar-based generators (Hypothesis strategies) producing JSON-serialisable
                *descriptions*: ``{"doc": <CWL v1.2 document as JSON>, "job": <input object>,
                "files": {relative name: text content}}``.
* ``writer``    materialises a description into a directory (``wf.cwl``, ``job.json``, input files).
* ``features``  measures the feature classes of a description from the document itself.
* ``run``       runs StreamFlow / cwltool on the same files, each in a fresh subprocess.
* ``normalise`` canonical form of an output object (File = content hash + size, basename when
                unambiguous; location/path/dirname dropped).
"""
