"""Feature classes of a generated case, measured from the document and the job (not from generator intent)."""
from __future__ import annotations


def _aslist(x):
    return x if isinstance(x, list) else [x]


def _walk(wf: dict, job: dict | None, depth: int, acc: dict) -> None:
    steps = wf.get("steps", {})
    for sid, step in steps.items():
        acc["steps"] += 1
        run = step["run"]
        cls = run.get("class")
        feats = acc["features"]
        if cls == "Workflow":
            feats.add("subworkflow")
            if depth >= 1:
                feats.add("subworkflow-depth>=2")
            _walk(run, None, depth + 1, acc)
        else:
            feats.add("tool:" + cls)
        if "scatter" in step:
            sc = _aslist(step["scatter"])
            method = step.get("scatterMethod")
            feats.add("scatter:" + (method or "single"))
            acc["core"].add("scatter")
            for name in sc:
                ent = step["in"].get(name, {})
                if "valueFrom" in ent:
                    feats.add("scatter+valueFrom")
                src = ent.get("source")
                val = None
                if job is not None and isinstance(src, str) and "/" not in src:
                    val = job.get(src, wf["inputs"].get(src, {}).get("default"))
                elif src is None and "default" in ent:
                    val = ent["default"]
                if isinstance(val, list):
                    if len(val) == 0:
                        feats.add("scatter-over-empty")
                    elif len(val) >= 10:
                        feats.add("scatter-len>=10")
            if "when" in step:
                feats.add("scatter+when")
        if "when" in step:
            feats.add("when")
            acc["core"].add("when")
        reqs = step.get("requirements", {})
        if "cwltool:Loop" in reqs:
            loop = reqs["cwltool:Loop"]
            feats.add("loop:" + loop.get("outputMethod", "last"))
            acc["core"].add("loop")
            if cls == "Workflow":
                feats.add("loop-over-subworkflow")
            if any(isinstance(v, dict) and "valueFrom" in v for k, v in loop["loop"].items() if k != "cnt"):
                feats.add("loop+valueFrom")
        if cls == "Workflow":
            acc["core"].add("subworkflow")
        for name, ent in step["in"].items():
            _sink(ent, "source", feats, acc, "in")
    for name, out in wf.get("outputs", {}).items():
        _sink(out, "outputSource", feats, acc, "out")
    for name, inp in wf.get("inputs", {}).items():
        if "default" in inp:
            feats.add("input-default")


def _sink(ent: dict, key: str, feats: set, acc: dict, where: str) -> None:
    if "linkMerge" in ent:
        feats.add("linkMerge:" + ent["linkMerge"])
        acc["core"].add("linkMerge")
        if isinstance(ent.get(key), list) and len(ent[key]) == 1:
            feats.add("linkMerge-single-source")
    elif isinstance(ent.get(key), list) and len(ent[key]) > 1 and ent.get("pickValue") is None:
        feats.add("linkMerge:implicit")
        acc["core"].add("linkMerge")
    if "pickValue" in ent:
        feats.add("pickValue:" + ent["pickValue"])
        acc["core"].add("pickValue")
        if isinstance(ent.get(key), str):
            feats.add("pickValue-single-source")
    if where == "in":
        if "valueFrom" in ent:
            feats.add("valueFrom")
            if "inputs." in ent["valueFrom"]:
                feats.add("valueFrom-reads-inputs")
        if "default" in ent:
            feats.add("step-default" if key in ent else "step-default-only")


def _types(t, acc: set) -> None:
    if isinstance(t, str):
        acc.add(t)
    elif isinstance(t, list):
        if "null" in t:
            acc.add("optional")
        for x in t:
            if x != "null":
                _types(x, acc)
    elif isinstance(t, dict):
        if t.get("type") == "array":
            acc.add("array")
            if isinstance(t["items"], dict) and t["items"].get("type") == "array":
                acc.add("nested-array")
            _types(t["items"], acc)
        elif t.get("type") == "record":
            acc.add("record")


def _has_null(o) -> bool:
    if o is None:
        return True
    if isinstance(o, dict):
        return any(_has_null(v) for v in o.values())
    if isinstance(o, list):
        return any(_has_null(v) for v in o)
    return False


def measure(case: dict) -> dict:
    """{"steps": total number of steps incl. nested, "features": set, "core": subset of
    {scatter, pickValue, linkMerge, when, loop, subworkflow}, "input_types": set}"""
    acc = {"steps": 0, "features": set(), "core": set()}
    doc = case["doc"]
    if doc.get("class") == "Workflow":
        _walk(doc, case.get("job", {}), 0, acc)
    types: set = set()
    for inp in doc.get("inputs", {}).values():
        _types(inp.get("type"), types)
    acc["input_types"] = types
    job = case.get("job", {})
    if any(v is None for v in job.values()):
        acc["features"].add("job-null")
    if any(name not in job for name in doc.get("inputs", {})):
        acc["features"].add("job-omits-input")
    return acc


def output_labels(obj) -> list[str]:
    labs = []
    if _has_null(obj):
        labs.append("output-has-null")

    def walk(o):
        if isinstance(o, dict):
            if o.get("class") == "File":
                labs.append("output-has-File")
                return
            for v in o.values():
                walk(v)
        elif isinstance(o, list):
            if len(o) == 0:
                labs.append("output-has-empty-array")
            if len(o) >= 10:
                labs.append("output-array-len>=10")
            for v in o:
                walk(v)

    walk(obj)
    return sorted(set(labs))
