"""Harness-side reduction of a failing workflow case (the Hypothesis shrinker is off for these
expensive cases): delete workflow outputs, then prune every step that is no longer upstream of an
output (recursively into sub-workflows), as long as a caller-supplied predicate keeps holding.

Used by hand (``python -m vf.cwlgen.minimise replay.json``) and by the thorough tier to report a
small document next to the original failing case.
"""
from __future__ import annotations

import copy
import json
import sys


def _aslist(x):
    return [] if x is None else (x if isinstance(x, list) else [x])


def _srcs(ent, key):
    if isinstance(ent, str):
        return [ent]
    out = list(_aslist(ent.get(key)))
    return out


def prune(wf: dict) -> dict:
    """Remove steps that are not upstream of any output, unused `out` entries of sub-workflow steps and the
    corresponding inner outputs; recursive. Returns a new document."""
    wf = copy.deepcopy(wf)
    changed = True
    while changed:
        changed = False
        used: set[str] = set()
        for out in wf.get("outputs", {}).values():
            used.update(_srcs(out, "outputSource"))
        needed: set[str] = set()
        frontier = [s.split("/")[0] for s in used if "/" in s]
        while frontier:
            sid = frontier.pop()
            if sid in needed or sid not in wf["steps"]:
                continue
            needed.add(sid)
            for ent in wf["steps"][sid].get("in", {}).values():
                for s in _srcs(ent, "source"):
                    used.add(s)
                    if "/" in s:
                        frontier.append(s.split("/")[0])
        for sid in list(wf.get("steps", {})):
            if sid not in needed:
                del wf["steps"][sid]
                changed = True
        for sid, st in wf.get("steps", {}).items():
            run = st.get("run")
            loop = st.get("requirements", {}).get("cwltool:Loop", {}).get("loop", {})
            fed_back = set()
            for v in loop.values():
                fed_back.update(_srcs(v, "loopSource") if isinstance(v, dict) else [v])
            keep = [o for o in st["out"] if f"{sid}/{o}" in used or o in fed_back]
            if isinstance(run, dict) and run.get("class") == "Workflow":
                if keep and len(keep) < len(st["out"]):
                    for o in st["out"]:
                        if o not in keep:
                            run["outputs"].pop(o, None)
                    st["out"] = keep
                    changed = True
                new_run = prune(run)
                if new_run != run:
                    st["run"] = new_run
                    changed = True
    return wf


def reduce_case(case: dict, holds, log=print) -> dict:
    """Greedy: try each single top-level output alone, then delete outputs one by one, while `holds(case)`."""
    best = case
    names = list(best["doc"].get("outputs", {}))
    if len(names) > 1:
        for name in names:
            cand = copy.deepcopy(best)
            cand["doc"]["outputs"] = {name: best["doc"]["outputs"][name]}
            cand["doc"] = prune(cand["doc"])
            if holds(cand):
                log(f"  reduced to the single output {name}")
                best = cand
                break
        else:
            for name in names:
                if len(best["doc"]["outputs"]) <= 1:
                    break
                cand = copy.deepcopy(best)
                del cand["doc"]["outputs"][name]
                cand["doc"] = prune(cand["doc"])
                if holds(cand):
                    log(f"  removed output {name}")
                    best = cand
    # inner outputs of sub-workflow steps are handled by prune(); finally drop unused job inputs' files
    return best


def _main(argv):
    import shutil
    import tempfile

    from vf.cwlgen import diffcheck, shapes, writer

    data = json.load(open(argv[0]))
    case = data.get("case", data)
    want = argv[1] if len(argv) > 1 else None

    def symptom(c):
        root = tempfile.mkdtemp(prefix="vf-min-")
        try:
            out = diffcheck.classify(*__import__("vf.cwlgen.run", fromlist=["run_pair"]).run_pair(writer.materialise(c, root), root))
            return out.symptom
        finally:
            shutil.rmtree(root, ignore_errors=True)

    target = want or symptom(case)
    print("target symptom:", target)
    if target is None:
        return 0
    small = reduce_case(case, lambda c: symptom(c) == target)
    json.dump(small, open(argv[0] + ".min.json", "w"), indent=1)
    print("written", argv[0] + ".min.json", "kind:", shapes.kind_for("C29", small, target, ""))
    return 0


if __name__ == "__main__":
    sys.exit(_main(sys.argv[1:]))
