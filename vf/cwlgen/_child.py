"""Subprocess entry point: runs ONE runner once and prints one JSON envelope as the last stdout line.

    python -m vf.cwlgen._child sf   <streamflow.yml> <outdir> <name> <wf.cwl> <job.json>
    python -m vf.cwlgen._child ref  <outdir> <wf.cwl> <job.json>
    python -m vf.cwlgen._child prov <streamflow.yml> <outdir> <name> <archive-name>

A fresh process per run keeps the global state of either tool (logging handlers, cwd, loaders,
event loops) out of the harness and out of the other tool.
"""
from __future__ import annotations

import contextlib
import io
import json
import sys

MARK = "@@VF-ENVELOPE@@"


def main(argv: list[str]) -> int:
    mode = argv[0]
    buf = io.StringIO()
    rc: int
    if mode == "sf":
        sf_file, outdir, name, cwl, job = argv[1:6]
        from streamflow.cwl.runner import main as sf_main

        with contextlib.redirect_stdout(buf):
            rc = sf_main(["--streamflow-file", sf_file, "--outdir", outdir, "--name", name, cwl, job])
    elif mode == "ref":
        outdir, cwl, job = argv[1:4]
        import cwltool.main

        rc = cwltool.main.main(
            ["--enable-ext", "--no-container", "--disable-js-validation", "--eval-timeout", "600",
             "--outdir", outdir, cwl, job], stdout=buf
        )
    elif mode == "prov":
        sf_file, outdir, name, archive = argv[1:5]
        from streamflow.main import main as sf_main

        with contextlib.redirect_stdout(buf):
            rc = sf_main(["prov", "--file", sf_file, "--outdir", outdir, "--name", archive, name])
    else:
        raise SystemExit(f"unknown mode {mode}")
    sys.stdout.flush()
    print(MARK + json.dumps({"rc": rc, "stdout": buf.getvalue()}))
    return 0


if __name__ == "__main__":
    sys.exit(main(sys.argv[1:]))
