"""Catalogue of small typed CWL processes (ExpressionTools and CommandLineTools) used as step bodies.

Types are tiny Python terms: ``"int" | "string" | "boolean" | "File" | ("array", T) | ("opt", T) | ("rec",)``.
A process is ``{"tag", "cls", "doc", "ins": [(name, T)], "outs": [(name, T)]}``; all of them are total
and deterministic functions of their inputs, integer results stay within +-1000 (CWL ``int`` is 32 bit),
and none needs a container or the network.
"""
from __future__ import annotations

INT, STR, BOOL, FILE = "int", "string", "boolean", "File"
REC = ("rec",)


def arr(t):
    return ("array", t)


def is_arr(t):
    return isinstance(t, tuple) and t[0] == "array"


def is_opt(t):
    return isinstance(t, tuple) and t[0] == "opt"


def opt(t):
    return t if is_opt(t) else ("opt", t)


def unopt(t):
    return t[1] if is_opt(t) else t


def to_cwl(t):
    if isinstance(t, str):
        return t
    if t[0] == "array":
        return {"type": "array", "items": to_cwl(t[1])}
    if t[0] == "opt":
        return ["null", to_cwl(t[1])]
    if t[0] == "rec":
        return {"type": "record", "fields": [{"name": "a", "type": "int"}, {"name": "b", "type": "string"}]}
    raise ValueError(t)


def assignable(src, sink) -> bool:
    """src can be connected to sink without any warning of the reference type checker."""
    if src == sink:
        return True
    if is_opt(sink):
        return assignable(unopt(src), sink[1])
    if is_opt(src):
        return False
    if is_arr(src) and is_arr(sink):
        return assignable(src[1], sink[1])
    return False


def contains_file(t) -> bool:
    if t == FILE:
        return True
    return isinstance(t, tuple) and len(t) > 1 and contains_file(t[1])


def _params(ps, extra=None):
    out = {}
    for n, t in ps:
        out[n] = {"type": to_cwl(t)}
        if extra and n in extra:
            out[n].update(extra[n])
    return out


def ET(tag, ins, outs, body, extra=None):
    return {
        "tag": tag, "cls": "ExpressionTool", "ins": ins, "outs": outs,
        "doc": {"class": "ExpressionTool", "inputs": _params(ins, extra), "outputs": _params(outs),
                "expression": "${" + body + "}"},
    }


def CLT(tag, ins, outs, doc):
    doc = dict(doc)
    doc["class"] = "CommandLineTool"
    return {"tag": tag, "cls": "CommandLineTool", "ins": ins, "outs": outs, "doc": doc}


_JS_LIT = {INT: "-1", STR: '"nil"', BOOL: "false"}


# ------------------------------------------------------------------------------------------------
# ExpressionTools


def expression_tools():
    t = []
    t.append(ET("add", [("a", INT), ("b", INT)], [("o", INT)], 'return {"o": (inputs.a + inputs.b) % 1000};'))
    t.append(ET("affine", [("a", INT)], [("o", INT)], 'return {"o": (inputs.a * 3 + 1) % 1000};'))
    t.append(ET("i2s", [("a", INT)], [("o", STR)], 'return {"o": "n" + inputs.a};'))
    t.append(ET("cat", [("a", STR), ("b", STR)], [("o", STR)],
                'return {"o": (inputs.a + "-" + inputs.b).slice(0, 200)};'))
    t.append(ET("slen", [("s", STR)], [("o", INT)], 'return {"o": inputs.s.length};'))
    t.append(ET("range", [("n", INT)], [("o", arr(INT))],
                'var r = []; for (var i = 0; i < Math.abs(inputs.n) % 14; i++) { r.push(i * 2 + inputs.n % 7); } '
                'return {"o": r};'))
    t.append(ET("strs", [("n", INT)], [("o", arr(STR))],
                'var r = []; for (var i = 0; i < Math.abs(inputs.n) % 12; i++) { r.push("s" + i); } return {"o": r};'))
    t.append(ET("sum", [("xs", arr(INT))], [("o", INT)],
                'var s = 0; for (var i = 0; i < inputs.xs.length; i++) { s = (s + inputs.xs[i] * (i + 1)) % 1000; } '
                'return {"o": s};'))
    t.append(ET("join", [("xs", arr(STR))], [("o", STR)], 'return {"o": inputs.xs.join("+").slice(0, 200)};'))
    for et in (INT, STR):
        t.append(ET(f"rev_{et}", [("xs", arr(et))], [("o", arr(et))],
                    'return {"o": inputs.xs.slice().reverse()};'))
        t.append(ET(f"coalesce_{et}", [("x", opt(et))], [("o", et)],
                    'return {"o": inputs.x === null ? %s : inputs.x};' % _JS_LIT[et]))
        t.append(ET(f"first_{et}", [("xs", arr(et))], [("o", opt(et))],
                    'return {"o": inputs.xs.length > 0 ? inputs.xs[0] : null};'))
    t.append(ET("flat", [("xss", arr(arr(INT)))], [("o", arr(INT))],
                'var r = []; inputs.xss.forEach(function (xs) { xs.forEach(function (x) { r.push(x); }); }); '
                'return {"o": r};'))
    t.append(ET("shape", [("xss", arr(arr(INT)))], [("o", arr(INT))],
                'return {"o": inputs.xss.map(function (xs) { return xs.length; })};'))
    t.append(ET("isnull", [("x", opt(INT))], [("o", BOOL)], 'return {"o": inputs.x === null};'))
    t.append(ET("mkrec", [("a", INT), ("b", STR)], [("r", REC)], 'return {"r": {"a": inputs.a, "b": inputs.b}};'))
    t.append(ET("recstr", [("r", REC)], [("o", STR), ("n", INT)],
                'return {"o": inputs.r.b + ":" + inputs.r.a, "n": inputs.r.a};'))
    t.append(ET("even", [("a", INT)], [("o", BOOL)], 'return {"o": inputs.a % 2 == 0};'))
    t.append(ET("choose", [("c", BOOL), ("x", INT), ("y", INT)], [("o", INT)],
                'return {"o": inputs.c ? inputs.x : inputs.y};'))
    t.append(ET("two", [("a", INT)], [("o1", INT), ("o2", STR)],
                'return {"o1": (inputs.a + 7) % 1000, "o2": "t" + inputs.a};'))
    t.append(ET("maybe", [("a", INT)], [("o", opt(INT))], 'return {"o": inputs.a % 3 == 0 ? null : inputs.a};'))
    t.append(ET("countnn", [("xs", arr(opt(INT)))], [("o", INT)],
                'return {"o": inputs.xs.filter(function (x) { return x !== null; }).length};'))
    t.append(ET("fcontents", [("f", FILE)], [("o", STR), ("n", INT)],
                'return {"o": inputs.f.contents.slice(0, 60), "n": inputs.f.contents.length};',
                extra={"f": {"loadContents": True}}))
    t.append(ET("fname", [("f", FILE)], [("o", STR)], 'return {"o": inputs.f.basename};'))
    t.append(ET("fnames", [("fs", arr(FILE))], [("o", arr(STR))],
                'return {"o": inputs.fs.map(function (f) { return f.basename; })};'))
    t.append(ET("mkfile", [("s", STR)], [("f", FILE)],
                'return {"f": {"class": "File", "basename": "lit.txt", "contents": inputs.s + "\\n"}};'))
    return t


# ------------------------------------------------------------------------------------------------
# CommandLineTools (coreutils + sh only)


def _stdout_int(name):
    return {"type": "int", "outputBinding": {"glob": name, "loadContents": True,
                                             "outputEval": "$(parseInt(self[0].contents))"}}


def command_line_tools():
    t = []
    t.append(CLT("echo", [("s", STR)], [("f", FILE)], {
        "baseCommand": "echo",
        "inputs": {"s": {"type": "string", "inputBinding": {"position": 1}}},
        "stdout": "echo.txt",
        "outputs": {"f": {"type": "stdout"}},
    }))
    t.append(CLT("echo_opt", [("s", opt(STR)), ("n", INT)], [("f", FILE)], {
        "baseCommand": ["echo", "v"],
        "inputs": {"s": {"type": ["null", "string"], "inputBinding": {"position": 2, "prefix": "--s"}},
                   "n": {"type": "int", "inputBinding": {"position": 1}}},
        "stdout": "echo_opt.txt",
        "outputs": {"f": {"type": "File", "outputBinding": {"glob": "echo_opt.txt"}}},
    }))
    t.append(CLT("arith", [("a", INT), ("b", INT)], [("o", INT)], {
        "baseCommand": ["sh", "-c", "echo $(( ($0 * 2 + $1) % 1000 ))"],
        "inputs": {"a": {"type": "int", "inputBinding": {"position": 1}},
                   "b": {"type": "int", "inputBinding": {"position": 2}}},
        "stdout": "arith.txt",
        "outputs": {"o": _stdout_int("arith.txt")},
    }))
    t.append(CLT("printf", [("a", STR)], [("o", STR)], {
        "baseCommand": ["printf", "%s|"],
        "inputs": {"a": {"type": "string", "inputBinding": {"position": 1}}},
        "stdout": "printf.txt",
        "outputs": {"o": {"type": "string", "outputBinding": {"glob": "printf.txt", "loadContents": True,
                                                              "outputEval": "$(self[0].contents)"}}},
    }))
    t.append(CLT("echo_ints", [("xs", arr(INT))], [("o", STR)], {
        "baseCommand": ["echo", "ints"],
        "inputs": {"xs": {"type": {"type": "array", "items": "int"}, "inputBinding": {"position": 1}}},
        "stdout": "ints.txt",
        "outputs": {"o": {"type": "string", "outputBinding": {"glob": "ints.txt", "loadContents": True,
                                                              "outputEval": "$(self[0].contents.trim())"}}},
    }))
    t.append(CLT("cat", [("f", FILE)], [("g", FILE)], {
        "baseCommand": "cat",
        "inputs": {"f": {"type": "File", "inputBinding": {"position": 1}}},
        "stdout": "cat.txt",
        "outputs": {"g": {"type": "stdout"}},
    }))
    t.append(CLT("catn", [("fs", arr(FILE))], [("g", FILE)], {
        "baseCommand": ["cat", "/dev/null"],
        "inputs": {"fs": {"type": {"type": "array", "items": "File"}, "inputBinding": {"position": 1}}},
        "stdout": "catn.txt",
        "outputs": {"g": {"type": "File", "outputBinding": {"glob": "catn.txt"}}},
    }))
    t.append(CLT("wc", [("f", FILE)], [("o", INT)], {
        "baseCommand": ["sh", "-c", "wc -c < \"$0\""],
        "inputs": {"f": {"type": "File", "inputBinding": {"position": 1}}},
        "stdout": "wc.txt",
        "outputs": {"o": _stdout_int("wc.txt")},
    }))
    t.append(CLT("upper", [("f", FILE)], [("g", FILE)], {
        "baseCommand": ["tr", "a-z", "A-Z"],
        "inputs": {"f": {"type": "File"}},
        "stdin": "$(inputs.f.path)",
        "stdout": "upper.txt",
        "outputs": {"g": {"type": "File", "outputBinding": {"glob": "upper.txt"}}},
    }))
    t.append(CLT("tag", [("f", FILE), ("s", STR)], [("g", FILE), ("n", INT)], {
        "baseCommand": ["sh", "-c", "cat \"$0\"; echo \"$1\"; cat \"$0\" | wc -l > n.txt"],
        "inputs": {"f": {"type": "File", "inputBinding": {"position": 1}},
                   "s": {"type": "string", "inputBinding": {"position": 2}}},
        "stdout": "tag.txt",
        "outputs": {"g": {"type": "File", "outputBinding": {"glob": "tag.txt"}}, "n": _stdout_int("n.txt")},
    }))
    return t


def failing_tool():
    """Exits with status ``c % 2`` — the specified permanentFail class when c is odd."""
    return CLT("maybe_fail", [("c", INT)], [("o", INT)], {
        "baseCommand": ["sh", "-c", "echo $0; exit $(( $0 % 2 ))"],
        "inputs": {"c": {"type": "int", "inputBinding": {"position": 1}}},
        "stdout": "mf.txt",
        "outputs": {"o": _stdout_int("mf.txt")},
    })


def loop_body_tools():
    """Bodies with an input/output pair of the same type that can be fed back by a loop."""
    ets = {p["tag"]: p for p in expression_tools()}
    clts = {p["tag"]: p for p in command_line_tools()}
    # (process, [(input fed back, output it is fed from)])
    return [
        (ets["add"], [("a", "o")]),
        (ets["affine"], [("a", "o")]),
        (ets["cat"], [("a", "o")]),
        (ets["two"], [("a", "o1")]),
        (ets["rev_int"], [("xs", "o")]),
        (ets["maybe"], []),
        (clts["arith"], [("a", "o")]),
        (clts["cat"], [("f", "g")]),
    ]


def sleeper_tool(seconds: int = 1):
    return CLT("sleeper", [("a", INT)], [("o", INT)], {
        "baseCommand": ["sh", "-c", f"sleep {seconds}; echo $0"],
        "inputs": {"a": {"type": "int", "inputBinding": {"position": 1}}},
        "stdout": "sleeper.txt",
        "outputs": {"o": _stdout_int("sleeper.txt")},
    })
