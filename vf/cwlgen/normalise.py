"""Canonical form of a CWL output object, independent of where a runner put the files.

File → ``{"class": "File", "sha1", "size"[, "basename"]}`` computed from the bytes found at the reported
path/location (``location``/``path``/``dirname``/``nameroot``/``nameext`` are dropped; a reported
``checksum``/``size`` that contradicts the bytes is returned as an *issue*). Numbers are compared by
value (``1 == 1.0``) but booleans are not numbers. Arrays keep their order; ``null`` stays ``null``.
"""
from __future__ import annotations

import hashlib
import os
from urllib.parse import unquote, urlparse


def _local_path(v: dict) -> str | None:
    for key in ("path", "location"):
        p = v.get(key)
        if isinstance(p, str):
            if p.startswith("file://"):
                return unquote(urlparse(p).path)
            if "://" not in p:
                return p
    return None


def normalise(obj, issues: list | None = None, where: str = "$"):
    issues = issues if issues is not None else []
    if isinstance(obj, dict):
        cls = obj.get("class")
        if cls == "File":
            out = {"class": "File", "basename": obj.get("basename")}
            path = _local_path(obj)
            if path is not None and os.path.isfile(path):
                with open(path, "rb") as f:
                    data = f.read()
                out["sha1"] = hashlib.sha1(data).hexdigest()
                out["size"] = len(data)
                if out["basename"] is None:
                    out["basename"] = os.path.basename(path)
                if "checksum" in obj and obj["checksum"] != "sha1$" + out["sha1"]:
                    issues.append(f"{where}: reported checksum {obj['checksum']} != sha1 of the file {out['sha1']}")
                if "size" in obj and obj["size"] != out["size"]:
                    issues.append(f"{where}: reported size {obj['size']} != size of the file {out['size']}")
            elif "contents" in obj and path is None:
                data = obj["contents"].encode("utf-8")
                out["sha1"] = hashlib.sha1(data).hexdigest()
                out["size"] = len(data)
            else:
                out["missing"] = True
                issues.append(f"{where}: File {path!r} does not exist")
            if obj.get("secondaryFiles"):
                out["secondaryFiles"] = [normalise(s, issues, where + ".secondaryFiles") for s in obj["secondaryFiles"]]
            return out
        if cls == "Directory":
            out = {"class": "Directory", "basename": obj.get("basename")}
            path = _local_path(obj)
            if path is not None and os.path.isdir(path):
                listing = []
                for name in sorted(os.listdir(path)):
                    child = os.path.join(path, name)
                    listing.append(normalise({"class": "Directory" if os.path.isdir(child) else "File",
                                              "path": child, "basename": name}, issues, where + "/" + name))
                out["listing"] = listing
            return out
        return {k: normalise(v, issues, f"{where}.{k}") for k, v in obj.items()}
    if isinstance(obj, list):
        return [normalise(v, issues, f"{where}[{i}]") for i, v in enumerate(obj)]
    if isinstance(obj, float) and obj.is_integer():
        return int(obj)
    return obj


def _basenames(o, acc):
    if isinstance(o, dict):
        if o.get("class") in ("File", "Directory"):
            acc.append(o.get("basename"))
        for v in o.values():
            _basenames(v, acc)
    elif isinstance(o, list):
        for v in o:
            _basenames(v, acc)


def _drop_basenames(o):
    if isinstance(o, dict):
        return {k: _drop_basenames(v) for k, v in o.items()
                if not (k == "basename" and o.get("class") in ("File", "Directory"))}
    if isinstance(o, list):
        return [_drop_basenames(v) for v in o]
    return o


def diff(a, b, where="$", out=None, limit=6):
    """Human-readable list of differences between two normalised objects (both directions)."""
    out = out if out is not None else []
    if len(out) >= limit:
        return out
    if isinstance(a, bool) or isinstance(b, bool):
        if not (isinstance(a, bool) and isinstance(b, bool) and a == b):
            out.append(f"{where}: {a!r} != {b!r}")
    elif isinstance(a, dict) and isinstance(b, dict):
        for k in sorted(set(a) | set(b)):
            if k not in a:
                out.append(f"{where}.{k}: missing on the left, right has {str(b[k])[:120]}")
            elif k not in b:
                out.append(f"{where}.{k}: missing on the right, left has {str(a[k])[:120]}")
            else:
                diff(a[k], b[k], f"{where}.{k}", out, limit)
    elif isinstance(a, list) and isinstance(b, list):
        if len(a) != len(b):
            out.append(f"{where}: length {len(a)} != {len(b)}: {str(a)[:200]} vs {str(b)[:200]}")
        else:
            for i, (x, y) in enumerate(zip(a, b)):
                diff(x, y, f"{where}[{i}]", out, limit)
    elif isinstance(a, (int, float)) and isinstance(b, (int, float)):
        if a != b:
            out.append(f"{where}: {a!r} != {b!r}")
    elif type(a) is not type(b) or a != b:
        out.append(f"{where}: {str(a)[:160]!r} != {str(b)[:160]!r}")
    return out


def compare_outputs(sf_obj, ref_obj):
    """Returns (differences, issues_sf, normalised_sf, normalised_ref). Basenames are compared only when
    the reference's output files have pairwise distinct basenames (otherwise the runners had to rename
    colliding files in the output directory, and the naming scheme is not specified)."""
    i_sf: list = []
    i_ref: list = []
    n_sf = normalise(sf_obj, i_sf)
    n_ref = normalise(ref_obj, i_ref)
    names: list = []
    _basenames(n_ref, names)
    if len(set(names)) != len(names):
        n_sf, n_ref = _drop_basenames(n_sf), _drop_basenames(n_ref)
    return diff(n_sf, n_ref), i_sf, n_sf, n_ref
