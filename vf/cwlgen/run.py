"""Differential runner: StreamFlow and cwltool on the same files, one fresh subprocess per run."""
from __future__ import annotations

import json
import os
import re
import subprocess
import sys
import time

from vf.core import HarnessError
from vf.cwlgen._child import MARK

# Safety nets only (DESIGN R5): the reference run must finish within REF_TIMEOUT or the case is
# inconclusive (HarnessError -> exit 2). A StreamFlow run gets a budget relative to the measured wall
# time of the reference run on the same machine at the same moment (so machine load scales both);
# exceeding it is reported to the caller as ``timed_out`` — never as a failure of the workflow.
REF_TIMEOUT = float(os.environ.get("VERIF_CWL_TIMEOUT", "900"))
SF_T1_MIN = float(os.environ.get("VERIF_CWL_SF_T1_MIN", "20"))
SF_T1_FACTOR = float(os.environ.get("VERIF_CWL_SF_T1_FACTOR", "10"))

_INVALID_MARKERS = (
    "Tool definition failed validation",
    "Tool definition failed initialization",
    "couldn't load this CWL file",
    "Input object failed validation",
    "Could not load extension schema",
)


class RunResult:
    def __init__(self, who: str, rc: int, output, stderr: str, wall: float, outdir: str, timed_out: bool = False):
        self.who, self.rc, self.output, self.stderr, self.wall, self.outdir = who, rc, output, stderr, wall, outdir
        self.timed_out = timed_out
        self.budget = None

    @property
    def ok(self) -> bool:
        return self.rc == 0 and isinstance(self.output, dict)

    @property
    def rejected_document(self) -> bool:
        """the reference runner refused the document or the job object before running anything"""
        return self.who == "ref" and not self.ok and any(m in self.stderr for m in _INVALID_MARKERS)

    def error_summary(self) -> str:
        """A short, stable description of why the run failed (exception type, first message line)."""
        if self.ok:
            return ""
        text = _strip_ansi(self.stderr)
        if self.who == "sf":
            m = re.findall(r"^(?:streamflow\.[\w.]+\.|[\w.]*)(\w*(?:Exception|Error))\b:? ?(.*)$", text, re.M)
            if m:
                return f"{m[-1][0]}: {m[-1][1][:300]}"
        lines = [ln for ln in text.strip().splitlines() if ln.strip()]
        return " | ".join(lines[-4:])[:600]

    def error_type(self) -> str:
        if self.ok:
            return ""
        m = re.findall(r"^(?:[\w.]+\.)?(\w*(?:Exception|Error))\b", _strip_ansi(self.stderr), re.M)
        return m[-1] if m else "unknown"


def _strip_ansi(s: str) -> str:
    return re.sub(r"\x1b\[[0-9;]*m", "", s)


def _env(tmpdir: str) -> dict:
    env = dict(os.environ)
    env["TMPDIR"] = tmpdir
    env["PYTHONDONTWRITEBYTECODE"] = "1"
    env.pop("PYTHONHASHSEED", None)
    verif = os.path.dirname(os.path.dirname(os.path.dirname(os.path.abspath(__file__))))
    repo = os.environ.get("VERIF_REPO", "/repo")
    env["PYTHONPATH"] = os.pathsep.join([repo, verif])
    return env


def spawn(mode: str, args: list[str], root: str, tag: str) -> tuple[subprocess.Popen, float, str]:
    tmpdir = os.path.join(root, f"tmp-{tag}")
    os.makedirs(tmpdir, exist_ok=True)
    # stdout/stderr go to files: a child never blocks on a full pipe while the harness waits for the other one
    fo = open(os.path.join(root, f"{tag}.stdout"), "wb")
    fe = open(os.path.join(root, f"{tag}.stderr"), "wb")
    try:
        p = subprocess.Popen(
            [sys.executable, "-m", "vf.cwlgen._child", mode, *args],
            cwd=root, env=_env(tmpdir), stdin=subprocess.DEVNULL, stdout=fo, stderr=fe, start_new_session=True,
        )
    finally:
        fo.close()
        fe.close()
    p.vf_files = (fo.name, fe.name)
    return p, time.time(), tag


def _kill_tree(p: subprocess.Popen) -> None:
    try:
        os.killpg(p.pid, 9)
    except (ProcessLookupError, PermissionError):
        pass
    try:
        p.kill()
    except ProcessLookupError:
        pass


def collect(p: subprocess.Popen, t0: float, who: str, outdir: str, timeout: float | None = None,
            soft: bool = False) -> RunResult:
    timeout = REF_TIMEOUT if timeout is None else timeout

    def read():
        res = []
        for name in p.vf_files:
            with open(name, "rb") as f:
                res.append(f.read())
        return res

    try:
        p.wait(timeout=max(1.0, timeout))
        out, err = read()
    except subprocess.TimeoutExpired:
        _kill_tree(p)
        p.wait()
        out, err = read()
        if soft:
            return RunResult(who, -9, None, err.decode("utf-8", "replace"), time.time() - t0, outdir, timed_out=True)
        raise HarnessError(
            f"{who} run exceeded the {timeout:.0f}s safety net (inconclusive); stderr tail: "
            + err.decode("utf-8", "replace")[-1500:]
        )
    out_s = out.decode("utf-8", "replace")
    err_s = err.decode("utf-8", "replace")
    idx = out_s.rfind(MARK)
    if idx < 0:
        # the child died before printing its envelope (interpreter crash, os._exit, import failure)
        return RunResult(who, p.returncode if p.returncode else 70, None, err_s + "\n[no envelope] " + out_s[-500:],
                         time.time() - t0, outdir)
    env = json.loads(out_s[idx + len(MARK):])
    output = None
    if env["stdout"].strip():
        try:
            output = json.loads(env["stdout"])
        except ValueError:
            output = None
            err_s += "\n[unparsable stdout] " + env["stdout"][-500:]
    return RunResult(who, env["rc"], output, err_s, time.time() - t0, outdir)


def start_streamflow(paths: dict, root: str, tag: str = "sf", name: str = "wf"):
    outdir = os.path.join(root, f"out-{tag}")
    os.makedirs(outdir, exist_ok=True)
    p, t0, _ = spawn("sf", [paths["streamflow_file"], outdir, name, paths["cwl"], paths["job"]], root, tag)
    return p, t0, outdir


def start_reference(paths: dict, root: str, tag: str = "ref"):
    outdir = os.path.join(root, f"out-{tag}")
    os.makedirs(outdir, exist_ok=True)
    p, t0, _ = spawn("ref", [outdir, paths["cwl"], paths["job"]], root, tag)
    return p, t0, outdir


def run_pair(paths: dict, root: str, suffix: str = "", sf_budget_scale: float = 1.0) -> tuple[RunResult, RunResult]:
    """Both runners concurrently, on the same document/job/input files, separate outdirs and TMPDIRs."""
    ps, t0s, outs = start_streamflow(paths, root, "sf" + suffix)
    pr, t0r, outr = start_reference(paths, root, "ref" + suffix)
    try:
        ref = collect(pr, t0r, "ref", outr)
        budget = max(SF_T1_MIN, SF_T1_FACTOR * ref.wall) * sf_budget_scale
        sf = collect(ps, t0s, "sf", outs, timeout=budget - (time.time() - t0s), soft=True)
        sf.budget = budget
    finally:
        for p in (ps, pr):
            if p.poll() is None:
                _kill_tree(p)
                p.wait()
    return sf, ref


def run_streamflow(paths: dict, root: str, tag: str = "sf", name: str = "wf") -> RunResult:
    p, t0, outdir = start_streamflow(paths, root, tag, name)
    return collect(p, t0, "sf", outdir)


def run_prov(paths: dict, root: str, name: str, archive: str, outdir: str) -> RunResult:
    os.makedirs(outdir, exist_ok=True)
    p, t0, _ = spawn("prov", [paths["streamflow_file"], outdir, name, archive], root, "prov")
    return collect(p, t0, "prov", outdir)
