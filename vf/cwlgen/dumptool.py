#!/usr/bin/env python3
"""The process a generated CommandLineTool runs (C30): prints what it received as one JSON object.

    dumptool.py [--stdin] [--env=NAME1,NAME2] [--] args...

* ``argv``  : every argument after the script name, verbatim (the leading options above included — they
              come from ``baseCommand`` and are part of what is compared);
* ``stdin`` : hex of the bytes on standard input, only read when ``--stdin`` is the first option
              (a tool without a ``stdin:`` field must not block on an inherited stream);
* ``env``   : the values of the named environment variables (``null`` when unset).
Only the standard library, no imports from the harness: both runners execute it as a plain program.
"""
import json
import os
import sys


def main() -> int:
    argv = sys.argv[1:]
    out = {"argv": argv, "stdin": None, "env": {}}
    i = 0
    while i < len(argv):
        a = argv[i]
        if a == "--stdin" and i == 0:
            out["stdin"] = sys.stdin.buffer.read().hex()
        elif a.startswith("--env=") and i <= 1:
            for name in a[len("--env="):].split(","):
                if name:
                    out["env"][name] = os.environ.get(name)
        else:
            break
        i += 1
    sys.stdout.write(json.dumps(out, ensure_ascii=True))
    sys.stdout.flush()
    return 0


if __name__ == "__main__":
    sys.exit(main())
