"""Generator of CWL v1.2 CommandLineTools whose process is ``dumptool.py`` (C30).

A case is ``{"doc": CommandLineTool, "job": {...}, "files": {...}}``. The tool's single output ``d`` is
the JSON text printed by the dump tool (argv, stdin bytes, selected environment variables), captured
through ``stdout:`` + ``loadContents``, so both runners return it inside their output object.
"""
from __future__ import annotations

import os
import sys

from hypothesis import strategies as st

from vf.cwlgen.gen import G

DUMPTOOL = os.path.join(os.path.dirname(os.path.abspath(__file__)), "dumptool.py")
PYTHON = sys.executable if os.path.basename(sys.executable).startswith("python") else "/venv/bin/python"

# pieces of hostile strings: shell metacharacters, whitespace, quotes, unicode, option-like
_PIECES = ["a", "b", "Z", "0", "x y", " ", "  ", "'", '"', "$", "$HOME", "${X}", "`", "`id`", "$(id)", "\\", "\\n", "*", "?",
           "[a]", ";", "&", "&&", "|", "<", ">", "(", ")", "{", "}", "~", "#", "!", "%", "=", ",", ":", "-", "--", "-n", "é",
           "日本", "\U0001F600", "\t", "\n", "á", "%s", "''", '""']
_SAFE_UNQUOTED = ["a", "b c", "'q r'", '"d e"', "x\\ y", "$VF_A", "${VF_B}", "k=v", "--opt", "1 2  3", "'$VF_A'", '"$VF_A"']
_ENV_NAMES = ["VF_A", "VF_B", "VF_LONG_NAME_1", "vf_lower"]


_TAME = ["a", "b7", "Zed", "k_1", "0", "mm-2", "x.y", "/p/q", "v=1", "A,B", "n:m", "+1", "%d", "@at"]


def tame(g: G) -> str:
    """needs no shell quoting (shlex.quote(s) == s)"""
    return g.pick(_TAME)


def fval(g: G) -> float:
    """float/double values over many decades (both runners print |x| < 1e-6 and >= 1e16 through an
    exponent-quantised Decimal: "0", "10000000000000000"), negative, and integers written as floats"""
    form = g.i(0, 9)
    if form == 0:
        return float(g.i(-5, 1000))
    if form == 1:
        return g.pick([0.0, 1.0, -1.0, 0.5, 100000.0, 1e-06, 1e-07, 1e16, 1e15])
    mant = g.pick(["1", "1.5", "-2.25", "9.99", "4", "-1", "7.125", "3", "-6.0221", "1.2345678"])
    return float(f"{mant}e{g.i(-12, 20)}")


def hostile(g: G, allow_empty=True) -> str:
    n = g.weighted([(0, 2 if allow_empty else 0), (1, 6), (2, 5), (3, 3), (5, 1)])
    return "".join(g.pick(_PIECES) for _ in range(n))


def _binding(g: G, shell: bool, array: bool = False, allow_value_from: str | None = None) -> dict:
    b: dict = {}
    if g.p(0.75):
        b["position"] = g.weighted([(0, 2), (1, 3), (2, 3), (3, 2), (-1, 1), (10, 1), (5, 1)])
    if g.p(0.5):
        b["prefix"] = g.pick(["-x", "--long", "--eq=", "-", "p", "--with space", "-é", "--q'"])
        if g.p(0.45):
            b["separate"] = g.p(0.5)
    # (`separate: false` without a prefix is refused by the reference and not covered by the specification)
    if array and g.p(0.5):
        b["itemSeparator"] = g.pick([",", " ", ":", ";", ", "])  # ("" is treated as absent by the reference)
    if allow_value_from and g.p(0.25):
        b["valueFrom"] = allow_value_from
    if shell and g.p(0.4):
        b["shellQuote"] = g.p(0.5)
    return b


def gen_tool(g: G):
    shell = g.p(0.3)
    use_stdin = g.p(0.25)
    env_names = [n for n in _ENV_NAMES if g.p(0.25)]
    base = [PYTHON, DUMPTOOL]
    if use_stdin:
        base.append("--stdin")
    if env_names:
        base.append("--env=" + ",".join(env_names))
    inputs: dict = {}
    job: dict = {}
    unquoted_names = set()
    n_in = g.i(1, 6)
    for k in range(n_in):
        name = g.pick(["a", "b", "in", "x"]) + str(k)
        kind = g.weighted([("string", 8), ("int", 3), ("double", 4), ("boolean", 3), ("File", 2), ("enum", 1),
                           ("string[]", 4), ("int[]", 2), ("double[]", 2), ("File[]", 1), ("record", 2),
                           ("string[]-inner", 2)])
        optional = g.p(0.2)
        vf = None
        no_null = False
        decl: dict
        if kind == "string":
            t = "string"
            vf = g.pick(['$(self + "!")', "$(self.length)", "const val", '$(inputs.%s)' % name, "$(self)"])
            val = hostile(g)
        elif kind == "int":
            t = "int"
            vf = g.pick(["$(self + 1)", '$("n" + self)'])
            val = g.pick([0, 1, -1, 42, 2147483647, -7])
        elif kind == "double":
            t = g.pick(["double", "double", "float"])
            val = fval(g)
        elif kind == "double[]":
            t = {"type": "array", "items": "double"}
            val = [fval(g) for _ in range(g.i(0, 4))]
        elif kind == "boolean":
            t = "boolean"
            val = g.p(0.6)
        elif kind == "File":
            t = "File"
            vf = g.pick(["$(self.basename)", "$(self.nameroot)", '$(self.nameext + "|" + self.size)'])
            val = g.new_file()
        elif kind == "enum":
            t = {"type": "enum", "symbols": ["alpha", "be-ta", "g"]}
            val = g.pick(["alpha", "be-ta", "g"])
            no_null = True  # a null optional enum is refused by StreamFlow: known finding C30:optional-enum-null-rejected
        elif kind == "string[]":
            # values of array inputs bound through an outer inputBinding are never shell-quoted by StreamFlow
            # (known finding C30:composite-binding-not-shell-quoted): hostile items in ~1 array of 4 only
            t = {"type": "array", "items": "string"}
            mk = hostile if g.p(0.25) else tame
            val = [mk(g) for _ in range(g.weighted([(0, 2), (1, 3), (2, 4), (3, 2), (5, 1)]))]
        elif kind == "int[]":
            t = {"type": "array", "items": "int"}
            val = [g.i(-3, 99) for _ in range(g.i(0, 4))]
        elif kind == "File[]":
            t = {"type": "array", "items": "File"}
            val = [g.new_file() for _ in range(g.i(0, 3))]
        elif kind == "string[]-inner":
            # binding on the array schema itself: applied to every item
            t = {"type": "array", "items": "string", "inputBinding": _binding(g, shell) | {"prefix": g.pick(["-i", "--item", "-I="])}}
            mk = hostile if g.p(0.5) else tame
            val = [mk(g) for _ in range(g.i(0, 3))]
            if shell and t["inputBinding"].get("shellQuote") is False:
                val = [g.pick(_SAFE_UNQUOTED) for _ in val]  # unquoted = shell syntax (see below)
        else:
            fields = {}
            val = {}
            for fk in range(g.i(1, 3)):
                fname = "f" + str(fk)
                ft = g.pick(["string", "int", "boolean"])
                fd: dict = {"type": ft}
                if g.p(0.8):
                    fd["inputBinding"] = _binding(g, shell)
                fields[fname] = fd
                val[fname] = hostile(g) if ft == "string" else (g.i(-2, 50) if ft == "int" else g.p(0.5))
                if ft == "string" and fd.get("inputBinding", {}).get("shellQuote") is False:
                    val[fname] = g.pick(_SAFE_UNQUOTED)
                    if fd["inputBinding"].get("prefix") in ("--q'", "--with space"):
                        fd["inputBinding"]["prefix"] = "--p"
            t = {"type": "record", "fields": fields}
        if optional:
            vf = None  # valueFrom on a null optional input: the specification is silent
        decl = {"type": ["null", t] if optional else t}
        if g.p(0.85) or kind in ("record", "string[]-inner"):
            if kind == "record":
                if g.p(0.5):
                    decl["inputBinding"] = {k2: v2 for k2, v2 in _binding(g, shell).items() if k2 in ("position", "prefix")}
                    if decl["inputBinding"].get("prefix") in ("--with space", "--q'", "-é") and g.p(0.75):
                        decl["inputBinding"]["prefix"] = "--rec"
            elif kind == "string[]-inner":
                # always with an outer binding (the user-guide form); without one the items must be ordered by
                # array index before their own position, which StreamFlow does not do (known finding
                # C30:array-schema-binding-without-outer-binding-order, kept in the known-shapes sub-check)
                decl["inputBinding"] = {"position": g.i(0, 4)}
            else:
                decl["inputBinding"] = _binding(g, shell, array=kind.endswith("[]"), allow_value_from=vf)
                if kind.endswith("[]") and decl["inputBinding"].get("prefix") in ("--with space", "--q'", "-é") and g.p(0.75):
                    decl["inputBinding"]["prefix"] = "--arr"
                if kind.endswith("[]") and decl["inputBinding"].get("itemSeparator") in (" ", ";", ", ") and g.p(0.75):
                    decl["inputBinding"]["itemSeparator"] = ","
                if shell and decl["inputBinding"].get("shellQuote") is False:
                    unquoted_names.add(name)
                    # an unquoted value is shell syntax: keep it to forms whose meaning is the same in any POSIX sh
                    if kind == "string":
                        val = g.pick(_SAFE_UNQUOTED)
                    elif kind == "string[]":
                        val = [g.pick(_SAFE_UNQUOTED) for _ in range(len(val))]
                    if decl["inputBinding"].get("prefix") in ("--q'", "--with space"):
                        decl["inputBinding"]["prefix"] = "--p"
        if kind == "double" and g.p(0.3):
            decl["default"] = fval(g)  # a default in the document goes through the same rendering
            if g.p(0.6):
                val = None
        inputs[name] = decl
        if val is None and "default" in decl:
            pass  # job omits the input: the default applies
        elif optional and not no_null and g.p(0.5):
            if g.p(0.5):
                job[name] = None
        else:
            job[name] = val
    arguments = []
    for _ in range(g.weighted([(0, 4), (1, 3), (2, 2), (3, 1)])):
        form = g.i(0, 3)
        first = next(iter(inputs))
        if form == 0:
            arguments.append(hostile(g, allow_empty=False).replace("$(", "(").replace("${", "{"))
        elif form == 1:
            arguments.append({"valueFrom": hostile(g, allow_empty=False).replace("$(", "(").replace("${", "{"),
                              **{k2: v2 for k2, v2 in _binding(g, False).items() if k2 != "valueFrom"}})
        elif form == 2 and _stringish(inputs[first]):
            arguments.append({"valueFrom": "$(inputs.%s)" % first, "position": g.i(-1, 4)})
        elif form == 2:
            arguments.append({"valueFrom": "$(1 + 1)", "position": g.i(-1, 4)})
        else:
            arguments.append({"valueFrom": '$("lit " + runtime.cores * 0)', "position": g.i(0, 3),
                              **({"prefix": "--c"} if g.p(0.5) else {})})
    doc: dict = {"cwlVersion": "v1.2", "class": "CommandLineTool", "baseCommand": base, "inputs": inputs,
                 "stdout": "dump.json",
                 "outputs": {"d": {"type": "string", "outputBinding": {"glob": "dump.json", "loadContents": True,
                                                                       "outputEval": "$(self[0].contents)"}}},
                 "requirements": {"InlineJavascriptRequirement": {}}}
    if arguments:
        doc["arguments"] = arguments
    if shell:
        doc["requirements"]["ShellCommandRequirement"] = {}
    if env_names:
        env_def = {}
        # values that need shell quoting (`$`, backtick, `"`, backslash): DESIGN F4c (fixed in /repo by f29fd8d)
        env_hostile = g.p(0.5)
        for n in env_names:
            form = g.i(0, 3) if env_hostile else g.i(1, 2)
            if form == 0:
                env_def[n] = hostile(g).replace("$(", "(").replace("${", "{")
            elif form == 1:
                env_def[n] = g.pick(["plain", "two words", "v=1", "/some/path:/other", "", "ü", "a'b", "x;y", "p|q", "(z)",
                                     "<in>", "*", "~", "#c", "a  b ", "é日本"])
            elif form == 2:
                # (the reference insists that an envValue *expression* evaluates to a string)
                env_def[n] = "$(inputs.%s)" % next(iter(inputs)) if inputs[next(iter(inputs))].get("type") == "string" else "lit"
            else:
                env_def[n] = g.pick(['a"b', "c'd", "$HOME", "`echo x`", "a\\b", "x$y", '"', "end\\"])
        doc["requirements"]["EnvVarRequirement"] = {"envDef": env_def}
    if use_stdin:
        fname = "stdin" + str(len(g.files))
        inputs[fname] = {"type": "File"}
        job[fname] = g.new_file()
        doc["stdin"] = "$(inputs.%s.path)" % fname
    return {"doc": doc, "job": job, "files": g.files}


def _stringish(decl) -> bool:
    return decl.get("type") in ("string", "int")


@st.composite
def tool_cases(draw):
    return gen_tool(G(draw))
