"""The differential oracle shared by C29 / C30 / C34: run both runners on a materialised case, classify.

Outcome classes: ``agree-ok`` (both succeed, equal normalised outputs), ``agree-fail`` (both fail),
or a *disagreement* with a symptom in {"output-mismatch", "sf-fails-only", "ref-fails-only",
"sf-hangs", "sf-file-metadata"}. A disagreement is re-run once in fresh directories and is only
reported when it repeats (same symptom); otherwise it is labelled ``flaky`` and accepted.

A StreamFlow run that exceeds its budget (relative to the reference's wall time, see ``run``) is
re-run next to a fresh reference run with a 3x larger budget; only if it again does not finish while
the reference does is the symptom ``sf-hangs`` (its own kind) — anything else about time is a
HarnessError (inconclusive), never a violation.
"""
from __future__ import annotations

import os

from vf.core import HarnessError
from vf.cwlgen import normalise, run


class Outcome:
    def __init__(self, symptom: str | None, verdict: str, sf, ref, detail: str = "", sf_norm=None, ref_norm=None,
                 flaky: bool = False, slow_first: bool = False):
        self.symptom = symptom  # None when the runners agree
        self.verdict = verdict  # agree-ok | agree-fail | disagree
        self.sf, self.ref = sf, ref
        self.detail = detail
        self.sf_norm, self.ref_norm = sf_norm, ref_norm
        self.flaky = flaky
        self.slow_first = slow_first


def classify(sf, ref, compare=None) -> Outcome:
    """`compare(sf_output, ref_output)` may replace the default output-object comparison; it returns None
    (equal) or ``(symptom, detail)``."""
    if ref.rejected_document:
        raise HarnessError(
            "generator bug: the reference runner rejects the generated document/job before running it:\n"
            + run._strip_ansi(ref.stderr)[-1500:]
        )
    if sf.timed_out:
        return Outcome("sf-hangs", "disagree", sf, ref,
                       f"StreamFlow did not finish within {sf.budget:.0f}s; the reference finished in {ref.wall:.1f}s "
                       f"(rc={ref.rc}). StreamFlow log tail:\n" + run._strip_ansi(sf.stderr)[-1200:])
    if sf.ok and ref.ok and compare is not None:
        res = compare(sf.output, ref.output)
        if res is not None:
            return Outcome(res[0], "disagree", sf, ref, res[1])
        return Outcome(None, "agree-ok", sf, ref)
    if sf.ok and ref.ok:
        diffs, issues, n_sf, n_ref = normalise.compare_outputs(sf.output, ref.output)
        if diffs:
            return Outcome("output-mismatch", "disagree", sf, ref,
                           "normalised output objects differ (StreamFlow vs cwltool):\n  " + "\n  ".join(diffs),
                           n_sf, n_ref)
        if issues:
            return Outcome("sf-file-metadata", "disagree", sf, ref,
                           "StreamFlow output File metadata contradicts the file:\n  " + "\n  ".join(issues), n_sf, n_ref)
        return Outcome(None, "agree-ok", sf, ref, sf_norm=n_sf, ref_norm=n_ref)
    if not sf.ok and not ref.ok:
        return Outcome(None, "agree-fail", sf, ref)
    if sf.ok:
        return Outcome("ref-fails-only", "disagree", sf, ref,
                       "cwltool fails, StreamFlow succeeds with " + str(sf.output)[:400] + "\ncwltool: " + ref.error_summary())
    return Outcome("sf-fails-only", "disagree", sf, ref,
                   "StreamFlow fails, cwltool succeeds with " + str(ref.output)[:400] + "\nStreamFlow: "
                   + sf.error_summary() + "\nfirst error type: " + first_error_type(sf)
                   + "\nfirst errors: " + " || ".join(first_errors(sf))[:800])


def first_error_type(sf) -> str:
    """class name of the first exception StreamFlow logged (the later ones are usually consequences: closed
    database, cancelled tasks)"""
    import re

    m = re.search(r"^(?:[\w.]+\.)?(\w*(?:Exception|Error))\b", run._strip_ansi(sf.stderr), re.M)
    return m.group(1) if m else "unknown"


def first_errors(sf, n: int = 3) -> list[str]:
    out = []
    for ln in run._strip_ansi(sf.stderr).splitlines():
        if " ERROR " in ln:
            msg = ln.split(" ERROR ", 1)[1].strip()
            if msg:
                out.append(msg[:300])
                if len(out) >= n:
                    break
    return out


def differential(paths: dict, root: str, compare=None) -> Outcome:
    sf, ref = run.run_pair(paths, root)
    if os.environ.get("VERIF_CWL_TIMING"):
        with open(os.environ["VERIF_CWL_TIMING"], "a") as f:
            f.write(f"{os.getpid()} sf={sf.wall:.1f} ref={ref.wall:.1f} ok={sf.ok},{ref.ok}\n")
    first = classify(sf, ref, compare)
    if first.symptom is None:
        return first
    # confirm: fresh directories, fresh processes; a hang gets a 3x budget
    sf2, ref2 = run.run_pair(paths, root, suffix="-2", sf_budget_scale=3.0 if first.symptom == "sf-hangs" else 1.0)
    second = classify(sf2, ref2, compare)
    if second.symptom == first.symptom:
        return second
    if second.symptom is None:
        second.flaky = first.symptom != "sf-hangs"
        second.slow_first = first.symptom == "sf-hangs"
        return second
    # two different disagreements (e.g. a slow first run, then a mismatch): a third run decides. A symptom seen
    # twice is reported; agreement on the third run accepts the case as flaky; three different outcomes are
    # inconclusive (exit 2) - StreamFlow merely behaving differently never ends up there on its own.
    sf3, ref3 = run.run_pair(paths, root, suffix="-3", sf_budget_scale=3.0)
    third = classify(sf3, ref3, compare)
    if third.symptom is None:
        third.flaky = True
        return third
    if third.symptom in (first.symptom, second.symptom):
        third.detail = f"(runs: {first.symptom}, {second.symptom}, {third.symptom}) " + third.detail
        return third
    raise HarnessError(f"inconclusive: three runs, three outcomes: {first.symptom}, {second.symptom}, {third.symptom}\n"
                       f"{third.detail[:800]}")
