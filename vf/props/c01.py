"""C01 Scatter then gather returns the original list in its original order."""
from __future__ import annotations

from hypothesis import strategies as st

from vf.core import Prop, Violation

prop = Prop(
    "C01",
    level="exploration",
    technique="Hypothesis PBT: round-trip oracle gather(scatter(v)) == v under generated arrival orders and chaos schedules on a deterministic event loop",
    rule=(
        "engine tier: source -> scatter^k -> shuffling element-wise step -> gather^k run by StreamFlowExecutor under a "
        "drawn schedule (k=1..3, outer length 0..13, tags 0 / 0.3 / 0.11); direct tier: a GatherStep alone (depth 1..2) "
        "fed element and size tokens of 1..3 interleaved keys in a drawn total order. Non-trivial = some list of length "
        ">= 2 whose element arrival order at the gather differs from index order (measured), distinct by the whole case."
    ),
    level_text="Random search over list shapes, arrival orders and external-wait schedules; the oracle is the original plain value (round trip), independent of the code.",
    level_note="Schedules are those expressible as delays at external waits (DB calls, the shuffling step); the size-token-missing path (forced gather) is outside the statement and not generated.",
    assumptions=["termination tokens are the last tokens a producer puts on a port (R1a)"],
)
prop.engine = "detloop"

scalar = st.one_of(st.integers(-5, 99), st.sampled_from(["a", "", "10", "x y"]), st.none(), st.booleans())
leaf = st.one_of(
    scalar,
    scalar,
    st.lists(scalar, max_size=3),
    st.dictionaries(st.sampled_from(["k", "m", "z"]), scalar, max_size=2),
)
outer_len = st.one_of(st.sampled_from([0, 1, 2, 9, 10, 11, 12, 13]), st.integers(0, 13))


def nested(depth: int):
    if depth == 1:
        return outer_len.flatmap(lambda n: st.lists(leaf, min_size=n, max_size=n))
    inner = st.one_of(st.integers(0, 3), st.sampled_from([0, 10, 11])) if depth == 2 else st.integers(0, 3)
    sub = nested_inner(depth - 1, inner)
    return st.one_of(st.integers(0, 4), st.sampled_from([0, 1, 11])).flatmap(lambda n: st.lists(sub, min_size=n, max_size=n))


def nested_inner(depth: int, length):
    if depth == 1:
        return length.flatmap(lambda n: st.lists(leaf, min_size=n, max_size=n))
    return st.integers(0, 3).flatmap(lambda n: st.lists(nested_inner(depth - 1, st.integers(0, 3)), min_size=n, max_size=n))


schedule = st.lists(st.integers(0, 4), max_size=12)
engine_case = st.one_of(
    *[
        st.fixed_dictionaries(
            {
                "depth": st.just(d),
                "value": nested(d),
                "tag": st.sampled_from(["0", "0", "0.3", "0.11"]),
                "ranks": st.lists(st.integers(0, 20), max_size=16),
                "window": st.sampled_from([0, 0, 1, 2, 3, 5]),
                "schedule": schedule,
            }
        )
        for d in (1, 1, 2, 3)
    ]
)


def check_list_token(tok, tag, value, depth, where):
    """recursive oracle on the gathered token: tags are tag.i in numeric order, values are the original ones"""
    from streamflow.workflow.token import ListToken
    from vf.engine.harness import from_token

    if not isinstance(tok, ListToken):
        raise Violation("C01:not-a-list", f"{where}: {type(tok).__name__}")
    if tok.tag != tag:
        raise Violation("C01:tag", f"{where}: list token tag {tok.tag!r}, expected {tag!r}")
    got = [from_token(t) for t in tok.value]
    if got != value:
        kind = "C01:order" if sorted(map(repr, got)) == sorted(map(repr, value)) else "C01:elements"
        raise Violation(kind, f"{where}: got {got}, expected {value}")
    tags = [t.tag for t in tok.value]
    exp = [f"{tag}.{i}" for i in range(len(value))]
    if tags != exp:
        raise Violation("C01:element-tags", f"{where}: element tags {tags}, expected {exp}")
    if depth > 1:
        for i, t in enumerate(tok.value):
            check_list_token(t, f"{tag}.{i}", value[i], depth - 1, f"{where}[{i}]")


@prop.given("engine", engine_case, quick=1500, thorough=60000)
async def check_engine(case, rec):
    from streamflow.core.workflow import Workflow
    from streamflow.workflow.executor import StreamFlowExecutor
    from streamflow.workflow.step import GatherStep, ScatterStep
    from streamflow.workflow.token import ListToken, TerminationToken
    from vf.engine.detloop import Chaos, pending_tasks, settle
    from vf.engine.harness import ShuffleTransformer, data_tokens, make_context, terminations, to_token

    d, value, tag = case["depth"], case["value"], case["tag"]
    chaos = Chaos(case["schedule"])
    ctx = make_context(chaos)
    try:
        wf = Workflow(context=ctx, name="w", config={})
        src = wf.create_port()
        cur = src
        scatters = []
        for lvl in range(d):
            sc = wf.create_step(ScatterStep, name=f"/s{lvl}-scatter")
            sc.add_input_port("x", cur)
            cur = wf.create_port()
            sc.add_output_port("x", cur)
            scatters.append(sc)
        sh = wf.create_step(ShuffleTransformer, name="/shuffle", ranks=case["ranks"], window=case["window"])
        sh.add_input_port("x", cur)
        cur = wf.create_port()
        sh.add_output_port("x", cur)
        gather_in = cur
        for lvl in reversed(range(d)):
            g = wf.create_step(GatherStep, name=f"/s{lvl}-gather", size_port=scatters[lvl].get_size_port())
            g.add_input_port("x", cur)
            cur = wf.create_port()
            g.add_output_port("x", cur)
        out = cur
        wf.output_ports["out"] = out.name
        await wf.save(ctx.database)
        tok = to_token(value, tag)
        await tok.save(ctx.database, src.persistent_id)
        src.put(tok)
        src.put(TerminationToken())
        await StreamFlowExecutor(wf).run()
        await settle()
        if pending_tasks():
            raise Violation("C01:pending-tasks", f"{len(pending_tasks())} tasks pending after the run")
        dts = data_tokens(out)
        if len(dts) != 1:
            raise Violation("C01:output-count", f"{len(dts)} data tokens on the output port, expected 1: {[(type(t).__name__, t.tag) for t in dts]}")
        if len(terminations(out)) != 1 or not isinstance(out.token_list[-1], TerminationToken):
            raise Violation("C01:termination", f"output port history {[type(t).__name__ for t in out.token_list]}")
        check_list_token(dts[0], tag, value, d, "out")
        # classification: measured arrival order at the innermost gather
        arr = [t.tag for t in data_tokens(gather_in)]
        groups: dict[str, list[int]] = {}
        for t in arr:
            groups.setdefault(t.rsplit(".", 1)[0], []).append(int(t.rsplit(".", 1)[1]))
        shuffled = any(len(v) >= 2 and v != sorted(v) for v in groups.values())
        rec.label(f"depth={d}")
        n = len(value)
        rec.label("len=0" if n == 0 else "len>=10" if n >= 10 else "len=1..9")
        if any(isinstance(x, list) and len(x) >= 10 for x in value) and d >= 2:
            rec.label("inner-len>=10")
        if chaos.s:
            rec.label("non-default-schedule")
        rec.nontrivial(shuffled)
    finally:
        await ctx.close()


# ---- direct tier -------------------------------------------------------------------------------

key_desc = st.fixed_dictionaries(
    {
        "key": st.sampled_from(["0", "0.3", "0.11", "0.0"]),
        "shape": st.one_of(
            outer_len.map(lambda n: [n]),  # depth 1: n elements key.i
            st.lists(st.integers(0, 4), min_size=0, max_size=4).map(lambda ls: ["nested", *ls]),  # depth 2: key.i.j
        ),
    }
)
direct_case = st.fixed_dictionaries(
    {
        "depth": st.sampled_from([1, 1, 2]),
        "keys": st.lists(key_desc, min_size=1, max_size=3, unique_by=lambda k: k["key"]),
        "ranks": st.lists(st.integers(0, 30), max_size=40),
        "size_pos": st.sampled_from(["drawn", "first", "last"]),
        "term_order": st.sampled_from(["in-first", "size-first"]),
    }
)


@prop.given("direct-gather", direct_case, quick=3000, thorough=200000)
async def check_direct(case, rec):
    from streamflow.core.workflow import Token, Workflow
    from streamflow.workflow.step import GatherStep
    from streamflow.workflow.token import ListToken, TerminationToken
    from vf.engine.detloop import pending_tasks, settle
    from vf.engine.harness import data_tokens, feed, make_context, terminations
    import asyncio

    depth = case["depth"]
    ctx = make_context()
    try:
        wf = Workflow(context=ctx, name="w", config={})
        psize, pin, pout = wf.create_port(), wf.create_port(), wf.create_port()
        g = wf.create_step(GatherStep, name="/g", size_port=psize, depth=depth)
        g.add_input_port("x", pin)
        g.add_output_port("x", pout)
        await wf.save(ctx.database)
        expected: dict[str, list] = {}
        el_events, size_events = [], []
        for kd in case["keys"]:
            key = kd["key"]
            if depth == 1:
                n = kd["shape"][0] if kd["shape"][0] != "nested" else len(kd["shape"]) - 1
                tags = [f"{key}.{i}" for i in range(n)]
            else:
                ls = kd["shape"][1:] if kd["shape"][0] == "nested" else [kd["shape"][0] % 5]
                tags = [f"{key}.{i}.{j}" for i, m in enumerate(ls) for j in range(m)]
            expected[key] = tags
            el_events.extend((pin, Token(value=f"v{t}", tag=t)) for t in tags)
            size_events.append((psize, Token(value=len(tags), tag=key)))
        ranks = case["ranks"]
        evs = el_events + (size_events if case["size_pos"] == "drawn" else [])
        order = sorted(range(len(evs)), key=lambda i: (ranks[i % len(ranks)] if ranks else 0, i))
        events = [evs[i] for i in order]
        if case["size_pos"] == "first":
            events = size_events + events
        elif case["size_pos"] == "last":
            events = events + size_events
        task = asyncio.create_task(g.run())
        await settle()
        await feed(ctx, events)
        terms = [(pin, TerminationToken()), (psize, TerminationToken())]
        if case["term_order"] == "size-first":
            terms.reverse()
        await feed(ctx, terms)
        if not task.done():
            raise Violation("C01:gather-hang", "GatherStep.run did not finish after both inputs terminated")
        task.result()
        if pending_tasks():
            raise Violation("C01:pending-tasks", f"{len(pending_tasks())} tasks pending after the run")
        dts = data_tokens(pout)
        if len(terminations(pout)) != 1 or not isinstance(pout.token_list[-1], TerminationToken):
            raise Violation("C01:termination", f"output port history {[type(t).__name__ for t in pout.token_list]}")
        got = {}
        for t in dts:
            if not isinstance(t, ListToken):
                raise Violation("C01:not-a-list", type(t).__name__)
            if t.tag in got:
                raise Violation("C01:duplicate-output", f"two list tokens for key {t.tag}")
            got[t.tag] = t
        if set(got) != set(expected):
            raise Violation("C01:output-keys", f"keys {sorted(got)} expected {sorted(expected)}")
        for key, tags in expected.items():
            gt = [t.tag for t in got[key].value]
            gv = [t.value for t in got[key].value]
            if gt != tags or gv != [f"v{t}" for t in tags]:
                kind = "C01:order" if sorted(gt) == sorted(tags) else "C01:elements"
                raise Violation(kind, f"key {key}: got {gt}, expected {tags}")
        arr = [t.tag for p, t in events if p is pin]
        shuffled = False
        for key, tags in expected.items():
            sub = [t for t in arr if t in set(tags)]
            if len(tags) >= 2 and sub != tags:
                shuffled = True
        rec.label(f"depth={depth}", f"size-{case['size_pos']}", f"keys={len(expected)}")
        mx = max((len(v) for v in expected.values()), default=0)
        rec.label("len=0" if mx == 0 else "len>=10" if mx >= 10 else "len=1..9")
        rec.nontrivial(shuffled)
    finally:
        await ctx.close()
