"""C33 Tag ordering and tag selection follow numeric component order."""
from __future__ import annotations

import functools
import itertools
import posixpath

from hypothesis import strategies as st

from vf.core import Prop, Violation

prop = Prop(
    "C33",
    level="exploration",
    technique="bounded-exhaustive enumeration + Hypothesis PBT against a reference key (depth, int components)",
    rule=(
        "enumerated: all tags of depth<=3 with components 0..12 (0..10 in quick), all ordered pairs for the "
        "comparison laws and sorting/get_tag/job-name round trips; random: tags of depth<=8 with components up "
        "to 10^6. Non-trivial = a pair/list in which numeric and lexicographic order of some component differ "
        "(a component >= 10 against a shorter one), a prefix chain with a multi-digit component, or a job name "
        "whose step path has depth >= 2; distinct by the case itself."
    ),
    level_text=(
        "Exhaustive over the small tag universe, random beyond it; the oracle is an independent reference key, "
        "so any deviation from depth-then-numeric order inside the enumerated space is found with certainty."
    ),
    level_note="Absence outside the enumerated space is not shown. get_tag is only claimed for prefix chains, as the property says.",
    assumptions=["tags are dot-separated non-negative decimal integers without leading zeros, as produced by the engine"],
)


def ref_key(tag: str):
    parts = tag.split(".")
    return (len(parts), tuple(int(p) for p in parts))


def sign(x: int) -> int:
    return (x > 0) - (x < 0)


def _lexdiff(a: str, b: str) -> bool:
    """numeric and lexicographic comparison disagree for this pair"""
    ka, kb = ref_key(a), ref_key(b)
    return sign((ka > kb) - (ka < kb)) != sign((a > b) - (a < b))


def universe(maxc: int, depth: int = 3):
    comps = [str(i) for i in range(maxc + 1)]
    out = []
    for d in range(1, depth + 1):
        out.extend(".".join(t) for t in itertools.product(comps, repeat=d))
    return out


# -------- pairwise comparison laws (exhaustive) --------------------------------------------------
# a case = [a, start, stop] block of second operands, so one evaluation covers many pairs cheaply


def gen_pair_blocks(tier):
    u = universe(10 if tier == "quick" else 12)
    n = len(u)
    step = 50 if tier == "quick" else 25
    for i in range(0, n, step):
        yield {"maxc": 10 if tier == "quick" else 12, "lo": i, "hi": min(n, i + step)}


@functools.lru_cache(maxsize=4)
def _univ(maxc):
    return universe(maxc)


@prop.enumerated("pairs-exhaustive", gen_pair_blocks)
def check_pairs(case, rec):
    from streamflow.core.utils import compare_tags

    u = _univ(case["maxc"])
    nt = 0
    for a in u[case["lo"] : case["hi"]]:
        ka = ref_key(a)
        for b in u:
            kb = ref_key(b)
            got = compare_tags(a, b)
            exp = (ka > kb) - (ka < kb)
            if sign(got) != exp:
                raise Violation("C33:compare-sign", f"compare_tags({a!r},{b!r})={got}, reference sign {exp}")
            if sign(compare_tags(b, a)) != -exp:
                raise Violation("C33:antisymmetry", f"compare_tags({b!r},{a!r}) vs ({a!r},{b!r})")
            if (got == 0) != (a == b):
                raise Violation("C33:zero-iff-equal", f"{a!r} {b!r} -> {got}")
            if _lexdiff(a, b):
                nt += 1
    rec.bulk(evaluations=(case["hi"] - case["lo"]) * len(u), nontrivial=nt)


# -------- random deep tags: compare, transitivity, sorting --------------------------------------

comp = st.one_of(
    st.integers(0, 12),
    st.integers(0, 12),
    st.sampled_from([9, 10, 11, 19, 20, 99, 100, 101, 999, 1000]),
    st.integers(0, 10**6),
)
tag = st.lists(comp, min_size=1, max_size=8).map(lambda cs: ".".join(map(str, cs)))
# lists that share prefixes, so that comparisons are decided by deep components
tag_family = st.lists(comp, min_size=0, max_size=5).flatmap(
    lambda pre: st.lists(
        st.lists(comp, min_size=1, max_size=3).map(lambda suf: ".".join(map(str, pre + suf))),
        min_size=2,
        max_size=12,
    )
)
tag_list = st.one_of(st.lists(tag, min_size=2, max_size=12), tag_family)


@prop.given("sorting-random", tag_list, quick=12000, thorough=250000)
def check_sort(case, rec):
    from streamflow.core.utils import compare_tags

    tags = case
    got = sorted(tags, key=functools.cmp_to_key(compare_tags))
    exp = sorted(tags, key=ref_key)
    if [ref_key(t) for t in got] != [ref_key(t) for t in exp]:
        raise Violation("C33:sort-order", f"sorted {tags} -> {got}, reference {exp}")
    # transitivity on the first three
    for a, b, c in itertools.permutations(tags[:4], 3):
        if compare_tags(a, b) <= 0 and compare_tags(b, c) <= 0 and compare_tags(a, c) > 0:
            raise Violation("C33:transitivity", f"{a} <= {b} <= {c} but {a} > {c}")
    for a, b in itertools.combinations(tags[:6], 2):
        ka, kb = ref_key(a), ref_key(b)
        if sign(compare_tags(a, b)) != (ka > kb) - (ka < kb):
            raise Violation("C33:compare-sign", f"compare_tags({a!r},{b!r})")
    lex = sorted(tags) != exp and [ref_key(t) for t in sorted(tags)] != [ref_key(t) for t in exp]
    rec.label("lex-differs" if lex else "lex-same")
    if any(len(t.split(".")) >= 4 for t in tags):
        rec.label("depth>=4")
    rec.nontrivial(lex)


# -------- get_tag on prefix chains ---------------------------------------------------------------

# engine tags are rooted at "0" (the default tag); get_tag's neutral element relies on it
chain = st.tuples(
    st.lists(comp, min_size=0, max_size=7).map(lambda cs: [0] + cs),
    st.lists(st.integers(0, 7), min_size=1, max_size=5),
    st.permutations(list(range(5))),
)


@prop.given("get-tag-chain", chain, quick=6000, thorough=80000)
def check_get_tag(case, rec):
    from streamflow.core.utils import get_tag
    from streamflow.core.workflow import Token

    comps, cuts, perm = case
    full = [str(c) for c in comps]
    # chain elements: prefixes of `full` of the drawn lengths (>=1), duplicates allowed
    lens = [1 + (c % len(full)) for c in cuts]
    tags = [".".join(full[:n]) for n in lens]
    order = [i for i in perm if i < len(tags)]
    tags = [tags[i] for i in order]
    exp = max(tags, key=lambda t: len(t.split(".")))
    got = get_tag([Token(value=None, tag=t) for t in tags])
    if got != exp:
        raise Violation("C33:get-tag", f"get_tag({tags}) = {got!r}, deepest is {exp!r}")
    multi = any(len(c) > 1 for c in full) and len(set(tags)) >= 2
    rec.label("multi-digit-chain" if multi else "single-digit-or-singleton")
    rec.nontrivial(multi)


def gen_chain_exhaustive(tier):
    m = 10 if tier == "quick" else 12
    comps = [str(i) for i in (0, 1, 9, 10, m)]
    for rest in itertools.product(comps, repeat=3):
        yield {"full": ["0", *rest]}


@prop.enumerated("get-tag-chain-exhaustive", gen_chain_exhaustive, max_shards=4)
def check_get_tag_ex(case, rec):
    from streamflow.core.utils import get_tag
    from streamflow.core.workflow import Token

    full = case["full"]
    prefixes = [".".join(full[:n]) for n in (1, 2, 3, 4)]
    for r in (1, 2, 3, 4):
        for sub in itertools.permutations(prefixes, r):
            exp = max(sub, key=lambda t: len(t.split(".")))
            got = get_tag([Token(value=None, tag=t) for t in sub])
            if got != exp:
                raise Violation("C33:get-tag", f"get_tag({list(sub)}) = {got!r}, deepest is {exp!r}")
    rec.nontrivial(any(len(c) > 1 for c in full))


# -------- job-name split -------------------------------------------------------------------------

name_comp = st.text(alphabet="abcXYZ019_-. ", min_size=1, max_size=6).filter(lambda s: s not in (".", "..") and "/" not in s)
job = st.tuples(st.lists(name_comp, min_size=1, max_size=4), tag)


@prop.given("job-name-split", job, quick=6000, thorough=80000)
def check_job_name(case, rec):
    from streamflow.core.utils import get_job_step_name, get_job_tag

    comps, t = case
    step_name = "/" + "/".join(comps)
    name = posixpath.join(step_name, t)
    if (g := get_job_step_name(name)) != step_name:
        raise Violation("C33:job-step-name", f"{name!r} -> step {g!r}, expected {step_name!r}")
    if (g := get_job_tag(name)) != t:
        raise Violation("C33:job-tag", f"{name!r} -> tag {g!r}, expected {t!r}")
    rec.label(f"depth={len(comps)}")
    rec.nontrivial(len(comps) >= 2)
