"""C05 Workflow results do not depend on the interleaving."""
from __future__ import annotations

from hypothesis import strategies as st

from vf.core import Prop, Violation
from vf.engine import progs

prop = Prop(
    "C05",
    level="exploration",
    technique="Hypothesis PBT: metamorphic (same program under several chaos schedules) + differential against an independent reference interpreter, on a deterministic event loop",
    rule=(
        "programs = state-aware random compositions (<= 12 blocks) of source/map/dot-product zip/scatter/gather/cartesian cross-product (flat and nested)/conditional/"
        "loop/schedule+execute blocks; each program is run under asyncio's default order and under 3 (quick) drawn schedules "
        "of delays at external waits (DB calls, commands, transformer bodies). Non-trivial = some stream carries >= 2 tokens "
        "AND two of the runs persisted their tokens in different global orders (measured from persistent ids); distinct by program+schedules."
    ),
    level_text="Random search over programs x schedules; the oracle is the reference interpreter's {tag: value} per stream, so any run that differs from another also differs from the reference.",
    level_note="Interleavings are those expressible as delays at external waits (sound delay model); ready-queue permutations are deliberately not explored. Values compared on every stream, not only on workflow outputs.",
    assumptions=["harness steps (FnTransformer, PredConditional, LoopConditional, PyCommand) are pure functions of their inputs"],
)
prop.engine = "detloop"

ALL_OPS = ("map", "zip", "scatter", "gather", "cond", "loop", "exec", "cross", "shuffle", "join")
case_strategy = st.fixed_dictionaries(
    {
        "prog": progs.program_strategy(ops=ALL_OPS),
        "schedules": st.lists(progs.schedule_strategy.filter(lambda s: any(s)), min_size=3, max_size=3),
        "durations": st.lists(progs.durations_strategy, min_size=4, max_size=4),
    }
)


def persisted_order(r):
    seq = []
    for i, toks in r.port_tokens.items():
        for t in toks:
            if getattr(t, "persistent_id", None):
                seq.append((t.persistent_id, i, t.tag))
    return [(i, tag) for _, i, tag in sorted(seq)]


@prop.given("programs-x-schedules", case_strategy, quick=700, thorough=30000)
async def check(case, rec):
    from vf.engine.runprog import classify, compare_with_reference, run_program

    runs = []
    for k, sched in enumerate([[], *case["schedules"]]):
        r = await run_program(case["prog"], sched, durations=case.get("durations", [[]] * 4)[k])
        if r.outcome != "returned":
            raise Violation("C05:run-failed", f"schedule {sched}: {r.outcome} {r.exception!r}; blocks={r.blocks}")
        compare_with_reference(r, "C05")
        # the executor's returned mapping is well defined for single-token outputs
        for i in r.outputs:
            if len(r.ref[i]) == 1:
                (val,) = r.ref[i].values()
                if r.result.get(f"o{i}") != val:
                    raise Violation("C05:executor-result", f"output o{i}: executor returned {r.result.get(f'o{i}')!r}, expected {val!r}; blocks={r.blocks}")
        runs.append(r)
    orders = {tuple(persisted_order(r)) for r in runs}
    multi = any(len(v) >= 2 for v in runs[0].ref.values())
    classify(runs[0], rec)
    rec.label(f"distinct-orders={len(orders)}")
    rec.nontrivial(multi and len(orders) >= 2)
