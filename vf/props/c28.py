"""C28 Steps get the binding of their nearest bound ancestor.

Generated StreamFlow files (dicts) are first validated by the repository's own ``SfValidator`` - a file
the validator rejects is a harness error, never a case - then handed to ``WorkflowConfig`` and queried
through ``get_binding_config`` exactly as ``CWLTranslator`` does. Oracle: a reference resolver written
here (longest component-wise prefix among the step bindings, else the local target; workdir = own, else
first along the wraps chain; any cycle in the wraps graph => ``WorkflowDefinitionException``).
"""
from __future__ import annotations

import copy
import logging
import os
import tempfile

from hypothesis import strategies as st

from vf.core import HarnessError, Prop, Violation

prop = Prop(
    "C28",
    level="exploration",
    technique="Hypothesis PBT over schema-valid StreamFlow files against an independent reference resolver",
    rule=(
        "files with 1..5 deployments (docker/singularity/local; wraps in string and object form forming chains, "
        "self-references and cycles; workdir on some), 1..8 bindings over paths of depth 0..4 from a 4-name component "
        "pool (root binding '/', trailing slashes, single/multiple targets, deprecated model/resources keywords, "
        "filters, port bindings with workdir on the same subtrees); queries = every bound path, its parent, every "
        "one-component extension and sibling, plus drawn paths. Non-trivial = no cycle and (>= 2 step bindings on one "
        "root-to-leaf path that is queried, or a port binding at/under a step binding, or a bound deployment with a wraps "
        "chain of length >= 2); cyclic files: non-trivial = cycle of length >= 2 or a cycle only reachable through a "
        "non-cyclic deployment; distinct by the whole case."
    ),
    level_text="Random search of the configuration space; every query of every file is compared with the reference in both directions (targets and filters, in order).",
    level_note="Only files accepted by the repository's validator are used. The default working directory (no workdir anywhere) is checked against the value the repository's own test pins.",
    assumptions=[
        "step paths are unique among the step bindings of one file (which of two bindings of the same step wins is not specified)",
        "wraps always names a declared deployment; workdir strings are non-empty",
    ],
)

COMPS = ["a", "b", "c", "sub"]
PORT_LEAVES = ["in", "out"]
DEP_TYPES = [("docker", {"image": "busybox"}), ("singularity", {"image": "docker://busybox"}), ("local", {})]
WORKDIRS = ["/remote/workdir", "/scratch/w1", "/home/user/w 2"]
SERVICES = ["boost", "svc-1"]

_validator = None


def _validate(cfg):
    global _validator
    from streamflow.core.exception import WorkflowDefinitionException

    if _validator is None:
        from streamflow.config.validator import SfValidator
        from streamflow.log_handler import logger

        logger.setLevel(logging.ERROR)  # the deprecated keywords warn on every use
        _validator = SfValidator()
    try:
        _validator.validate(cfg)
    except WorkflowDefinitionException as e:
        raise HarnessError(f"generator produced a file the repository's validator rejects: {e}") from e


def _path_str(comps, trailing):
    s = "/" + "/".join(comps)
    if trailing and comps:
        s += "/"
    return s


def _norm(path: str):
    """reference normalisation of a Posix-like step path: its non-empty components"""
    return tuple(c for c in path.split("/") if c)


def build(case):
    """description -> (StreamFlow file dict, model)"""
    deps = case["deps"]
    n = len(deps)
    dep_names = [f"d{i}-{DEP_TYPES[d['type']][0]}" for i, d in enumerate(deps)]
    dcfg = {}
    m_deps = {}
    for i, d in enumerate(deps):
        typ, conf = DEP_TYPES[d["type"]]
        entry = {"type": typ, "config": dict(conf)}
        wd = None if d["workdir"] is None else WORKDIRS[d["workdir"]]
        if wd is not None:
            entry["workdir"] = wd
        wraps = None
        if d["wraps"] is not None:
            k, form = d["wraps"]
            tgt = (i + 1 + k) % n if not case["forward_only"] else (i + 1 + k % max(1, n - i - 1) if i < n - 1 else None)
            if tgt is not None:
                if form == 0:
                    entry["wraps"] = dep_names[tgt]
                    wraps = (dep_names[tgt], None)
                elif form == 1:
                    entry["wraps"] = {"deployment": dep_names[tgt]}
                    wraps = (dep_names[tgt], None)
                else:
                    entry["wraps"] = {"deployment": dep_names[tgt], "service": SERVICES[form % 2]}
                    wraps = (dep_names[tgt], SERVICES[form % 2])
        if d.get("flags"):
            entry["external"] = True
            entry["lazy"] = False
        dcfg[dep_names[i]] = entry
        m_deps[dep_names[i]] = {"type": typ, "workdir": wd, "wraps": wraps, "external": bool(d.get("flags")),
                                "lazy": not d.get("flags")}
    bindings, m_steps, m_ports = [], {}, {}
    use_filters = False
    for b in case["bindings"]:
        comps = [COMPS[c] for c in b["path"]]
        if b["kind"] == "port" and (b["leaf"] < 2 or not comps):
            comps = comps + [PORT_LEAVES[b["leaf"] % 2]]  # leaf 2: the port path coincides with a step path
        path = _path_str(comps, b["trailing"])
        key = _norm(path)
        targets, m_targets = [], []
        for t in b["targets"][: (1 if b["kind"] == "port" or b["single"] else 3)]:
            name = dep_names[t["dep"] % n]
            tgt = {("model" if t["legacy"] else "deployment"): name}
            own = None if t["workdir"] is None else WORKDIRS[t["workdir"]] + "/t"
            if b["kind"] == "port" and own is None:
                own = "/port/data"  # mandatory for port targets
            if own is not None:
                tgt["workdir"] = own
            locs = 1
            if t["locations"] is not None:
                tgt["resources" if t["legacy"] else "locations"] = t["locations"]
                locs = t["locations"]
            svc = None
            if t["service"] is not None:
                svc = tgt["service"] = SERVICES[t["service"]]
            targets.append(tgt)
            m_targets.append({"dep": name, "own": own, "locations": locs, "service": svc})
        entry = {b["kind"]: path, "target": targets[0] if (b["kind"] == "port" or b["single"]) else targets}
        filters = []
        if b["kind"] == "step" and b["filters"]:
            filters = [f"flt{f}" for f in dict.fromkeys(b["filters"])]
            entry["filters"] = list(filters)
            use_filters = True
        table = m_ports if b["kind"] == "port" else m_steps
        if key in table:
            continue  # one binding per step (port) path: which of two wins is not specified
        if entry in bindings:
            continue
        bindings.append(entry)
        table[key] = {"targets": m_targets, "filters": filters}
    cfg = {
        "version": "v1.0",
        "workflows": {"wf": {"type": "cwl", "config": {"file": "main.cwl", "settings": "config.yml"}, "bindings": bindings}},
        ("models" if case["models_key"] else "deployments"): dcfg,
    }
    if use_filters:
        cfg["bindingFilters"] = {f"flt{i}": {"type": "shuffle", "config": {}} for i in range(3)}
    return cfg, {"deps": m_deps, "steps": m_steps, "ports": m_ports}


# ---- reference ----------------------------------------------------------------------------------


def ref_cycle(m_deps):
    """(has cycle, max cycle length, cycle reachable only via a tail)"""
    has, maxlen, tail = False, 0, False
    for start in m_deps:
        seen, cur = [start], start
        while m_deps[cur]["wraps"] is not None:
            cur = m_deps[cur]["wraps"][0]
            if cur in seen:
                has = True
                maxlen = max(maxlen, len(seen) - seen.index(cur))
                if cur != start:
                    tail = True
                break
            seen.append(cur)
    return has, maxlen, tail


def ref_chain(m_deps, name):
    chain, cur = [name], name
    while m_deps[cur]["wraps"] is not None:
        cur = m_deps[cur]["wraps"][0]
        chain.append(cur)
    return chain


def ref_resolve(table, query):
    """the binding whose path is the longest component-wise prefix of the query"""
    best = None
    for key, val in table.items():
        if len(key) <= len(query) and tuple(query[: len(key)]) == key and (best is None or len(key) > len(best[0])):
            best = (key, val)
    return best


def ref_targets(model, binding):
    out = []
    for t in binding["targets"]:
        dep = model["deps"][t["dep"]]
        inherited = next((model["deps"][d]["workdir"] for d in ref_chain(model["deps"], t["dep"])
                          if model["deps"][d]["workdir"] is not None), None)
        default = (os.path.join(os.path.realpath(tempfile.gettempdir()), "streamflow")
                   if dep["type"] == "local" else "/tmp/streamflow")
        out.append({
            "deployment": t["dep"], "type": dep["type"], "locations": t["locations"], "service": t["service"],
            "deployment_workdir": inherited, "workdir": t["own"] or inherited or default,
            "workdir_source": "own" if t["own"] else "inherited" if inherited else "default",
            "wraps": dep["wraps"], "external": dep["external"], "lazy": dep["lazy"],
        })
    return out


def observed_targets(bc):
    out = []
    for t in bc.targets:
        w = t.deployment.wraps
        out.append({
            "deployment": t.deployment.name, "type": t.deployment.type, "locations": t.locations, "service": t.service,
            "deployment_workdir": t.deployment.workdir, "workdir": t.workdir,
            "wraps": None if w is None else (w.deployment, w.service),
            "external": t.deployment.external, "lazy": t.deployment.lazy,
        })
    return out


LOCAL = [{"deployment": "__LOCAL__", "type": "local", "locations": 1, "service": None, "deployment_workdir": None,
          "workdir": os.path.join(os.path.realpath(tempfile.gettempdir()), "streamflow"), "wraps": None,
          "external": True, "lazy": False}]


def _diff_kind(exp, got, where):
    """root-cause bucket for a target list that differs from the reference"""
    if [t["deployment"] for t in exp] != [t["deployment"] for t in got]:
        return f"C28:{where}:wrong-binding"
    for e, g in zip(exp, got):
        if e["deployment_workdir"] != g["deployment_workdir"]:
            return f"C28:{where}:deployment-workdir-inheritance"
        if e["workdir"] != g["workdir"]:
            return f"C28:{where}:target-workdir-{e['workdir_source']}"
        if (e["locations"], e["service"]) != (g["locations"], g["service"]):
            return f"C28:{where}:wrong-binding"
    return f"C28:{where}:deployment-attributes"


# ---- strategy -----------------------------------------------------------------------------------

dep = st.fixed_dictionaries({
    "type": st.sampled_from([0, 0, 1, 2]),
    "workdir": st.one_of(st.none(), st.none(), st.integers(0, len(WORKDIRS) - 1)),
    "wraps": st.one_of(st.none(), st.tuples(st.integers(0, 4), st.integers(0, 3)), st.tuples(st.integers(0, 4), st.integers(0, 3))),
    "flags": st.booleans(),
})
target = st.fixed_dictionaries({
    "dep": st.integers(0, 4),
    "workdir": st.one_of(st.none(), st.none(), st.integers(0, len(WORKDIRS) - 1)),
    "locations": st.one_of(st.none(), st.integers(1, 4)),
    "service": st.one_of(st.none(), st.integers(0, 1)),
    "legacy": st.sampled_from([False, False, False, True]),
})
path = st.lists(st.integers(0, len(COMPS) - 1), min_size=0, max_size=4)
# bindings that pile up along one branch: prefixes of a common path
binding = st.fixed_dictionaries({
    "kind": st.sampled_from(["step", "step", "step", "port"]),
    "path": path,
    "leaf": st.integers(0, 2),
    "trailing": st.sampled_from([False, False, False, True]),
    "targets": st.lists(target, min_size=1, max_size=3),
    "single": st.booleans(),
    "filters": st.lists(st.integers(0, 2), max_size=2),
})


@st.composite
def case_strategy(draw):
    spine = draw(st.lists(st.integers(0, len(COMPS) - 1), min_size=1, max_size=4))
    bs = draw(st.lists(binding, min_size=1, max_size=8))
    # half of the bindings are moved onto prefixes of a common spine so that nesting is frequent
    for b in bs:
        cut = draw(st.integers(-4, 4))
        if cut >= 0:
            b["path"] = spine[:cut]
    return {
        "deps": draw(st.lists(dep, min_size=1, max_size=5)),
        "forward_only": draw(st.sampled_from([True, True, False])),
        "models_key": draw(st.sampled_from([False, False, False, True])),
        "bindings": bs,
        "queries": draw(st.lists(path, max_size=3)),
    }


@prop.given("resolve", case_strategy(), quick=4000, thorough=150000, max_shards=8)
def check_resolve(case, rec):
    from streamflow.config.config import WorkflowConfig
    from streamflow.core.deployment import LocalTarget
    from streamflow.core.exception import WorkflowDefinitionException
    from streamflow.deployment.utils import get_binding_config

    cfg, model = build(case)
    _validate(copy.deepcopy(cfg))
    has_cycle, cyc_len, tail = ref_cycle(model["deps"])
    try:
        wc = WorkflowConfig("wf", copy.deepcopy(cfg))
        raised = None
    except WorkflowDefinitionException as e:
        raised = e
    if has_cycle:
        rec.label(f"cycle-len={min(cyc_len, 3)}{'+' if cyc_len >= 3 else ''}", "cycle-behind-tail" if tail else "cycle-direct")
        rec.nontrivial(cyc_len >= 2 or tail)
        if raised is None:
            raise Violation("C28:cyclic-wraps-accepted", f"wraps graph {[(k, v['wraps']) for k, v in model['deps'].items()]} has a cycle of length {cyc_len}; no error")
        return
    if raised is not None:
        raise Violation("C28:acyclic-file-rejected", f"{raised}; deployments {[(k, v['wraps']) for k, v in model['deps'].items()]}")

    # queries: every bound path, its parent, one-component extensions, siblings, drawn paths
    queries = {()}
    for key in list(model["steps"]) + list(model["ports"]):
        queries.add(key)
        queries.add(key[:-1])
        for c in COMPS[:3] + ["zz"]:
            queries.add(key + (c,))
            if key:
                queries.add(key[:-1] + (c,))
    for q in case["queries"]:
        queries.add(tuple(COMPS[c] for c in q))
    nested = port_under_step = False
    classes = set()
    for q in sorted(queries):
        qs = "/" + "/".join(q)
        hit = ref_resolve(model["steps"], q)
        got_bc = get_binding_config(qs, "step", wc)
        got = observed_targets(got_bc)
        if hit is None:
            classes.add("query-unbound->local")
            if got != LOCAL or not all(isinstance(t, LocalTarget) for t in got_bc.targets) or got_bc.filters:
                raise Violation("C28:step:unbound-not-local", f"step {qs}: no step binding covers it, got {got}")
            continue
        key, b = hit
        exp = ref_targets(model, b)
        exp_cmp = [{k: v for k, v in t.items() if k != "workdir_source"} for t in exp]
        if got != exp_cmp:
            raise Violation(_diff_kind(exp, got, "step"), f"step {qs}: nearest bound ancestor is {'/' + '/'.join(key)}\nexpected {exp_cmp}\ngot      {got}")
        if [f.name for f in got_bc.filters] != b["filters"] or any(f.type != "shuffle" for f in got_bc.filters):
            raise Violation("C28:step:filters", f"step {qs}: filters {[f.name for f in got_bc.filters]}, expected {b['filters']}")
        covering = [k for k in model["steps"] if k == q[: len(k)]]
        if len(covering) >= 2:
            nested = True
            classes.add("query-under>=2-bindings")
        classes.add("query-own-path" if key == q else "query-inherits" if key else "query-inherits-root")
        if any(pk[: len(key)] == key and q[: len(pk)] == pk for pk in model["ports"]):
            port_under_step = True
            classes.add("port-binding-on-the-way")
        for t in exp:
            classes.add(f"workdir-{t['workdir_source']}")
    # a port binding resolves to its own target on its own path (what _inject_input relies on)
    for key, b in model["ports"].items():
        deeper = [k for k in model["ports"] if len(k) > len(key) and k[: len(key)] == key]
        qs = "/" + "/".join(key)
        got = observed_targets(get_binding_config(qs, "port", wc))
        exp = ref_targets(model, b)
        exp_cmp = [{k: v for k, v in t.items() if k != "workdir_source"} for t in exp]
        if got != exp_cmp:
            raise Violation(_diff_kind(exp, got, "port"), f"port {qs} (deeper port bindings {deeper})\nexpected {exp_cmp}\ngot      {got}")
    chain2 = any(len(ref_chain(model["deps"], t["dep"])) >= 3 for b in model["steps"].values() for t in b["targets"])
    chain1 = any(len(ref_chain(model["deps"], t["dep"])) == 2 for b in model["steps"].values() for t in b["targets"])
    if chain2:
        classes.add("bound-wraps-chain>=2")
    elif chain1:
        classes.add("bound-wraps-chain=1")
    if () in model["steps"]:
        classes.add("root-binding")
    if case["models_key"]:
        classes.add("models-keyword")
    rec.label(*sorted(classes))
    rec.nontrivial(nested or port_under_step or chain2)


# ---- wraps graphs, exhaustively ------------------------------------------------------------------


def gen_wraps(tier):
    """every wraps function on n <= 4 (5 in thorough) deployments: each deployment wraps nothing or any deployment"""
    import itertools

    for n in range(1, 5 if tier == "quick" else 6):
        for combo in itertools.product(range(-1, n), repeat=n):
            yield {"n": n, "wraps": list(combo)}


@prop.enumerated("wraps-exhaustive", gen_wraps, max_shards=2)
def check_wraps(case, rec):
    from streamflow.config.config import WorkflowConfig
    from streamflow.core.exception import WorkflowDefinitionException
    from streamflow.deployment.utils import get_binding_config

    n, wraps = case["n"], case["wraps"]
    names = [f"d{i}" for i in range(n)]
    # workdir only on the deployments whose index is even and that wrap nothing or a higher index: varied placement
    deps, m_deps = {}, {}
    for i in range(n):
        e = {"type": "docker", "config": {"image": "busybox"}}
        wd = f"/w{i}" if (i + wraps[i]) % 2 == 0 else None
        if wd:
            e["workdir"] = wd
        if wraps[i] >= 0:
            e["wraps"] = names[wraps[i]] if i % 2 else {"deployment": names[wraps[i]]}
        deps[names[i]] = e
        m_deps[names[i]] = {"type": "docker", "workdir": wd, "wraps": (names[wraps[i]], None) if wraps[i] >= 0 else None}
    cfg = {
        "version": "v1.0",
        "workflows": {"wf": {"type": "cwl", "config": {"file": "main.cwl"},
                             "bindings": [{"step": f"/s{i}", "target": {"deployment": names[i]}} for i in range(n)]}},
        "deployments": deps,
    }
    _validate(copy.deepcopy(cfg))
    has_cycle, cyc_len, tail = ref_cycle(m_deps)
    try:
        wc = WorkflowConfig("wf", copy.deepcopy(cfg))
        raised = False
    except WorkflowDefinitionException:
        raised = True
    if has_cycle != raised:
        raise Violation("C28:cyclic-wraps-accepted" if has_cycle else "C28:acyclic-file-rejected",
                        f"wraps {wraps}: cycle={has_cycle} (length {cyc_len}), exception raised={raised}")
    longest = 0
    if not has_cycle:
        for i in range(n):
            chain = ref_chain(m_deps, names[i])
            longest = max(longest, len(chain))
            inherited = next((m_deps[d]["workdir"] for d in chain if m_deps[d]["workdir"] is not None), None)
            t = get_binding_config(f"/s{i}", "step", wc).targets[0]
            if t.deployment.name != names[i]:
                raise Violation("C28:step:wrong-binding", f"/s{i} -> {t.deployment.name}")
            if t.deployment.workdir != inherited:
                raise Violation("C28:step:deployment-workdir-inheritance", f"wraps {wraps}: {names[i]} chain {chain} -> {t.deployment.workdir!r}, expected {inherited!r}")
            if t.workdir != (inherited or "/tmp/streamflow"):
                raise Violation("C28:step:target-workdir-" + ("inherited" if inherited else "default"), f"{names[i]}: {t.workdir!r}")
    rec.label("cyclic" if has_cycle else f"acyclic-chain={longest}")
    rec.nontrivial((has_cycle and (cyc_len >= 2 or tail)) or longest >= 3)
