"""C16 Recovered runs produce the same outputs as failure-free runs."""
from __future__ import annotations

from vf.core import Prop, Violation

prop = Prop(
    "C16",
    level="fault_enumeration",
    technique=(
        "fault injection over generated workflow shapes on a deterministic event loop: metamorphic oracle (run with "
        "injected failures == failure-free run == plain-Python reference), Hypothesis-drawn failure plans and "
        "external-wait schedules, plus bounded-exhaustive enumeration of single and paired failure points"
    ),
    rule=(
        "scenario = shape (pipeline 1..5 | scatter 1..12 with optional pre/post step | diamond of 2..3 branches | loop 0..6 "
        "iterations; token kind primitive/file/list/object; 1..3 volatile local deployments) + failure plan (multiset of "
        "(job, phase schedule|transfer|execute, soft|fail-stop, times 1..3)) + schedule. Non-trivial = measured from the "
        "execution log: a job without own failure was re-executed (lost data forced an upstream re-execution) or >= 2 "
        "distinct jobs failed; distinct by the whole case."
    ),
    level_text=(
        "Failure points are enumerated exhaustively for pipelines <= 3 and scatters <= 3 (all single points and all pairs) "
        "and sampled for larger shapes, several failing jobs, repeated failures and drawn schedules; every run is compared "
        "with the failure-free run and an independent reference."
    ),
    level_note=(
        "Protocol of tests/test_recovery.py (local volatile deployment, real small files, failure injected in the "
        "schedule/transfer/execute phase; fail-stop deletes the working directory of the job's deployment). A final output "
        "file destroyed by a later fail-stop of another job, with no consumer left, cannot be noticed by any recovery: "
        "such outputs are compared by the content recorded when they were written. Retry limit is set high enough never "
        "to be reached (C17 covers the bound)."
    ),
    assumptions=[
        "schedules are delays at external waits (database calls, commands, transfers, schedule hooks)",
        "commands, transfer and schedule hooks are harness subclasses following tests/utils/workflow.py with in-memory failure counters",
    ],
)
prop.engine = "detloop"


def _survey(fn):
    from vf import recovery_kit as K

    return K.survey(fn)


def _strategy():
    from vf import recovery_kit as K

    return K.st_case(fail_kinds=("soft", "stop", "lose"))


def oracle(case, rec, res, base, K):
    view = K.View(res)
    K.classify(rec, res, view)
    shape = res.shape
    ref = shape.reference_output()
    if res.deadlock is not None:
        raise Violation(f"C16:deadlock:{view.deadlock_kind()}", f"plan {res.plan}\npending tasks at quiescence:\n{res.deadlock}\nlog tail: {res.run.events[-12:]}")
    if res.raised is not None:
        raise Violation("C16:" + ("raised:loop-recovery" if res.shape.kind == "loop" else view.raised_kind()), f"{res.raised}: {res.raised_msg}; plan {res.plan}; versions {res.versions}; limit {res.max_retries}")
    if res.output_tokens != base["tokens"]:
        raise Violation("C16:output-token-count", f"{res.output_tokens} output tokens, failure-free run has {base['tokens']}")
    if res.output != base["output"] or res.output != ref:
        raise Violation("C16:" + view.output_kind(res.output, ref), f"with failures {res.output!r}\nfailure-free {base['output']!r}\nreference {ref!r}\nplan {res.plan}")
    if res.unjustified_lost:
        raise Violation("C16:output-file-missing", f"{res.unjustified_lost} not on disk although no deletion followed their production")
    if not res.terminated_ok:
        raise Violation("C16:output-port-termination", "the output port is not terminated exactly once at the end")
    if res.statuses != base["statuses"]:
        diff = {k: (v, base["statuses"].get(k)) for k, v in res.statuses.items() if base["statuses"].get(k) != v}
        raise Violation("C16:step-status", f"original steps' status differs from the failure-free run: {diff}")
    rec.nontrivial(bool(view.rerun_without_own_failure()) or len(view.failing_jobs) >= 2)
    return view


@prop.given("scenarios", _strategy, quick=1500, thorough=50000)
@_survey
async def check_scenarios(case, rec):
    from vf import recovery_kit as K

    shape = K.Shape(case["shape"])
    plan = K.resolve_plan(shape, case["plan"])
    base = await K.baseline(case["shape"])
    res = await K.run_scenario(case["shape"], plan, max_retries=K.safe_retries(shape, plan), schedule=case["schedule"], wait_order=case.get("wait_order", 0))
    oracle(case, rec, res, base, K)


# ---- bounded-exhaustive tier: all single failure points and all pairs ----------------------------


def _points(shape_desc):
    from vf import recovery_kit as K

    shape = K.Shape(shape_desc)
    pts = []
    for si, step in enumerate(shape.steps):
        for ti, _ in enumerate(shape.tags(step)):
            for phase in K.PHASES:
                for kind in K.KINDS:
                    pts.append([si, ti, phase, kind, 1])
    return pts


def _enumerate(tier):
    import itertools

    shapes = [
        {"kind": "pipeline", "n": 1, "token": "file", "ndep": 1},
        {"kind": "pipeline", "n": 2, "token": "file", "ndep": 1},
        {"kind": "scatter", "width": 2, "pre": 0, "inner": 1, "post": 0, "token": "file", "ndep": 1},
    ]
    if tier == "thorough":
        shapes += [
            {"kind": "pipeline", "n": 3, "token": "file", "ndep": 1},
            {"kind": "pipeline", "n": 2, "token": "list", "ndep": 1},
            {"kind": "pipeline", "n": 2, "token": "primitive", "ndep": 1},
            {"kind": "scatter", "width": 1, "pre": 1, "inner": 1, "post": 1, "token": "file", "ndep": 1},
            {"kind": "scatter", "width": 2, "pre": 1, "inner": 1, "post": 1, "token": "file", "ndep": 1},
            {"kind": "scatter", "width": 3, "pre": 1, "inner": 1, "post": 1, "token": "file", "ndep": 1},
            {"kind": "scatter", "width": 3, "pre": 0, "inner": 2, "post": 0, "token": "file", "ndep": 1},
        ]
    for desc in shapes:  # small first
        pts = _points(desc)
        for p in pts:
            yield {"shape": desc, "plan": [p], "schedule": [], "wait_order": 0}
        for p, q in itertools.combinations(pts, 2):
            if p[:3] == q[:3]:
                continue  # the same (job, phase) with both kinds is one failure point
            yield {"shape": desc, "plan": [p, q], "schedule": [], "wait_order": 0}


@prop.enumerated("all-single-and-paired-failure-points", _enumerate)
@_survey
async def check_enumerated(case, rec):
    from vf import recovery_kit as K

    shape = K.Shape(case["shape"])
    plan = K.resolve_plan(shape, case["plan"])
    base = await K.baseline(case["shape"])
    res = await K.run_scenario(case["shape"], plan, max_retries=K.safe_retries(shape, plan), schedule=case["schedule"], wait_order=0)
    oracle(case, rec, res, base, K)


# ---- many jobs failing repeatedly at the same time (nested recoveries of many jobs at once) --------


def _mass():
    from hypothesis import strategies as st

    from vf import recovery_kit as K

    return st.fixed_dictionaries(
        {
            "shape": st.fixed_dictionaries(
                {
                    "kind": st.just("scatter"), "width": st.sampled_from([6, 8, 10, 11, 12, 13]), "pre": st.integers(0, 1), "inner": st.just(1),
                    "post": st.integers(0, 1), "token": st.sampled_from(["file", "primitive"]), "ndep": st.just(1),
                }
            ),
            "times": st.sampled_from([2, 3, 3]),
            "phase": st.sampled_from(["execute", "execute", "transfer", "schedule"]),
            "skip": st.integers(0, 2),  # how many elements do not fail
            "schedule": K.st_schedule(),
            "wait_order": st.sampled_from([0, 0, 1, 2, 3]),
        }
    )


@prop.given("mass-soft-failures", _mass, quick=80, thorough=3000)
@_survey
async def check_mass(case, rec):
    """all (but 0..2) elements of a scatter fail softly 2..3 times, the first time in the same loop turn
    (execute phase: barrier), so that many recoveries and their nested recoveries are alive at once"""
    from vf import recovery_kit as K

    shape = K.Shape(case["shape"])
    step = next(i for i, s in enumerate(shape.steps) if s["scattered"])
    raw = [[step, t, case["phase"], "soft", case["times"], 1] for t in range(case["skip"], shape.width)]
    plan = K.resolve_plan(shape, raw)
    base = await K.baseline(case["shape"])
    res = await K.run_scenario(case["shape"], plan, max_retries=K.safe_retries(shape, plan), schedule=case["schedule"], wait_order=case.get("wait_order", 0))
    if res.barrier_stuck:
        from vf.core import HarnessError

        raise HarnessError(f"barrier never opened: {sorted(res.run.arrived)} of {sorted(res.run.barrier)}")
    view = oracle(case, rec, res, base, K)
    rec.label(f"failing-jobs={len(plan)}", f"times={case['times']}", f"max-open-recoveries>={min(res.run.max_open // 8 * 8, 32)}")
    rec.nontrivial(res.run.max_open >= 8)


# ---- resumed scatter with >= 11 elements (tags 0.10, 0.11 ... differ from 0.1 only as strings) ------


def _wide():
    from hypothesis import strategies as st

    from vf import recovery_kit as K

    return st.fixed_dictionaries(
        {
            "shape": st.fixed_dictionaries(
                {
                    "kind": st.just("scatter"), "width": st.sampled_from([3, 10, 11, 11, 12, 12, 13]), "pre": st.integers(0, 1),
                    "inner": st.integers(1, 2), "post": st.just(1), "token": st.just("file"), "ndep": st.sampled_from([1, 1, 2]),
                }
            ),
            # the step after the gather fails: the data it needs (all elements, the scattered list) are
            # lost, so the producer side of the scatter and the ScatterStep itself are re-run
            "phase": st.sampled_from(list(K.PHASES)),
            "kind": st.sampled_from(["stop", "stop", "lose"]),
            "times": st.integers(1, 2),
            "victims": st.lists(st.tuples(st.integers(0, 3), st.sampled_from([0, 1, 1, 2, 9, 10, 11, 12])).map(list), min_size=1, max_size=4),
            "extra": K.st_plan(max_points=1, max_times=2, kinds=("soft",)),
            "schedule": K.st_schedule(),
            "wait_order": st.sampled_from([0, 0, 1, 2, 3]),
        }
    )


@prop.given("resumed-wide-scatter", _wide, quick=100, thorough=4000)
@_survey
async def check_wide(case, rec):
    from vf import recovery_kit as K

    shape = K.Shape(case["shape"])
    last = len(shape.steps) - 1
    victims = [[0, 0], *case["victims"]] if case["kind"] == "lose" else []  # the producer of the scattered list is always lost
    raw = [[last, 0, case["phase"], case["kind"], case["times"], 0, victims], *case["extra"]]
    plan = K.resolve_plan(shape, raw)
    base = await K.baseline(case["shape"])
    res = await K.run_scenario(case["shape"], plan, max_retries=K.safe_retries(shape, plan), schedule=case["schedule"], wait_order=case.get("wait_order", 0))
    view = oracle(case, rec, res, base, K)
    scattered = [j for j in shape.jobs() if shape.by_name[j.rsplit("/", 1)[0]]["scattered"]]
    rerun_hi = [j for j in scattered if view.starts.get(j, 0) >= 2 and int(j.rsplit(".", 1)[1]) >= 10]
    rec.label("element>=10-regenerated" if rerun_hi else "no-element>=10-regenerated")
    rec.nontrivial(bool(view.rerun_without_own_failure()))
