"""C11 Released resources return exactly what was reserved."""
from __future__ import annotations

from vf.core import Prop
from vf import sched_model as sm
from vf.props.c10 import classify

prop = Prop(
    "C11",
    level="exploration",
    technique="Hypothesis PBT: the schedule/notify histories of C10 driven to completion on the real DefaultScheduler; the reserved "
              "totals (hardware_locations) are compared with zero cores/memory and with the independently computed measured "
              "usage of the released jobs' directories whenever no job is fireable or running; bounded-exhaustive 2-job subspace",
    rule=(
        "histories: the domain of C10 (vf/sched_model.py), every history drained in a drawn order with duplicated and "
        "out-of-order notifications; directory usage is answered by the instrumented connector from a per-directory table "
        "(multiples of 128 KiB, at most the requested size); for 1 job in 3 the query fails with a non-zero exit status "
        "(directories removed) and the scheduler's documented fallback applies: the whole reservation is returned, nothing "
        "is kept. local-dirs: the same histories on non-stacked deployments whose "
        "locations are local, with real directories (sparse files) measured by the unmodified local branch of "
        "get_storage_usages. Non-trivial (histories) = >= 2 requests granted, >= 1 duplicate notification, >= 1 job released "
        "from FIREABLE without running, and >= 1 quiescent point without fireable/running job at which the totals were "
        "compared; (local-dirs) = >= 2 grants, >= 1 released job with non-zero measured usage, >= 1 such comparison; "
        "(exhaustive-2jobs, see C10) = a comparison happened after a duplicate or a release from FIREABLE. All measured; "
        "distinct by the whole case."
    ),
    level_text="Random search plus a small exhaustive subspace; oracle = exact equality (dyadic values, 1e-9 relative tolerance "
               "on the MiB conversion) of the reserved totals with an independent model at every idle quiescent point, "
               "non-negativity at every quiescent point.",
    level_note="Each allocation attempt has its own directories, so 'measured usage' is unambiguous; interleavings are delays at "
               "connector calls. Known findings (stacked deployments only): requirement multiplied on a shared inner location, "
               "release on the wrong inner mount point when a bind contains an inner mount point, inner storage never released "
               "for multi-location jobs.",
    assumptions=["notification histories follow the callers' protocol (DESIGN R1c)", "values are multiples of 1/8 (exact float arithmetic)",
                 "jobs use at most the storage they requested"],
)
prop.engine = "detloop"


@prop.given("histories", sm.history_case(), quick=4000, thorough=150000)
async def check_histories(case, rec):
    h = await sm.run_history(case, "C11")
    classify(h, rec, "C11")
    s = h.stats
    rec.nontrivial(not h.aborted and (s["grants"] >= 2 and s["dups"] >= 1 and s["rel_fireable"] >= 1 and s.get("idle_points", 0) >= 1))


class LocalHistory(sm.History):
    """Locations are ``local``: the scheduler measures the released jobs' directories with the
    unmodified local branch of ``get_storage_usages`` on real directories (sparse files)."""

    def prepare_dirs(self, paths):
        import os

        for p in paths.values():
            os.makedirs(p, exist_ok=True)
            n = self.world.usage.get(os.path.basename(p), 0)
            if n:
                with open(os.path.join(p, "data.bin"), "wb") as f:
                    f.truncate(n)
                os.makedirs(os.path.join(p, "sub"), exist_ok=True)
                open(os.path.join(p, "sub", "empty"), "wb").close()


@prop.given("local-dirs", sm.history_case(allow_stack=False, max_ops=20), quick=400, thorough=8000)
async def check_local_dirs(case, rec):
    import shutil
    import tempfile

    root = tempfile.mkdtemp(prefix="vf-c11-")
    try:
        h = await sm.run_history(case, "C11", root=root, history_cls=LocalHistory)
    finally:
        shutil.rmtree(root, ignore_errors=True)
    classify(h, rec, "C11")
    s = h.stats
    rec.nontrivial(not h.aborted and s["grants"] >= 2 and s["storage_kept"] >= 1 and s.get("idle_points", 0) >= 1)


@prop.enumerated("exhaustive-2jobs", sm.exhaustive_blocks)
async def check_exhaustive(case, rec):
    await sm.run_exhaustive_block(case, "C11", rec)
