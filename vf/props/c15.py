"""C15 Each scheduled job gets its own existing working directories."""
from __future__ import annotations

from hypothesis import strategies as st

from vf.core import Prop, Violation

prop = Prop(
    "C15",
    level="exploration",
    technique="Hypothesis PBT: generated scatter/execute workflows on local, shell-backed remote and identity-wrapped targets; oracle = host filesystem + data-manager registry + pairwise distinctness",
    rule=(
        "workflows source(list of 1..12) -> scatter -> 1..3 schedule+execute steps (chained or parallel) bound to the local "
        "deployment, a shell-backed fake remote deployment (1..2 locations, targets asking for 1..2 locations) or an identity-"
        "mount wrapper stacked on it, with or without directories fixed by the schedule step (none, input only, all three, all three nested inside the output directory). Non-trivial = some step with >= 2 "
        "jobs scheduled; distinct by the whole case."
    ),
    level_text="Random search; every job token of the run is inspected: three directories exist on the host for each allocated location, are registered as available there, and are pairwise distinct across jobs unless fixed.",
    level_note="All fake locations live on this host (os.path.isdir is the existence oracle); wrapped locations use identity mounts only. Real subprocesses are used, so schedules are whatever asyncio produces; the oracle is timing-independent.",
)

prop.engine = "detloop"

case_strategy = st.fixed_dictionaries(
    {
        "n": st.one_of(st.integers(1, 12), st.sampled_from([1, 2, 10, 12])),
        "steps": st.lists(
            st.fixed_dictionaries(
                {
                    "target": st.sampled_from(["local", "remote", "remote", "wrapped"]),
                    "locations": st.integers(1, 2),
                    "fixed": st.sampled_from(["none", "none", "none", "input", "all", "nested"]),
                    "chain": st.booleans(),
                }
            ),
            min_size=1,
            max_size=3,
        ),
        "remote_locations": st.integers(1, 2),
    }
)


@prop.given("scatter-exec", case_strategy, quick=96, thorough=2000, loop="std", shrink=False, case_timeout=600)
async def check(case, rec):
    await _run(case, rec, local_only=False)


local_case = st.fixed_dictionaries(
    {
        "n": st.one_of(st.integers(1, 12), st.sampled_from([1, 2, 10, 12])),
        "steps": st.lists(
            st.fixed_dictionaries(
                {
                    "target": st.just("local"),
                    "locations": st.just(1),
                    "fixed": st.sampled_from(["none", "none", "input", "all", "nested"]),
                    "chain": st.booleans(),
                }
            ),
            min_size=1,
            max_size=3,
        ),
        "remote_locations": st.just(1),
    }
)


@prop.given("local-deterministic", local_case, quick=400, thorough=20000)
async def check_local(case, rec):
    """Same oracle on the local deployment only, on the deterministic loop: a job that never gets its
    directories (e.g. waiting forever for a location to become available) is an exact deadlock verdict."""
    await _run(case, rec, local_only=True)


async def _run(case, rec, local_only):
    import os
    import shutil
    import tempfile

    from streamflow.core.deployment import LocalTarget, Target
    from streamflow.core.workflow import Workflow
    from streamflow.workflow.executor import StreamFlowExecutor
    from streamflow.workflow.step import ScatterStep
    from streamflow.workflow.token import JobToken, TerminationToken
    from vf.engine import progs
    from vf.engine.harness import ExecLog, exec_pipeline, make_context, to_token
    from vf.fakes.shellremote import deploy_all, deployment_config

    sandbox = os.path.realpath(tempfile.mkdtemp(prefix="vf-c15-"))
    ctx = make_context(workdir=sandbox)
    try:
        nloc = case["remote_locations"]
        remote = deployment_config("R", "vf-shell", locations=nloc, workdir=os.path.join(sandbox, "remote"))
        wrapped = deployment_config("W", "vf-wrap", wraps="R", workdir=os.path.join(sandbox, "wrapped"))
        # the wrapped deployment is resolved by name: deploy both up front (wrapped before wrapper)
        if not local_only:
            await deploy_all(ctx, [remote, wrapped])
        wf = Workflow(context=ctx, name="w", config={})
        src = wf.create_port()
        sc = wf.create_step(ScatterStep, name="/scatter")
        sc.add_input_port("x", src)
        elems = wf.create_port()
        sc.add_output_port("x", elems)
        log = ExecLog()
        cur = elems
        scheds = []
        fixed_of = {}
        for k, sd in enumerate(case["steps"]):
            nl = min(sd["locations"], nloc) if sd["target"] != "local" else 1
            if sd["target"] == "local":
                target = LocalTarget(workdir=os.path.join(sandbox, "local"))
            elif sd["target"] == "remote":
                target = Target(deployment=remote, locations=nl)
            else:
                target = Target(deployment=wrapped, locations=nl)
            kw = {}
            if sd["fixed"] in ("input", "all"):
                kw["input_directory"] = os.path.join(sandbox, f"fixed-in-{k}")
            if sd["fixed"] == "all":
                kw["output_directory"] = os.path.join(sandbox, f"fixed-out-{k}")
                kw["tmp_directory"] = os.path.join(sandbox, f"fixed-tmp-{k}")
            if sd["fixed"] == "nested":  # input and tmp directories fixed inside the fixed output directory
                kw["output_directory"] = os.path.join(sandbox, f"fixed-out-{k}")
                kw["input_directory"] = os.path.join(sandbox, f"fixed-out-{k}", "in")
                kw["tmp_directory"] = os.path.join(sandbox, f"fixed-out-{k}", "tmp")
            inp = cur if sd["chain"] else elems
            out, ex, sched = exec_pipeline(wf, f"/e{k}", {"x": inp}, lambda d: progs.exec_fn(d["x"]), None, log=log, targets=[target], sched_kwargs=kw)
            wf.output_ports[f"o{k}"] = out.name
            scheds.append((sched, target, nl))
            fixed_of[k] = sd["fixed"]
            cur = out
        await wf.save(ctx.database)
        tok = to_token(list(range(case["n"])), "0")
        await tok.save(ctx.database, src.persistent_id)
        src.put(tok)
        src.put(TerminationToken())
        await StreamFlowExecutor(wf).run()
        seen: dict[str, str] = {}
        concurrent = 0
        for k, (sched, target, nl) in enumerate(scheds):
            jobs = [t.value for t in sched.get_output_port().token_list if isinstance(t, JobToken)]
            if len(jobs) != case["n"]:
                raise Violation("C15:job-count", f"step e{k}: {len(jobs)} jobs for {case['n']} elements")
            concurrent = max(concurrent, len(jobs))
            for job in jobs:
                locs = ctx.scheduler.get_locations(job.name)
                if len(locs) != nl:
                    raise Violation("C15:allocated-locations", f"{job.name}: {len(locs)} locations allocated, target asks for {nl}")
                dirs = {"input": job.input_directory, "output": job.output_directory, "tmp": job.tmp_directory}
                for role, d in dirs.items():
                    if not d or not os.path.isdir(d):
                        raise Violation("C15:directory-missing", f"{job.name}: {role} directory {d!r} does not exist")
                    for loc in locs:
                        dls = ctx.data_manager.get_data_locations(d, loc.deployment, loc.name)
                        if not dls:
                            raise Violation("C15:directory-not-registered", f"{job.name}: {role} directory {d} not registered on {loc.deployment}/{loc.name}")
                        if not any(dl.available.is_set() for dl in dls):
                            raise Violation("C15:directory-registered-but-not-available", f"{job.name}: {role} directory {d} is registered on {loc.deployment}/{loc.name} but never marked available")
                    is_fixed = fixed_of[k] in ("all", "nested") or (fixed_of[k] == "input" and role == "input")
                    key = os.path.realpath(d)
                    if key in seen and not is_fixed:
                        raise Violation("C15:directory-shared", f"{job.name} {role} directory {d} is also used by {seen[key]}")
                    if not is_fixed:
                        seen[key] = f"{job.name}:{role}"
        rec.label(*{f"target={sd['target']}" for sd in case["steps"]}, *{f"fixed={sd['fixed']}" for sd in case["steps"]})
        rec.label(f"remote-locations={nloc}", "n>=10" if case["n"] >= 10 else "n<10")
        if any(nl == 2 for _, _, nl in scheds):
            rec.label("multi-location-target")
        rec.nontrivial(concurrent >= 2)
    finally:
        try:
            if not local_only:
                await ctx.deployment_manager.undeploy_all()
        finally:
            await ctx.close()
            shutil.rmtree(sandbox, ignore_errors=True)
