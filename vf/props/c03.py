"""C03 Ports deliver every token to every consumer exactly once, in order.

A case is a *history*: a list of operation records interpreted side by side against real ports
(``Port``, ``FilterTokenPort``, ``InterWorkflowPort`` + boundary target ports) and a plain-Python model.

Operations (indices are state-relative, taken modulo what exists):
``["put", port, tag]``          a producer puts a fresh data token (skipped once that producer has terminated)
``["term", port]``              the producer's ``TerminationToken`` (at most once per port, its last put - R1a)
``["get", port, consumer]``     consumer ``c<k>`` asks for its next token: a task that either completes at once
                                (non-empty queue, or first call of a late subscriber = replay of the history) or
                                stays pending until a later put; one outstanding ``get`` per consumer, none after
                                it has seen a termination (what every step does)
``["rule", port, target, action, tags]``  ``add_inter_port`` on an inter-workflow port (protocol of
                                ``streamflow/recovery/failure_manager.py``: targets never form a cycle; a rule
                                whose target is the port itself is installed on a still empty port, at most one)
"""
from __future__ import annotations

from hypothesis import strategies as st

from vf.core import HarnessError, Prop, Violation

prop = Prop(
    "C03",
    level="exploration",
    technique="Hypothesis PBT over operation histories interpreted against the real ports and an independent plain-Python model (history list + per-consumer cursor + per-rule remaining tag list) on a deterministic event loop",
    rule=(
        "histories of 4..40 operations (put / producer termination / get by 1..4 consumers, issued as pending task or "
        "on a non-empty queue, late subscribers / add boundary rule) over one port of class Port, FilterTokenPort "
        "(tag filter, as ScatterStep.restore installs) or InterWorkflowPort with 0..2 further target ports (Port or "
        "InterWorkflowPort), rules with 1..3 boundary tags and actions PROPAGATE / TERMINATE / both added before or "
        "after tokens. Non-trivial (measured while interpreting) = a port read by >= 2 consumers one of which "
        "subscribed when the history was not empty, or >= 1 boundary rule that fired; distinct by the whole history."
    ),
    level_text="Random search over operation histories; after every operation the real token history of every port and the state of every outstanding get are compared with the model, and at the end every consumer is drained and compared with the full history.",
    level_note=(
        "'Exactly when the boundary tag set is complete' is read as the statement reads: a token put while the rule's "
        "remaining tag set is empty (after removing its own tag) is handed to the boundary port, earlier tokens are not; "
        "tokens that arrive after completion therefore pass as well. Self-targeting rules added to a port that already "
        "holds tokens, several self-targeting rules and cyclic targets are not produced by the recovery code and are "
        "not generated."
    ),
    assumptions=[
        "a producer's TerminationToken is its last put on a port (R1a)",
        "a consumer has at most one outstanding get and stops reading after its first termination token",
        "boundary rules follow the protocol of RollbackFailureManager (non-empty tag lists without repetition, acyclic targets)",
    ],
)
prop.engine = "detloop"

TAGS = ["0.0", "0.1", "0.2", "0.10", "0"]
PROPAGATE, TERMINATE = 1, 2

# ------------------------------------------------------------------------------------------------
# model


class MRule:
    def __init__(self, target: int, action: int, tags: list[str]):
        self.target, self.action, self.tags = target, action, list(tags)
        self.fired = 0


class MPort:
    def __init__(self, kind: str, valid: list[str] | None = None):
        self.kind, self.valid = kind, valid
        self.history: list[tuple] = []  # ("D", token index, tag) | ("T", status name)
        self.rules: list[MRule] = []


class Model:
    def __init__(self, ports: list[MPort]):
        self.ports = ports
        self.stats = {"fired-on-put": 0, "fired-on-replay": 0, "post-completion": 0, "rejected": 0, "chain": 0, "terminate-action": 0}

    def base_put(self, i: int, entry: tuple) -> None:
        self.ports[i].history.append(entry)

    def put(self, i: int, entry: tuple) -> None:
        p = self.ports[i]
        if entry[0] == "T" or p.kind == "port":
            self.base_put(i, entry)
        elif p.kind == "filter":
            if entry[2] in p.valid:
                self.base_put(i, entry)
            else:
                self.stats["rejected"] += 1
        else:
            on_self = False
            for r in p.rules:
                was_complete = not r.tags
                if entry[2] in r.tags:
                    r.tags.remove(entry[2])
                if not r.tags:
                    self.stats["fired-on-put"] += 1
                    self.stats["post-completion"] += was_complete
                    self.fire(i, r, entry)
                    on_self = on_self or r.target == i
            if not on_self:
                self.base_put(i, entry)

    def fire(self, i: int, r: MRule, entry: tuple) -> None:
        r.fired += 1
        send = self.base_put if r.target == i else self.put
        if r.target != i and self.ports[r.target].rules:
            self.stats["chain"] += 1
        if r.action & PROPAGATE:
            send(r.target, entry)
        if r.action & TERMINATE:
            self.stats["terminate-action"] += 1
            send(r.target, ("T", "RECOVERED"))

    def add_rule(self, i: int, target: int, action: int, tags: list[str]) -> None:
        r = MRule(target, action, tags)
        self.ports[i].rules.append(r)
        for entry in [e for e in self.ports[i].history if e[0] == "D"]:
            if entry[2] in r.tags:
                r.tags.remove(entry[2])
            if not r.tags:
                self.stats["fired-on-replay"] += 1
                self.fire(i, r, entry)


# ------------------------------------------------------------------------------------------------
# generator

_put = st.tuples(st.just("put"), st.integers(0, 5), st.sampled_from([0, 0, 1, 1, 2, 2, 3, 4])).map(list)
_term = st.tuples(st.just("term"), st.integers(0, 5)).map(list)
_get = st.tuples(st.just("get"), st.integers(0, 5), st.integers(0, 3)).map(list)
_rule = st.tuples(
    st.just("rule"),
    st.integers(0, 5),
    st.integers(0, 5),
    st.sampled_from([PROPAGATE, PROPAGATE, TERMINATE, PROPAGATE | TERMINATE]),
    st.one_of(*[st.lists(st.sampled_from([0, 0, 1, 1, 2, 3, 4]), min_size=1, max_size=k, unique=True) for k in (1, 2, 3)]),
).map(list)


def _ops(with_rules: bool):
    """[rules installed up front] + body without producer terminations + tail in which producers may terminate"""
    body = [_put] * 5 + [_get] * 5 + ([_rule] * 2 if with_rules else [])
    tail = [_term] * 3 + [_get] * 3 + [_put] + ([_rule] if with_rules else [])
    return st.tuples(
        st.lists(_rule, max_size=3) if with_rules else st.just([]),
        st.lists(st.one_of(*body), min_size=3, max_size=30),
        st.lists(st.one_of(*tail), max_size=8),
    ).map(lambda t: [*t[0], *t[1], *t[2]])


history_case = st.one_of(
    st.fixed_dictionaries({"kind": st.just("port"), "ops": _ops(False), "late": st.booleans()}),
    st.fixed_dictionaries(
        {
            "kind": st.just("filter"),
            "valid": st.lists(st.integers(0, len(TAGS) - 1), max_size=4, unique=True),
            "ops": _ops(False),
            "late": st.booleans(),
        }
    ),
    *[
        st.fixed_dictionaries(
            {
                "kind": st.just("inter"),
                "others": st.lists(st.sampled_from(["port", "inter", "inter"]), max_size=2),
                "ops": _ops(True),
                "late": st.booleans(),
            }
        )
    ]
    * 2,
)


# ------------------------------------------------------------------------------------------------
# interpreter


class Consumer:
    def __init__(self, port: int, name: str, subscribed_at: int):
        self.port, self.name, self.subscribed_at = port, name, subscribed_at
        self.task = None
        self.received: list[tuple] = []
        self.finished = False
        self.was_pending = False


@prop.given("histories", history_case, quick=8000, thorough=400000)
async def check_history(case, rec):
    import asyncio

    from streamflow.core.workflow import Port, Status, Token, Workflow
    from streamflow.workflow.port import BoundaryAction, FilterTokenPort, InterWorkflowPort
    from streamflow.workflow.token import TerminationToken
    from vf.engine.detloop import pending_tasks, settle

    kinds = [case["kind"], *case.get("others", [])]
    valid = [TAGS[i] for i in case.get("valid", [])]
    real: list[Port] = []
    for i, k in enumerate(kinds):
        wf = Workflow(context=None, config={}, name=f"w{i}")  # ports of an inter-workflow rule live in different workflows
        if k == "port":
            real.append(wf.create_port(Port, "p"))
        elif k == "filter":
            real.append(wf.create_port(FilterTokenPort, "p", filter_function=lambda t: t.tag in valid))
        else:
            real.append(wf.create_port(InterWorkflowPort, "p"))
    model = Model([MPort(k, valid) for k in kinds])
    tokens: list[Token] = []
    index_of: dict[int, int] = {}
    producer_done = [False] * len(kinds)
    consumers: dict[tuple[int, int], Consumer] = {}
    labels: set[str] = set()

    def entry_of(tok) -> tuple:
        if isinstance(tok, TerminationToken):
            return ("T", tok.value.name)
        k = index_of.get(id(tok))
        return ("D", k, tok.tag) if k is not None and tokens[k] is tok else ("?", repr(tok))

    def first_termination(i: int) -> int | None:
        return next((k for k, e in enumerate(model.ports[i].history) if e[0] == "T"), None)

    def collect(where: str) -> None:
        """compare every port history and the state of every consumer with the model (at a quiescent point)"""
        for i, p in enumerate(real):
            got = [entry_of(t) for t in p.token_list]
            if got != model.ports[i].history:
                raise Violation(f"C03:history:{kinds[i]}", f"{where}: port {i} holds {got}, model {model.ports[i].history}")
        for c in consumers.values():
            hist = model.ports[c.port].history
            if c.task is not None and c.task.done():
                got = entry_of(c.task.result())
                c.task = None
                k = len(c.received)
                if k >= len(hist) or hist[k] != got:
                    raise Violation(
                        f"C03:delivery:{kinds[c.port]}",
                        f"{where}: consumer {c.name} of port {c.port} received {got} as item {k}; history {hist}, received before {c.received}",
                    )
                c.received.append(got)
                if got[0] == "T":
                    c.finished = True
            elif c.task is not None:
                c.was_pending = True
                if len(c.received) < len(hist):
                    raise Violation(
                        f"C03:lost-wakeup:{kinds[c.port]}",
                        f"{where}: get of consumer {c.name} on port {c.port} is pending although item {len(c.received)} of {hist} was never delivered to it",
                    )

    def issue_get(c: Consumer) -> None:
        c.task = asyncio.create_task(real[c.port].get(c.name))

    try:
        for n, op in enumerate(case["ops"]):
            what, i = op[0], op[1] % len(kinds)
            if what == "put":
                if producer_done[i]:
                    continue
                tag = TAGS[op[2]]
                tok = Token(value=len(tokens), tag=tag)
                index_of[id(tok)] = len(tokens)
                tokens.append(tok)
                model.put(i, ("D", len(tokens) - 1, tag))
                real[i].put(tok)
            elif what == "term":
                if producer_done[i]:
                    continue
                producer_done[i] = True
                labels.add("producer-terminated")
                model.put(i, ("T", "COMPLETED"))
                real[i].put(TerminationToken(Status.COMPLETED))
            elif what == "get":
                c = consumers.get((i, op[2]))
                if c is None:
                    c = consumers[(i, op[2])] = Consumer(i, f"/step{op[2]}/in", len(model.ports[i].history))
                if c.task is not None or c.finished:
                    continue
                labels.add("get-on-non-empty-queue" if len(c.received) < len(model.ports[i].history) else "get-pending")
                issue_get(c)
            elif what == "rule":
                inter = [k for k, kd in enumerate(kinds) if kd == "inter"]
                i = inter[op[1] % len(inter)]
                target = i + op[2] % (len(kinds) - i)
                if target == i and (model.ports[i].history or any(r.target == i for r in model.ports[i].rules)):
                    labels.add("self-rule-skipped")
                    continue
                tags = [TAGS[k] for k in op[4]]
                action = BoundaryAction(0)
                if op[3] & PROPAGATE:
                    action |= BoundaryAction.PROPAGATE
                if op[3] & TERMINATE:
                    action |= BoundaryAction.TERMINATE
                labels.add("self-rule" if target == i else "rule-after-tokens" if model.ports[i].history else "rule-before-tokens")
                model.add_rule(i, target, op[3], tags)
                real[i].add_inter_port(real[target], tags, action)
            else:
                raise HarnessError(f"unknown op {op}")
            await settle()
            collect(f"after op {n} {op}")

        # drain: every consumer (and, if drawn, one more late subscriber per port) reads on until its first
        # termination or until nothing is left
        if case["late"]:
            for i in range(len(kinds)):
                consumers[(i, 99)] = Consumer(i, "/late/in", len(model.ports[i].history))
        for c in consumers.values():
            while not c.finished:
                if c.task is None:
                    issue_get(c)
                await settle()
                if not c.task.done():
                    collect(f"drain of {c.name}@{c.port}")
                    break
                collect(f"drain of {c.name}@{c.port}")
        for c in consumers.values():
            hist = model.ports[c.port].history
            ft = first_termination(c.port)
            exp = hist if ft is None else hist[: ft + 1]
            if c.received != exp:
                raise Violation(f"C03:delivery:{kinds[c.port]}", f"consumer {c.name} of port {c.port} received {c.received}, history {hist}")
            if c.finished and ft == len(hist) - 1:
                # nothing may be observable after the termination: one more read must stay pending
                probe = asyncio.create_task(real[c.port].get(c.name))
                await settle()
                if probe.done():
                    raise Violation("C03:after-termination", f"consumer {c.name} of port {c.port} read {entry_of(probe.result())} after the termination token; history {hist}")
                probe.cancel()
                await asyncio.gather(probe, return_exceptions=True)
            if c.finished:
                real[c.port].close(c.name)  # what BaseStep.terminate does with its input ports
        # classification, measured
        by_port: dict[int, list[Consumer]] = {}
        for c in consumers.values():
            if c.received or c.task is not None:
                by_port.setdefault(c.port, []).append(c)
        late = any(len(cs) >= 2 and any(c.subscribed_at > 0 and c.received for c in cs) for cs in by_port.values())
        fired = sum(r.fired for p in model.ports for r in p.rules)
        rec.label(f"class={case['kind']}", *sorted(labels))
        if late:
            rec.label("late-subscriber")
        if any(c.was_pending and c.received for c in consumers.values()):
            rec.label("pending-get-woken")
        if max((len(cs) for cs in by_port.values()), default=0) >= 3:
            rec.label("consumers>=3")
        for k, v in model.stats.items():
            if v:
                rec.label({"rejected": "filter-rejected", "chain": "rule-chain"}.get(k, "rule-" + k if k.startswith("fired") else k))
        if any(not r.fired for p in model.ports for r in p.rules):
            rec.label("rule-never-fired")
        if any(r.fired and len(r.tags) == 0 and r.target == i for i, p in enumerate(model.ports) for r in p.rules):
            rec.label("self-rule-fired")
        if any(p.kind == "inter" and first_termination(i) is not None and first_termination(i) < len(p.history) - 1 for i, p in enumerate(model.ports)):
            rec.label("tokens-after-termination-on-inter-port")
        rec.nontrivial(late or fired >= 1)
    finally:
        open_tasks = [c.task for c in consumers.values() if c.task is not None and not c.task.done()]
        for t in open_tasks:
            t.cancel()
        if open_tasks:
            await asyncio.gather(*open_tasks, return_exceptions=True)
    if pending_tasks():
        raise Violation("C03:pending-tasks", f"{len(pending_tasks())} tasks outlive the history")
