"""C10 The scheduler never over-allocates a location."""
from __future__ import annotations

from vf.core import Prop
from vf import sched_model as sm

prop = Prop(
    "C10",
    level="exploration",
    technique="Hypothesis PBT of generated schedule/notify histories on the real DefaultScheduler (deterministic loop, chaos "
              "points around connector calls) against an independent per-location capacity accounting; plus a bounded-exhaustive "
              "enumeration of all protocol-conforming histories of a 2-job / 1-location subspace",
    rule=(
        "histories: 1..3 deployments x 1..3 locations (hardware with 1..2 mount points, or slots), 40% stacked wrappers "
        "(outer hardware or slots, inner hardware; one inner location per outer one, or one shared by all), bindings of 1..3 "
        "targets with locations 1..2, <= 8 jobs with dyadic requirements, <= 40 operations (schedule started as a task, notify "
        "following the callers' protocol, settle) and a drawn drain order. Non-trivial = >= 2 jobs were granted, >= 1 request "
        "was found waiting at a quiescent point and some location hosted >= 1 fireable/running job while it waited (measured); "
        "distinct by the whole case. exhaustive tier: every protocol-conforming history of <= N operations over 2 jobs on one "
        "location (slots 1, slots 2, hardware); non-trivial = a request waited."
    ),
    level_text="Random search plus a small exhaustive subspace; the invariant is evaluated from public scheduler state "
               "(job_allocations) and the harness's own requirement records after every scheduler call and at every quiescent point.",
    level_note="Interleavings are those expressible as delays at connector calls; location names are unique across deployments; "
               "locations of one deployment share the mount-point layout; inner locations of stacked deployments have hardware.",
    assumptions=[
        "notification histories follow the callers' protocol (DESIGN R1c)",
        "requirements and capacities are multiples of 1/8 (exact float arithmetic)",
    ],
)
prop.engine = "detloop"


def classify(h: sm.History, rec, pid: str) -> None:
    s = h.stats
    w = h.case["world"]
    rec.label(f"deployments={len(w['deps'])}")
    kinds = {d["kind"] for d in w["deps"]}
    for k in sorted(kinds):
        rec.label(f"capacity={k}")
    for d in w["deps"]:
        if d["stack"]:
            rec.label(f"stacked:{d['stack']['shape']}:outer-{d['kind']}")
    if s["stacked_grants"]:
        rec.label("grant-on-stacked")
    if s["multi_loc"]:
        rec.label("grant-multi-location")
    if s["waited"]:
        rec.label("request-waited")
    if s["waited_granted"]:
        rec.label("waited-then-granted")
    if s["never_fit"]:
        rec.label("request-never-satisfiable")
    if s["dups"]:
        rec.label("duplicate-notification")
    if s["rel_fireable"]:
        rec.label("released-from-fireable")
    if s["resched"]:
        rec.label("rescheduled-after-rollback")
    if s["storage_kept"]:
        rec.label("storage-usage-kept")
    if h.chaos.s:
        rec.label("non-default-schedule")
    if h.aborted:
        rec.label("void-after-release-exception(C11-finding)")
    if not w.get("predeclare", True):
        rec.label("mount-points-resolved-remotely")


@prop.given("histories", sm.history_case(), quick=3000, thorough=100000)
async def check_histories(case, rec):
    h = await sm.run_history(case, "C10")
    classify(h, rec, "C10")
    s = h.stats
    rec.nontrivial(not h.aborted and (s["grants"] >= 2 and s["waited"] >= 1 and s["max_competing"] >= 1))


@prop.enumerated("exhaustive-2jobs", sm.exhaustive_blocks)
async def check_exhaustive(case, rec):
    await sm.run_exhaustive_block(case, "C10", rec)
