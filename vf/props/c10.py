"""C10 The scheduler never over-allocates a location."""
from __future__ import annotations

from vf.core import Prop
from vf import sched_model as sm

prop = Prop(
    "C10",
    level="exploration",
    technique="Hypothesis PBT of generated schedule/notify histories on the real DefaultScheduler (deterministic loop, chaos "
              "points around connector calls) against an independent per-location capacity accounting; plus a bounded-exhaustive "
              "enumeration of all protocol-conforming histories of a 2-job / 1-location subspace",
    rule=(
        "histories: 1..3 deployments x 1..3 locations (hardware with 1..2 mount points, or slots 1..3), 40% of the deployments "
        "stacked (outer hardware or slots, inner hardware; one inner location per outer one, or one shared by all as "
        "DockerComposeConnector builds them; binds none / identity / moved / root), bindings of 1..3 targets with locations 1..2 "
        "and services, <= 8 jobs with dyadic requirements (or none) re-scheduled up to twice after ROLLBACK, 4..40 operations "
        "(schedule started as a task, notify following the callers' protocol, recovery step, settle), a chaos schedule and a "
        "drawn drain order; per job (1 in 3) the release-time directory-usage query of the connector fails (non-zero exit). Non-trivial = >= 2 requests were granted, >= 1 request was found waiting at a quiescent point and "
        "some location hosted a fireable/running job (all measured); distinct by the whole case. exhaustive-2jobs: every "
        "protocol-conforming history of <= 5 (quick) / 6 (thorough) operations, each followed by quiescence, over 2 jobs on one "
        "location in 3 configurations (slots=1; hardware where the jobs exclude each other; hardware where they fit together "
        "until retained usage fills the mount); non-trivial = a request waited."
    ),
    level_text="Random search plus a small exhaustive subspace; the invariant is evaluated from public scheduler state "
               "(job_allocations) and the harness's own requirement records at the completion of every scheduler call and at "
               "every quiescent point.",
    level_note="Interleavings are those expressible as delays at connector calls; location names are unique across deployments; "
               "locations of one deployment share the mount-point layout; inner locations of stacked deployments have hardware; "
               "jobs use at most the storage they requested. Known finding: a 2-location target whose outer locations share one "
               "inner location over-allocates the inner storage (kind C10:over-allocation:shared-inner).",
    assumptions=[
        "notification histories follow the callers' protocol (DESIGN R1c)",
        "requirements and capacities are multiples of 1/8 (exact float arithmetic)",
    ],
)
prop.engine = "detloop"


def classify(h: sm.History, rec, pid: str) -> None:
    s = h.stats
    w = h.case["world"]
    rec.label(f"deployments={len(w['deps'])}")
    kinds = {d["kind"] for d in w["deps"]}
    for k in sorted(kinds):
        rec.label(f"capacity={k}")
    for lab in sorted({f"stacked:{d['stack']['shape']}:outer-{d['kind']}" for d in w["deps"] if d["stack"]}):
        rec.label(lab)
    if s["stacked_grants"]:
        rec.label("grant-on-stacked")
    if s["multi_loc"]:
        rec.label("grant-multi-location")
    if s["waited"]:
        rec.label("request-waited")
    if s["waited_granted"]:
        rec.label("waited-then-granted")
    if s["never_fit"]:
        rec.label("request-never-satisfiable")
    if s["dups"]:
        rec.label("duplicate-notification")
    if s["rel_fireable"]:
        rec.label("released-from-fireable")
    if s["resched"]:
        rec.label("rescheduled-after-rollback")
    if s["storage_kept"]:
        rec.label("storage-usage-kept")
    if h.world.failed_queries:
        rec.label("usage-query-failed-on-release")
    if h.chaos.s:
        rec.label("non-default-schedule")
    if h.aborted:
        rec.label("void-after-over-allocation(C10-finding)" if s.get("void_over_allocation") else "void-after-release-exception(C11-finding)")
    if not w.get("predeclare", True):
        rec.label("mount-points-resolved-remotely")


@prop.given("histories", sm.history_case(), quick=4000, thorough=150000)
async def check_histories(case, rec):
    h = await sm.run_history(case, "C10")
    classify(h, rec, "C10")
    s = h.stats
    rec.nontrivial(not h.aborted and (s["grants"] >= 2 and s["waited"] >= 1 and s["max_competing"] >= 1))


@prop.enumerated("exhaustive-2jobs", sm.exhaustive_blocks)
async def check_exhaustive(case, rec):
    await sm.run_exhaustive_block(case, "C10", rec)
