"""C19 Concurrent recoveries share work and never deadlock."""
from __future__ import annotations

from vf.core import HarnessError, Prop, Violation

prop = Prop(
    "C19",
    level="fault_enumeration",
    technique=(
        "concurrent fault injection on a deterministic event loop: 2..6 sibling jobs sharing a file-producing ancestor "
        "fail-stop in the same loop turn (barrier in the harness command), recoveries interleaved by drawn external-wait "
        "schedules and completion orders; exact deadlock detector; oracle from the harness execution log"
    ),
    rule=(
        "scenario = scatter (2..6 elements, shared ancestor step) or diamond (2..6 parallel branches) + a set of 2..6 sibling "
        "jobs failing fail-stop at the same time (+ optional later failure) + schedule + completion order. Non-trivial = "
        "measured from the log: two recoveries of different jobs were open at the same time and both saw an output of a "
        "common ancestor unavailable; distinct by the whole case."
    ),
    level_text=(
        "Simultaneous failures are enumerated over which siblings fail and sampled over interleavings; termination is "
        "decided by exact quiescence detection, sharing by counting producer executions inside each cluster of overlapping "
        "recoveries."
    ),
    level_note=(
        "Liveness only as 'no deadlock at quiescence of a finite run under the sound delay model'. 'At most once per loss' "
        "is checked per cluster of overlapping recoveries: 1 re-execution + 1 per own failure + 1 per later deletion of a "
        "regenerated instance inside the cluster's time window."
    ),
    assumptions=["schedules are delays at external waits; same-turn completions are handled in a drawn order", "harness commands/steps follow tests/utils/workflow.py"],
)
prop.engine = "detloop"


def _survey(fn):
    from vf import recovery_kit as K

    return K.survey(fn)


def _case():
    from hypothesis import strategies as st

    from vf import recovery_kit as K

    scatter = st.fixed_dictionaries(
        {
            "kind": st.just("scatter"), "width": st.sampled_from([2, 3, 4, 4, 5, 6, 6]), "pre": st.just(1), "inner": st.integers(1, 2),
            "post": st.integers(0, 1), "token": st.just("file"), "ndep": st.sampled_from([1, 1, 2]),
        }
    )
    diamond = st.fixed_dictionaries(
        {
            "kind": st.just("diamond"), "branches": st.lists(st.integers(1, 2), min_size=2, max_size=6),
            "token": st.sampled_from(["file", "file", "list", "object"]), "ndep": st.sampled_from([1, 1, 2]),
        }
    )
    return st.fixed_dictionaries(
        {
            "shape": st.one_of(scatter, diamond),
            # which siblings fail together (bit mask over the siblings, at least two are forced) and how often
            "mask": st.one_of(st.just(63), st.sampled_from([7, 15, 31, 63, 5, 10, 21, 42]), st.integers(0, 63)),
            "times": st.lists(st.integers(1, 2), min_size=6, max_size=6),
            "later": K.st_plan(max_points=1, max_times=2),
            "schedule": K.st_schedule(),
            "wait_order": st.sampled_from([0, 0, 1, 2, 3]),
        }
    )


def build_plan(K, shape, case):
    """barrier failures on the first scattered step (scatter) / the first job of every branch (diamond)"""
    import posixpath

    if shape.kind == "scatter":
        sib = [posixpath.join("/b0", t) for t in shape.tags(shape.by_name["/b0"])]
    else:
        sib = [f"/b{b}_0/0" for b in range(len(shape.desc["branches"]))]
    chosen = [j for i, j in enumerate(sib) if case["mask"] >> i & 1]
    for j in sib:  # at least two
        if len(chosen) >= 2:
            break
        if j not in chosen:
            chosen.append(j)
    plan = [{"job": j, "phase": "execute", "kind": "stop", "times": int(case["times"][sib.index(j)]), "barrier": True} for j in chosen]
    # an optional later failure, only on a strict descendant of a failing sibling (anything else could
    # fire before the barrier opens and keep a sibling from reaching it)
    for p in K.resolve_plan(shape, case["later"]):
        if any(c in shape.ancestors(p["job"]) for c in chosen):
            plan.append(p)
    return plan, chosen


@prop.given("simultaneous-fail-stop", _case, quick=600, thorough=30000)
@_survey
async def check(case, rec):
    from vf import recovery_kit as K

    shape = K.Shape(case["shape"])
    plan, chosen = build_plan(K, shape, case)
    base = await K.baseline(case["shape"])
    res = await K.run_scenario(case["shape"], plan, max_retries=K.safe_retries(shape, plan), schedule=case["schedule"],
                               wait_order=case.get("wait_order", 0))
    view = K.View(res)
    K.classify(rec, res, view)
    rec.label(f"simultaneous={len(chosen)}")
    if res.barrier_stuck:
        raise HarnessError(f"barrier never opened: {sorted(res.run.arrived)} of {sorted(res.run.barrier)}")
    # (i) terminates with the outputs of the failure-free run
    if res.deadlock is not None:
        raise Violation(f"C19:deadlock:{view.deadlock_kind()}", f"plan {plan}\n{res.deadlock}\nlog tail {res.run.events[-8:]}")
    if res.raised is not None:
        raise Violation("C19:" + ("raised:loop-recovery" if res.shape.kind == "loop" else view.raised_kind()), f"{res.raised_msg}; plan {plan}; versions {res.versions}")
    ref = shape.reference_output()
    if res.output != ref or res.output != base["output"]:
        raise Violation("C19:" + view.output_kind(res.output, ref), f"{res.output!r} != {ref!r}; plan {plan}")
    # (iv) nothing outlives the run
    if res.pending:
        raise Violation("C19:pending-tasks", f"tasks pending after the run: {res.pending[:10]}")
    open_wfs = [wf.persistent_id for wf in res.recovery_wfs if any(not s.terminated for s in wf.steps.values())]
    if open_wfs:
        raise Violation("C19:recovery-workflow-not-terminated", f"recovery workflows {open_wfs} have unterminated steps")
    # (ii) sharing: for every loss event (a deletion that destroys an output instance of job U), the
    # recoveries that were entered before U's regeneration started and that need U form a group of
    # *concurrent* failures needing the same lost data: until the last of them returns, U may be started
    # once, plus once per own execute-phase failure of U and per later loss of a regenerated instance
    events = res.run.events
    shared = False
    for d in view.deletes:
        for job in d["lost"]:
            later_starts = [e["seq"] for e in events if e["ev"] == "start" and e["job"] == job and e["seq"] > d["seq"]]
            if not later_starts:
                continue
            t1 = later_starts[0]
            group = [
                e for e in view.recoveries
                if d["seq"] < e["seq"] < t1 and job in shape.ancestors(e["job"]) and job in view.unavailable(e["rid"])
            ]
            if len({e["job"] for e in group}) < 2:
                continue
            shared = True
            end = max((view.exits[e["rid"]]["seq"] if e["rid"] in view.exits else 1 << 60) for e in group)
            window = [e for e in events if d["seq"] < e["seq"] <= end]
            n = sum(1 for e in window if e["ev"] == "start" and e["job"] == job)
            own = sum(1 for e in window if e["ev"] == "recover-enter" and e["job"] == job and e["step"] == job.rsplit("/", 1)[0])
            relost = sum(1 for e in window if e["ev"] == "delete" and job in e["lost"])
            if n > 1 + own + relost:
                running = 0
                concurrent = False
                for e in window:
                    if e["job"] != job:
                        continue
                    if e["ev"] == "start":
                        running += 1
                        concurrent = concurrent or running >= 2
                    elif e["ev"] == "done" or (e["ev"] == "recover-enter" and e["step"] == job.rsplit("/", 1)[0]):
                        running = max(0, running - 1)
                raise Violation(
                    "C19:producer-executed-twice-concurrently" if concurrent else "C19:producer-re-executed-after-regeneration",
                    f"{job} lost at seq {d['seq']}; {len(group)} recoveries {[e['job'] for e in group]} were waiting for it before its "
                    f"regeneration started; until the last of them returned it was started {n} times (own failures {own}, later "
                    f"losses {relost}); plan {plan}; window "
                    f"{[(e['seq'], e['ev'], e['job']) for e in window if e['ev'] in ('start', 'done', 'delete', 'recover-enter', 'recover-exit')][:60]}",
                )
    # (iii) every failed job completes; it completes again only on behalf of a later failure of one of its
    # descendants that found an output instance of it unavailable (the roll-back rule of C18)
    for job in chosen:
        dn = [e["seq"] for e in events if e["ev"] == "done" and e["job"] == job]
        if not dn:
            raise Violation("C19:failed-job-never-completed", f"{job}; plan {plan}")
        justified = sum(
            1 for e in view.recoveries
            if e["seq"] > dn[0] and (
                (job in shape.ancestors(e["job"]) and job in view.unavailable(e["rid"]))
                # the job's own step failing after its command completed (its output vanished before the
                # output processor registered it)
                or (e["job"] == job and e["step"] == job.rsplit("/", 1)[0])
            )
        )
        if len(dn) > 1 + justified:
            raise Violation(
                "C19:failed-job-completed-more-than-once",
                f"{job} completed {len(dn)} times; failures of its descendants with its data unavailable after the first completion: {justified}; plan {plan}",
            )
    rec.nontrivial(shared)
