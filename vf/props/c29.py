"""C29 CWL workflows produce the same outputs as the reference runner (cwltool).

Differential translation validation: generated CWL v1.2 workflows + job objects are run by StreamFlow
(``streamflow.cwl.runner.main``) and by cwltool on the same files, each in a fresh subprocess; the
oracle is "both fail, or both succeed with equal normalised output objects".
"""
from __future__ import annotations

import os
import shutil
import tempfile

from vf.core import Prop, Violation

prop = Prop(
    "C29",
    level="translation_validation",
    technique="differential testing against cwltool on grammar-generated, typed CWL v1.2 workflows (Hypothesis)",
    rule=(
        "a program = a generated workflow document (1..6 steps at the top level, nested sub-workflows up to depth 2) "
        "plus a job object and input files; non-trivial = >= 2 steps (nested ones included) and >= 1 feature from "
        "{scatter, pickValue, linkMerge, when, loop, subworkflow}, both runners completed and a verdict was reached "
        "(known-shapes sub-check: every case that reached a verdict — they are the minimal documents of recorded "
        "findings); distinct by the whole case (document + job + files)"
    ),
    level_text=(
        "Each generated program is executed by StreamFlow and by the reference implementation on identical files; "
        "every disagreement (output object, success/failure, hang) is re-run once and then reported with a "
        "root-cause kind. Agreement is evidence for the explored programs only."
    ),
    level_note=(
        "cwltool 3.2 is the trusted reference (its own bugs would show as disagreements and be analysed by hand). "
        "Container-free subset: ExpressionTool / CommandLineTool (coreutils, sh), no DockerRequirement, no "
        "Directory values, no secondaryFiles; loops use the cwltool:Loop extension (the syntax the repository's "
        "tests/test_cwl_loop.py documents). Document shapes behind recorded findings are excluded from the random "
        "search by construction and exercised by the `known-shapes` sub-check instead."
    ),
    assumptions=[
        "a document/job the reference refuses to validate is a generator bug (harness error), never a finding",
        "File outputs are compared by content hash and size, by basename only when the reference's output "
        "basenames are pairwise distinct (collision renaming in the output directory is unspecified)",
        "numbers are compared by value (1 == 1.0), booleans are not numbers",
        "a StreamFlow run that exceeds max(20 s, 10 x the reference's wall time) twice (second time x3) while the "
        "reference finishes is a hang; any other timeout is inconclusive (exit 2)",
    ],
)

QUICK_PROGRAMS = 38   # 19 generator classes (18 forced features + free mix) x 2
THOROUGH_PROGRAMS = 1500


def _budget(n: int) -> int:
    return max(1, int(n * float(os.environ.get("VERIF_BUDGET", "1"))))


def _seed() -> int:
    return int(os.environ.get("VERIF_SEED", "1") or "1")


def draw_cases(strategy, n: int, seed: int) -> list:
    """n examples of a Hypothesis strategy, a pure function of (strategy, n, seed)."""
    import hypothesis
    from hypothesis import HealthCheck, Phase, given, settings

    out: list = []

    @hypothesis.seed(seed)
    @settings(max_examples=n, database=None, deadline=None, derandomize=False, phases=[Phase.generate],
              suppress_health_check=list(HealthCheck), verbosity=hypothesis.Verbosity.quiet)
    @given(strategy)
    def collect(case):
        if len(out) < n:
            out.append(case)

    collect()
    return out


def focused_cases(make_strategy, foci: list, n: int, seed: int) -> list:
    """n cases, round-robin over the generator classes `foci` (each class forces one listed feature to occur, so
    the class histogram of even a 50-program run covers every feature); class i is drawn with its own seed."""
    per = -(-n // len(foci))
    lists = [draw_cases(make_strategy(focus=f), per, seed * 1000 + i) for i, f in enumerate(foci)]
    out = []
    for j in range(per):
        for lst in lists:
            if j < len(lst) and len(out) < n:
                out.append(lst[j])
    return out


def gen_programs(tier):
    """The runner shards `given` sub-checks by n // 20, i.e. 2 shards for 48 programs of ~3 s each; the case
    list is therefore drawn here (Hypothesis, seeded by VERIF_SEED) and enumerated round-robin over all shards."""
    from vf.cwlgen import gen

    n = _budget(QUICK_PROGRAMS if tier == "quick" else THOROUGH_PROGRAMS)
    yield from focused_cases(gen.workflow_cases, list(gen.FOCI) + [None], n, _seed())


def gen_known_shapes(tier):
    from vf.cwlgen import shapes

    cases = shapes.known_shape_cases(_seed())
    if tier == "quick":
        seen = {"loop-valueFrom-in-repeated-subworkflow"}  # a hang costs >= 80 s: thorough tier only
        for c in cases:  # one case per shape in quick, all variants in thorough
            if c["shape"] not in seen:
                seen.add(c["shape"])
                yield c
    else:
        yield from cases
        yield from shapes.known_shape_cases(_seed() + 17)


def run_case(case, rec, pid: str = "C29"):
    from vf.cwlgen import diffcheck, features, shapes, writer

    m = features.measure(case)
    rec.label(*sorted("feat:" + f for f in m["features"]))
    rec.label(*sorted("intype:" + t for t in m["input_types"]))
    rec.label(f"steps:{min(m['steps'], 7)}" + ("+" if m["steps"] >= 7 else ""))
    if "shape" in case:
        rec.label("shape:" + case["shape"])
    root = tempfile.mkdtemp(prefix="vf-c29-")
    try:
        paths = writer.materialise(case, root)
        out = diffcheck.differential(paths, root)
        if out.flaky:
            rec.label("flaky-disagreement-not-reproduced")
        if out.slow_first:
            rec.label("sf-slow-first-run")
        nontrivial = (m["steps"] >= 2 and bool(m["core"])) or "shape" in case
        if out.symptom is not None:
            rec.nontrivial(nontrivial)
            kind = shapes.kind_for(pid, case, out.symptom, out.detail)
            raise Violation(kind, out.detail)
        rec.label("outcome:" + out.verdict)
        if out.verdict == "agree-ok":
            rec.label(*("out:" + lab for lab in features.output_labels(out.ref.output)))
        rec.nontrivial(nontrivial)
        return out
    finally:
        shutil.rmtree(root, ignore_errors=True)


@prop.enumerated("differential", gen_programs, exhaustive=False)
def check_differential(case, rec):
    run_case(case, rec)


@prop.enumerated("known-shapes", gen_known_shapes, exhaustive=False)
def check_known_shapes(case, rec):
    run_case(case, rec)
