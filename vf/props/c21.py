"""C21 The data-location registry answers consistently with its history.

Histories of registry operations (register_path incl. wrapped locations with mount points,
register_relation, invalidate_location, re-registration, the callers' macro protocols) are interpreted
side by side against ``DefaultDataManager`` and against a reference model of *facts*
``(location, path, types, state)`` written from the property statement. After every operation every
path of a small universe is queried (unfiltered and with every deployment / name / type filter) and
the answer is compared, as a multiset of ``(deployment, name, path)`` with a per-fact type check,
with a *lower* and an *upper* bound computed by the model:

* lower (must be reported): VALID facts registered at the queried path, plus VALID facts that a
  ``register_relation`` call directly related to a fact at that path;
* upper (may be reported): not-invalidated facts whose path is in the relation class (transitive
  closure over paths) of the queried path.

Where the statement is silent the two bounds differ: whether a relation is transitive, and whether
invalidating one side of a relation also invalidates related paths on the same location (facts in that
zone become UNKNOWN: allowed to be reported or not, until they are re-registered — which must make them
available again — or invalidated directly).
"""
from __future__ import annotations

import itertools
import posixpath
from collections import Counter

from hypothesis import strategies as st

from vf.core import HarnessError, Prop, Violation

prop = Prop(
    "C21",
    level="exploration",
    technique=(
        "model-based PBT: generated operation histories interpreted against DefaultDataManager and a reference "
        "model of facts/relations (lower/upper answer bounds), all paths queried after every step; plus a "
        "bounded-exhaustive enumeration of all histories of length 5 / 4 (quick) or 6 / 5 / 5 (thorough) over small 10-op alphabets"
    ),
    rule=(
        "history: 1..16 ops (register_path, handle- and path-addressed register_relation / invalidate_location, "
        "re-registration through stale handles, symlink and multi-location registration protocols of cwl/utils, "
        "get_source_location) over 12 configurations of 1..3 locations (local, remote, same-deployment sibling, "
        "wrappers with identity / non-identity / nested / '/' mounts, a 3-level stack) and 76 paths of depth 1..4; "
        "every path queried with every filter after every op. Non-trivial (measured on the model's event log) = an "
        "invalidation that invalidated a valid fact strictly beneath the invalidated path, or a re-registration of "
        "an invalidated path, or a relation between two valid facts with different (location, path); distinct by "
        "the whole case. exhaustive-small: every op sequence of length 5 over the sibling-locations alphabet and of "
        "length 4 over the container alphabet (thorough: lengths 6 and 5, plus a symlink/local alphabet of length 5), all involved paths "
        "queried after every op; non-trivial by the same rule, counted per history. transfer-window: the registry steps of transfer_data (destination put as "
        "PRIMARY and not available, related to the source when read-only; afterwards re-typed PRIMARY / SYMBOLIC_LINK or "
        "left INVALID, related to the wrapped inner path, set available) around a window in which 1..4 "
        "get_source_location tasks start at drawn points between 0..4 other history ops and an optional invalidation; "
        "non-trivial = a lookup that was blocked on the in-flight destination and the destination did not end PRIMARY."
    ),
    level_text=(
        "Random search over histories plus certainty inside the enumerated op alphabets; the oracle is an "
        "independent fact model derived from the property statement (no StreamFlow code)."
    ),
    level_note=(
        "Where the statement is silent (transitivity of relations, fate of related paths on the invalidated "
        "location, data type kept when a valid path is registered again with another type) both behaviours are "
        "accepted through lower/upper bounds. transfer_data is out of scope here (C22)."
    ),
    assumptions=[
        "callers invalidate (location, path) pairs taken from DataLocation objects they obtained from the registry",
        "relations are registered between DataLocation objects returned by register_path / get_data_locations",
        "the registry needs no deployed connector for remote locations (deployment_manager.get_connector may return None)",
    ],
)
prop.engine = "detloop"

TYPES = ["PRIMARY", "SYMBOLIC_LINK"]

# ---- locations ---------------------------------------------------------------------------------

LOCDEFS: dict[str, dict] = {
    "L": {"dep": "__LOCAL__", "name": "__LOCAL__", "local": True},
    "r0": {"dep": "r", "name": "r0"},
    "r1": {"dep": "r", "name": "r1"},
    "s0": {"dep": "s", "name": "s0"},
    # container on r0: one identity and one non-identity bind mount
    "w0": {"dep": "w", "name": "w0", "wraps": "r0", "mounts": {"/m": "/m", "/c": "/r"}},
    # container on the local machine
    "wl": {"dep": "wl", "name": "wl0", "wraps": "L", "mounts": {"/m": "/m", "/c": "/q"}},
    # queue-manager style wrapper: everything is shared
    "q0": {"dep": "q", "name": "q0", "wraps": "r0", "mounts": {"/": "/"}},
    # nested mount points: the longest one wins
    "wn": {"dep": "wn", "name": "wn0", "wraps": "r0", "mounts": {"/c": "/r", "/c/b": "/q", "/m": "/m"}},
    # container inside a queue-manager job on r0: three levels
    "ww": {"dep": "ww", "name": "ww0", "wraps": "q0", "mounts": {"/c": "/r", "/m": "/m"}},
}
CONFIGS: list[list[str]] = [
    ["L"],
    ["r0"],
    ["L", "r0"],
    ["r0", "r1"],
    ["r0", "s0"],
    ["L", "r0", "s0"],
    ["r0", "w0"],
    ["L", "r0", "w0"],
    ["r0", "r1", "w0"],
    ["L", "wl"],
    ["r0", "wn"],
    ["r0", "q0", "ww"],
]
LOC_BY_ID = {(d["dep"], d["name"]): k for k, d in LOCDEFS.items()}

ROOTS = ["m", "c", "t", "r", "q"]
COMPS = ["a", "b"]


def mkpath(spec) -> str:
    """[root, c1, c2, c3][:depth] -> '/m/a/b'; [] or None -> '/'"""
    if not spec:
        return "/"
    parts = [ROOTS[spec[0] % len(ROOTS)]] + [COMPS[c % len(COMPS)] for c in spec[1:4]]
    return "/" + "/".join(parts)


UNIVERSE = ["/"] + [
    "/" + "/".join([r, *cs]) for r in ROOTS for d in range(0, 4) for cs in itertools.product(COMPS, repeat=d)
]


def under(p: str, q: str) -> bool:
    """p is q or lies beneath q"""
    return q == "/" or p == q or p.startswith(q + "/")


def ancestors(p: str) -> list[str]:
    out = []
    while p != "/":
        p = posixpath.dirname(p)
        out.append(p)
    return out


def inner_of(lockey: str, path: str) -> str | None:
    """mount semantics: the longest mount point that contains the path maps it into the wrapped location"""
    d = LOCDEFS[lockey]
    best = None
    for m, t in d.get("mounts", {}).items():
        if under(path, m) and (best is None or len(m) > len(best[0])):
            best = (m, t)
    if best is None or "wraps" not in d:
        return None
    rel = path[len(best[0]) :].lstrip("/")
    return posixpath.join(best[1], rel) if rel else best[1]


# ---- reference model -----------------------------------------------------------------------------


class Fact:
    __slots__ = ("id", "loc", "path", "types", "state", "revived", "rereg", "rel_hit", "rel_rereg", "shadowed", "dup", "stale_at", "res_rereg", "via", "preempt_at")

    def __init__(self, fid: int, loc: str, path: str, typ: str):
        self.id = fid
        self.loc = loc
        self.path = path
        self.types = {typ}
        self.state = "V"  # V valid | U unknown (statement silent) | I invalidated
        self.revived = False  # re-registered while UNKNOWN
        self.rereg = False  # registered again after an invalidation of the same (loc, path)
        self.rel_hit = False  # when invalidated, a related path on the same location was invalidated with it
        self.rel_rereg = False  # registered again after such an invalidation
        self.shadowed = False  # invalidated through an ancestor while a fact in between was UNKNOWN / rel_hit
        self.dup = False  # a second DataLocation object with this key was handed to register_relation
        self.stale_at: set[str] = set()  # related paths an invalidated predecessor of this fact was attached to
        self.res_rereg = False  # registered after a relation was registered over its invalidated predecessor
        self.via: Fact | None = None  # (ancestor directory) the flagged fact beneath it whose registration created it
        self.preempt_at: set[str] = set()  # related paths where an invalidated predecessor was related first

    def flagged(self) -> str | None:
        """classification of a missing fact by the history of its (location, path)"""
        if self.revived or self.rel_rereg:
            return "C21:related-invalidation:reregistration-ignored"
        if self.res_rereg:
            return "C21:relation-over-invalidated-location:reregistration-ignored"
        return None

    @property
    def key(self):
        d = LOCDEFS[self.loc]
        return (d["dep"], d["name"], self.path)

    def __repr__(self):
        return f"{self.loc}:{self.path}[{'|'.join(sorted(self.types))},{self.state}{',revived' if self.revived else ''}]"


class Model:
    def __init__(self) -> None:
        self.nfacts = 0
        self.cur: dict[tuple[str, str], Fact] = {}  # the not-invalidated fact of a (loc, path), if any
        self.dead: dict[tuple[str, str], Fact] = {}  # the last invalidated fact of a (loc, path)
        self.must: dict[str, list[Fact]] = {}  # path -> facts a relation directly attached to it
        self.parent: dict[str, str] = {}  # union-find over paths: relation classes
        self.resurrected: set[tuple[str, str]] = set()  # invalidated keys a later relation was registered over
        self.events: Counter = Counter()

    # relation classes
    def find(self, p: str) -> str:
        self.parent.setdefault(p, p)
        root = p
        while self.parent[root] != root:
            root = self.parent[root]
        while self.parent[p] != root:
            self.parent[p], p = root, self.parent[p]
        return root

    def union(self, a: str, b: str) -> None:
        ra, rb = self.find(a), self.find(b)
        if ra != rb:
            self.parent[max(ra, rb)] = min(ra, rb)

    # registration
    def _touch(self, loc: str, path: str, typ: str, explicit: bool) -> Fact:
        f = self.cur.get((loc, path))
        if f is None:
            self.nfacts += 1
            f = Fact(self.nfacts, loc, path, typ)
            self.cur[(loc, path)] = f
            self.find(path)
            if (loc, path) in self.dead:
                f.rereg = True
                d = self.dead[(loc, path)]
                f.rel_rereg = d.rel_hit
                f.stale_at = d.stale_at | {p for p, fs in self.must.items() if d in fs and p != path}
                f.res_rereg = (loc, path) in self.resurrected
                if explicit:
                    self.events["rereg-after-invalidation"] += 1
        elif f.state == "V":
            if explicit:
                # statement silent on which type wins: both accepted
                f.types.add(typ)
                self.events["rereg-while-valid"] += 1
        else:  # UNKNOWN: must be available again; a fresh registration may have lost the old relations
            f.state = "V"
            f.revived = True
            f.types.add(typ)
            for p, fs in self.must.items():
                if p != path and f in fs:
                    fs.remove(f)
            self.events["rereg-after-related-invalidation" if explicit else "ancestor-revived"] += 1
        return f

    def register_one(self, loc: str, path: str, typ: str) -> Fact:
        f = self._touch(loc, path, typ, True)
        blame = f if f.flagged() else None
        for a in ancestors(path):
            before = self.cur.get((loc, a))
            g = self._touch(loc, a, "PRIMARY", False)
            if g is not before and blame is not None:
                g.via = blame  # classification only: created as the ancestor of a flagged registration
            if blame is None and g.flagged():
                blame = g
        return f

    def register(self, loc: str, path: str, typ: str) -> Fact:
        pre = self.cur.get((loc, path))
        main_dup = pre is not None  # VALID, or UNKNOWN (the code may have kept it valid): a second object is possible
        main = self.register_one(loc, path, typ)
        cur_loc, p = loc, path
        while (q := inner_of(cur_loc, p)) is not None:
            cur_loc, p = LOCDEFS[cur_loc]["wraps"], q
            pre = self.cur.get((cur_loc, p))
            inner_dup = pre is not None  # VALID, or UNKNOWN (the code may have kept it valid): a second object is possible
            inner = self.register_one(cur_loc, p, typ)
            self.relate(main, inner, main_dup, inner_dup)
            self.events["inner-registered"] += 1
        return main

    def relate(self, a: Fact, b: Fact, a_dup: bool = False, b_dup: bool = False) -> None:
        # classification only: invalidated facts carrying the destination path that hang on the source path
        for key, d in self.dead.items():
            if key not in self.cur and d.path == b.path and (a.path == d.path or self.find(a.path) == self.find(d.path)):
                self.resurrected.add(key)
        self.union(a.path, b.path)
        if a is b:
            return
        if a_dup:
            a.dup = True
        if b_dup:
            b.dup = True
        if a.state == "V" and b.state == "V":
            for e, o in ((a, b), (b, a)):
                if e.rereg:
                    e.preempt_at.add(o.path)
            for p, f in ((a.path, b), (b.path, a)):
                fs = self.must.setdefault(p, [])
                if f not in fs:
                    fs.append(f)
            self.events["relation-same-location" if a.loc == b.loc else "relation-cross-location"] += 1

    # invalidation
    def invalidate(self, loc: str, path: str) -> None:
        mine = [f for (l, _), f in self.cur.items() if l == loc]
        definite = [f for f in mine if under(f.path, path)]
        # over-approximation of what may additionally be hit on this location: paths related to anything at or
        # beneath an invalidated path, and everything beneath those, to a fixpoint
        known = {f.path for f in self.cur.values()} | {k[1] for k in self.dead}
        roots = {path}
        while True:
            classes = {self.find(p) for p in known if any(under(p, t) for t in roots)}
            new = {f.path for f in mine if self.find(f.path) in classes and not any(under(f.path, t) for t in roots)}
            if not new:
                break
            roots |= new
        maybe = [f for f in mine if f not in definite and any(under(f.path, t) for t in roots)]
        # facts whose object may have been flagged through the node of a related path instead of their own
        zone = {p for p in known if any(under(p, t) for t in roots)}
        zone_classes = Counter(self.find(p) for p in zone)
        for f in definite + maybe:
            f.rel_hit = f.state == "U" or zone_classes[self.find(f.path)] > (1 if f.path in zone else 0)
        weak = [f for f in definite if f.rel_hit and f.path != path]
        beneath = 0
        for f in definite:
            if f.state == "V" and f.path != path:
                beneath += 1
            f.shadowed = any(h.path != f.path and under(f.path, h.path) for h in weak)
            f.state = "I"
            del self.cur[(loc, f.path)]
            self.dead[(loc, f.path)] = f
        for f in maybe:
            if f.state == "V":
                f.state = "U"
                self.events["fact-unknown"] += 1
        if beneath:
            self.events["invalidate-beneath"] += 1
        self.events["invalidate-root" if path == "/" else "invalidate-subtree" if beneath else "invalidate-leaf" if definite else "invalidate-noop"] += 1

    # answers
    def index(self):
        by_class: dict[str, list[Fact]] = {}
        for f in self.cur.values():
            by_class.setdefault(self.find(f.path), []).append(f)
        return by_class

    def bounds(self, by_class, path: str, dep, name, typ):
        def ok(f: Fact) -> bool:
            d = LOCDEFS[f.loc]
            return (dep is None or d["dep"] == dep) and (name is None or d["name"] == name)

        upper = [f for f in by_class.get(self.find(path), []) if ok(f) and (typ is None or typ in f.types)] if path in self.parent else []
        lower = [
            f
            for f in upper
            if f.state == "V" and (f.path == path or f in self.must.get(path, ())) and (typ is None or f.types == {typ})
        ]
        return lower, upper


# ---- oracle ------------------------------------------------------------------------------------------


def describe(a) -> str:
    return f"{a.deployment}/{a.name}:{a.path}[{a.data_type.name}]"


def check_answer(model: Model, by_class, path, dep, name, typ, answer, ctxmsg) -> None:
    lower, upper = model.bounds(by_class, path, dep, name, typ)
    if not answer and not lower:
        return

    def q() -> str:
        return (
            f"get_data_locations({path!r}, deployment={dep!r}, location_name={name!r}, data_type={typ}) = "
            f"{[describe(a) for a in answer]}; model: must {lower}, may {upper}. {ctxmsg()}"
        )

    cnt: Counter = Counter()
    for a in answer:
        lk = LOC_BY_ID.get((a.deployment, a.name))
        cnt[(a.deployment, a.name, a.path)] += 1
        tname = a.data_type.name
        if tname == "INVALID":
            raise Violation("C21:answer:invalid-location-returned", q())
        if (dep is not None and a.deployment != dep) or (name is not None and a.name != name) or (typ is not None and tname != typ):
            raise Violation("C21:answer:filter-ignored", q())
        f = model.cur.get((lk, a.path)) if lk else None
        if f is None:
            d = model.dead.get((lk, a.path)) if lk else None
            if d is None:
                raise Violation("C21:extra:never-registered", q())
            if d.dup:
                raise Violation("C21:extra:second-object-of-a-valid-path-survives-invalidation", q())
            if d.shadowed:
                raise Violation("C21:related-invalidation:subtree-survives-ancestor-invalidation", q())
            raise Violation("C21:extra:invalidated-location-still-reported", q())
        if f not in upper:
            if typ is not None and tname not in f.types:
                raise Violation("C21:answer:type", q())
            raise Violation("C21:extra:unrelated-location-reported", q())
        if tname not in f.types:
            raise Violation("C21:answer:type", q())
    if len(cnt) != len(answer):
        raise Violation("C21:answer:duplicate", q())
    for f in lower:
        if f.key not in cnt:
            if kind := (f.flagged() or (f.via.flagged() if f.via is not None else None)):
                raise Violation(kind, q())
            if f.path != path:
                if path in f.stale_at:
                    raise Violation("C21:related-invalidation:relation-after-reregistration-ignored", q())
                if path in f.preempt_at:
                    raise Violation("C21:relation-over-invalidated-location:valid-location-not-related", q())
                raise Violation("C21:missing:related-location", q())
            if f.rereg:
                raise Violation("C21:missing:reregistration-ignored", q())
            raise Violation("C21:missing:registered-location", q())


class Interp:
    """interprets one history against the real registry and the model"""

    def __init__(self, cfg: list[str], dm, full_queries: bool = True):
        from streamflow.core.data import DataType
        from streamflow.core.deployment import ExecutionLocation

        self.DataType = DataType
        self.cfg = cfg
        self.dm = dm
        self.model = Model()
        self.full = full_queries
        self.locs: dict[str, object] = {}
        need = list(cfg)
        for k in cfg:  # wrapped locations exist even if no one addresses them directly
            while "wraps" in LOCDEFS[k] and LOCDEFS[k]["wraps"] not in need:
                k = LOCDEFS[k]["wraps"]
                need.append(k)

        def build(k):
            if k not in self.locs:
                d = LOCDEFS[k]
                self.locs[k] = ExecutionLocation(
                    name=d["name"],
                    deployment=d["dep"],
                    local=d.get("local", False),
                    mounts=dict(d.get("mounts", {})),
                    stacked="wraps" in d,
                    wraps=build(d["wraps"]) if "wraps" in d else None,
                )
            return self.locs[k]

        for k in need:
            build(k)
        self.all_locs = need
        self.handles: list[tuple[object, Fact, bool]] = []
        self.log: list[str] = []
        self.universe = UNIVERSE

    # -- helpers
    def ctxmsg(self) -> str:
        return "history: " + "; ".join(self.log)

    def lockey(self, i: int) -> str:
        return self.cfg[i % len(self.cfg)]

    def fact_of(self, obj) -> Fact | None:
        lk = LOC_BY_ID.get((obj.deployment, obj.name))
        return self.model.cur.get((lk, obj.path))

    def resolve(self, lk: str, path: str):
        """the DataLocation a caller holds for (location, path): first answer carrying that very path"""
        d = LOCDEFS[lk]
        for a in self.dm.get_data_locations(path, d["dep"], d["name"]):
            if a.path == path:
                return a
        return None

    def do_register(self, lk: str, path: str, typ: str, relmode: int = 0):
        pre = self.model.cur.get((lk, path))
        dangling = pre is not None  # VALID, or UNKNOWN (the code may have kept it valid): a second object is possible
        relpath = [None, posixpath.basename(path) or None, path][relmode % 3]
        self.log.append(f"register_path({lk},{path},{typ})")
        obj = self.dm.register_path(self.locs[lk], path, relpath, self.DataType[typ])
        f = self.model.register(lk, path, typ)
        if obj.path != path or (obj.deployment, obj.name) != (LOCDEFS[lk]["dep"], LOCDEFS[lk]["name"]) or obj.data_type.name not in f.types:
            raise Violation("C21:register:returned-location", f"register_path({lk},{path},{typ}) returned {describe(obj)}. {self.ctxmsg()}")
        self.handles.append((obj, f, dangling))
        return obj, f, dangling

    def do_relate(self, a, fa: Fact, adup: bool, b, fb: Fact, bdup: bool) -> None:
        if fa is fb or fa.state == "I" or fb.state == "I":
            return
        if a.data_type.name == "INVALID" or b.data_type.name == "INVALID":
            return  # callers relate locations they just registered or were just given by get_data_locations
        if fa.loc == fb.loc and fa.path != fb.path and under(fa.path, fb.path):
            return  # (target, link) on one location: a link cannot be an ancestor directory of its own target
        self.log.append(f"register_relation({fa.loc}:{fa.path}{'(2nd object)' if adup else ''},{fb.loc}:{fb.path}{'(2nd object)' if bdup else ''})")
        self.dm.register_relation(a, b)
        self.model.relate(fa, fb, adup, bdup)

    def do_invalidate(self, obj) -> None:
        lk = LOC_BY_ID[(obj.deployment, obj.name)]
        self.log.append(f"invalidate_location({lk},{obj.path})")
        try:
            self.dm.invalidate_location(obj.location, obj.path)
        except RecursionError:
            facts = list(self.model.cur.values()) + list(self.model.dead.values())
            second = any(f.dup and f.loc == lk for f in facts)
            raise Violation(
                "C21:invalidate:infinite-recursion" + (":second-object-of-an-ancestor-related-beneath-it" if second else ""),
                f"invalidate_location({lk},{obj.path}) exceeds the recursion limit. {self.ctxmsg()}",
            ) from None
        self.model.invalidate(lk, obj.path)

    # -- one op
    def step(self, op) -> None:
        kind = op[0]
        m = self.model
        if kind == "reg":
            self.do_register(self.lockey(op[1]), mkpath(op[2]), TYPES[op[3] % 2], op[4] if len(op) > 4 else 0)
        elif kind == "rereg":
            if self.handles:
                obj, f, _ = self.handles[op[1] % len(self.handles)]
                self.do_register(f.loc, f.path, TYPES[op[2] % 2], 2)
        elif kind == "rel":
            if len(self.handles) >= 2:
                a, fa, ad = self.handles[op[1] % len(self.handles)]
                b, fb, bd = self.handles[op[2] % len(self.handles)]
                self.do_relate(a, fa, ad, b, fb, bd)
        elif kind == "relp":
            la, pa, lb, pb = self.lockey(op[1]), mkpath(op[2]), self.lockey(op[3]), mkpath(op[4])
            a, b = self.resolve(la, pa), self.resolve(lb, pb)
            if a is not None and b is not None:
                self.do_relate(a, m.cur[(la, pa)], False, b, m.cur[(lb, pb)], False)
        elif kind == "inv":
            if self.handles:
                self.do_invalidate(self.handles[op[1] % len(self.handles)][0])
        elif kind == "invp":
            a = self.resolve(self.lockey(op[1]), mkpath(op[2]))
            if a is not None:
                self.do_invalidate(a)
        elif kind == "invq":  # FileToken.is_available: a primary location of the path turns out to be gone
            ans = self.dm.get_data_locations(mkpath(op[1]), data_type=self.DataType.PRIMARY)
            if ans:
                self.do_invalidate(ans[op[2] % len(ans)])
        elif kind == "pick":
            ans = self.dm.get_data_locations(mkpath(op[1]))
            if ans:
                a = ans[op[2] % len(ans)]
                if (fa := self.fact_of(a)) is not None:
                    self.handles.append((a, fa, False))
        elif kind == "link":  # cwl.utils._register_path on a symbolic link: real path, link path, relation
            lk, real, link = self.lockey(op[1]), mkpath(op[2]), mkpath(op[3])
            if not under(real, link):
                d = LOCDEFS[lk]
                ans = self.dm.get_data_locations(real, deployment=d["dep"])
                if ans:
                    a, fa, ad = ans[0], self.fact_of(ans[0]), False
                else:
                    a, fa, ad = self.do_register(lk, real, "PRIMARY", 1)
                b, fb, bd = self.do_register(lk, link, "SYMBOLIC_LINK", 1)
                self.do_relate(a, fa, ad, b, fb, bd)
        elif kind == "spread":  # cwl.utils.search_in_parent_locations: same data on several locations, chained
            prev = None
            for i in op[2][:3]:
                curr = self.do_register(self.lockey(i), mkpath(op[1]), TYPES[op[3] % 2], 1)
                if prev is not None and prev[1].loc != curr[1].loc:
                    self.do_relate(*prev, *curr)
                prev = curr
        elif kind == "src":
            pass  # handled by the caller (async)
        else:
            raise HarnessError(f"unknown op {op!r}")

    # -- queries
    def check_all(self) -> None:
        m = self.model
        by_class = m.index()
        deps = sorted({LOCDEFS[k]["dep"] for k in self.all_locs})
        for path in self.universe:
            ans = self.dm.get_data_locations(path)
            check_answer(m, by_class, path, None, None, None, ans, self.ctxmsg)
            if not self.full or (not ans and path not in m.parent):
                continue
            for typ in TYPES:
                check_answer(m, by_class, path, None, None, typ, self.dm.get_data_locations(path, data_type=self.DataType[typ]), self.ctxmsg)
            for dep in deps:
                check_answer(m, by_class, path, dep, None, None, self.dm.get_data_locations(path, dep), self.ctxmsg)
            for k in self.all_locs:
                d = LOCDEFS[k]
                check_answer(m, by_class, path, d["dep"], d["name"], None, self.dm.get_data_locations(path, d["dep"], d["name"]), self.ctxmsg)
                check_answer(m, by_class, path, None, d["name"], None, self.dm.get_data_locations(path, location_name=d["name"]), self.ctxmsg)
                for typ in TYPES:
                    check_answer(m, by_class, path, d["dep"], d["name"], typ, self.dm.get_data_locations(path, d["dep"], d["name"], self.DataType[typ]), self.ctxmsg)

    async def check_source(self, path: str, dst_dep: str) -> str:
        m = self.model
        r = await self.dm.get_source_location(path, dst_dep)
        lower, upper = m.bounds(m.index(), path, None, None, "PRIMARY")
        q = f"get_source_location({path!r}, {dst_dep!r}) = {describe(r) if r is not None else None}; model: valid primary copies {lower}, possible {upper}. {self.ctxmsg()}"
        if r is None:
            if lower:
                raise Violation("C21:source:none-although-a-valid-primary-exists", q)
            return "none-possible" if upper else "none"
        lk = LOC_BY_ID.get((r.deployment, r.name))
        f = m.cur.get((lk, r.path))
        if r.data_type.name != "PRIMARY" or f is None or f not in upper:
            raise Violation("C21:source:not-a-valid-primary-copy", q)
        return "same-deployment" if r.deployment == dst_dep else "local" if r.location.local else "other"


# ---- sub-check 1: random histories ----------------------------------------------------------------------

path_s = st.tuples(st.sampled_from([0, 0, 1, 1, 2, 2, 3, 4]), st.lists(st.sampled_from([0, 0, 1]), max_size=3)).map(lambda t: [t[0], *t[1]])
small = st.integers(0, 7)
loc_i = st.integers(0, 2)
typ_i = st.sampled_from([0, 0, 0, 1])
reg_s = st.tuples(st.just("reg"), loc_i, path_s, typ_i, st.integers(0, 2))
link_s = st.tuples(st.just("link"), loc_i, path_s, path_s)
spread_s = st.tuples(st.just("spread"), path_s, st.lists(loc_i, min_size=2, max_size=3), typ_i)
op_s = st.one_of(
    reg_s,
    reg_s,
    st.tuples(st.just("rereg"), small, typ_i),
    st.tuples(st.just("rel"), small, small),
    st.tuples(st.just("relp"), loc_i, path_s, loc_i, path_s),
    st.tuples(st.just("inv"), small),
    st.tuples(st.just("inv"), small),
    st.tuples(st.just("invp"), loc_i, path_s),
    st.tuples(st.just("invq"), path_s, small),
    st.tuples(st.just("pick"), st.one_of(path_s, st.just([])), small),
    link_s,
    spread_s,
    st.tuples(st.just("src"), path_s, st.integers(0, 3)),
).map(list)
# a history starts with something being registered (every other op is a no-op on an empty registry)
history_case = st.fixed_dictionaries(
    {
        "cfg": st.integers(0, len(CONFIGS) - 1),
        "ops": st.tuples(st.one_of(reg_s, reg_s, link_s, spread_s).map(list), st.lists(op_s, min_size=1, max_size=15)).map(
            lambda t: [t[0], *t[1]]
        ),
    }
)


def classify(rec, it: Interp, cfg, src_classes) -> bool:
    ev = it.model.events
    rec.label(f"locations={len(cfg)}")
    if any("wraps" in LOCDEFS[k] for k in cfg):
        rec.label("wrapped-location")
    for k in (
        "inner-registered",
        "relation-same-location",
        "relation-cross-location",
        "invalidate-root",
        "invalidate-subtree",
        "invalidate-leaf",
        "invalidate-noop",
        "fact-unknown",
        "rereg-after-invalidation",
        "rereg-after-related-invalidation",
        "ancestor-revived",
        "rereg-while-valid",
    ):
        if ev[k]:
            rec.label(k)
    for c in sorted(set(src_classes)):
        rec.label(f"source:{c}")
    if any(f.dup for f in list(it.model.cur.values()) + list(it.model.dead.values())):
        rec.label("second-object-related")
    depth = max((p.count("/") for (_, p) in list(it.model.cur) + list(it.model.dead)), default=0)
    rec.label(f"depth={depth}")
    return bool(ev["invalidate-beneath"] or ev["rereg-after-invalidation"] or ev["relation-same-location"] or ev["relation-cross-location"])


@prop.given("history", history_case, quick=4000, thorough=200000, max_shards=8)
async def check_history(case, rec):
    from vf.engine.harness import make_context

    cfg = CONFIGS[case["cfg"] % len(CONFIGS)]
    ctx = make_context()
    try:
        it = Interp(cfg, ctx.data_manager)
        src_classes = []
        deps = sorted({LOCDEFS[k]["dep"] for k in it.all_locs}) + ["elsewhere"]
        try:
            it.check_all()
            for op in case["ops"]:
                it.step(op)
                it.check_all()
                if op[0] == "src":
                    src_classes.append(await it.check_source(mkpath(op[1]), deps[op[2] % len(deps)]))
            # the source location of every known path, towards every deployment
            for path in sorted(it.model.parent):
                for dep in deps:
                    src_classes.append(await it.check_source(path, dep))
        finally:
            # also histories that end in a (known) violation are classified by what happened up to there
            rec.nontrivial(classify(rec, it, cfg, src_classes))
    finally:
        await ctx.close()


# ---- sub-check 2: bounded-exhaustive histories over small op alphabets --------------------------------------

T, TA, TB, TAA = [2], [2, 0], [2, 1], [2, 0, 0]
C, CA, CAA, MA, R, RA = [1], [1, 0], [1, 0, 0], [0, 0], [3], [3, 0]
ALPHABETS = [
    {  # two sibling locations of one deployment; same-location and cross-location relations
        "cfg": 3,
        "ops": [
            ["reg", 0, TA, 0, 0],
            ["reg", 0, TB, 0, 0],
            ["reg", 0, TAA, 0, 0],
            ["reg", 1, TA, 0, 0],
            ["relp", 0, TA, 0, TB],
            ["relp", 0, TA, 1, TA],
            ["invp", 0, TA],
            ["invp", 0, TB],
            ["invp", 0, T],
            ["invp", 1, TA],
        ],
    },
    {  # remote location and a container on it (identity mount /m, non-identity mount /c -> /r)
        "cfg": 6,
        "ops": [
            ["reg", 1, CA, 0, 0],
            ["reg", 1, CAA, 0, 0],
            ["reg", 1, MA, 0, 0],
            ["reg", 0, RA, 0, 0],
            ["reg", 0, MA, 0, 0],
            ["invp", 1, CA],
            ["invp", 1, C],
            ["invp", 0, RA],
            ["invp", 0, R],
            ["invp", 0, MA],
        ],
    },
    {  # symbolic links and the local location (thorough only)
        "cfg": 2,
        "ops": [
            ["link", 0, TA, TB],
            ["link", 1, TA, TB],
            ["reg", 0, TB, 1, 0],
            ["reg", 1, TAA, 0, 0],
            ["spread", TA, [0, 1], 0],
            ["invp", 0, TA],
            ["invp", 0, TB],
            ["invp", 1, TA],
            ["invp", 1, T],
            ["invq", TB, 0],
        ],
    },
]


def gen_blocks(tier):
    plan = [(0, 5), (1, 4)] if tier == "quick" else [(0, 6), (1, 5), (2, 5)]
    for ai, n in plan:
        k = len(ALPHABETS[ai]["ops"])
        for pre in itertools.product(range(k), repeat=2):
            yield {"alphabet": ai, "prefix": list(pre), "length": n}


@prop.enumerated("exhaustive-small", gen_blocks, max_shards=12)
async def check_block(case, rec):
    from streamflow.data.manager import DefaultDataManager
    from vf.engine.harness import make_context
    from vf.runner import load_known

    alpha = ALPHABETS[case["alphabet"]]
    cfg = CONFIGS[alpha["cfg"]]
    ops = alpha["ops"]
    known = {f["kind"] for f in load_known("C21")}
    universe = sorted({p for op in ops for x in op if isinstance(x, list) and x and isinstance(x[0], int) for p in [mkpath(x)] + ancestors(mkpath(x))})
    if case["alphabet"] == 1:
        universe = sorted(set(universe) | {"/r/a/a", "/r/a", "/r", "/m", "/c"})
    ctx = make_context()
    first: dict[str, Violation] = {}
    n = nt = 0
    try:
        for suffix in itertools.product(range(len(ops)), repeat=case["length"] - len(case["prefix"])):
            seq = [*case["prefix"], *suffix]
            it = Interp(cfg, DefaultDataManager(ctx), full_queries=False)
            it.universe = universe
            n += 1
            try:
                for i in seq:
                    it.step(ops[i])
                    it.check_all()
            except Violation as v:
                if v.kind not in first:
                    first[v.kind] = Violation(v.kind, f"replay as sub-check 'history': {{\"cfg\": {alpha['cfg']}, \"ops\": {[ops[i] for i in seq]}}} -- {v.message}".replace("'", '"'))
            ev = it.model.events
            if ev["invalidate-beneath"] or ev["rereg-after-invalidation"] or ev["relation-same-location"] or ev["relation-cross-location"]:
                nt += 1
    finally:
        await ctx.close()
    rec.bulk(evaluations=n, nontrivial=nt)
    rec.label(f"alphabet={case['alphabet']}")
    for kind in sorted(first, key=lambda k: (k in known, k)):
        raise first[kind]


# ---- sub-check 3: get_source_location overlapping an in-flight transfer ------------------------------------
#
# DefaultDataManager.transfer_data registers the destination *before* the copy: register_path(parent),
# DataLocation(dst, PRIMARY, available=False), path_mapper.put(dst), register_relation(src, dst) when the
# copy is read-only; after the copy it re-types a read-only destination (SYMBOLIC_LINK if the connector
# made a link, which it can only do towards a primary copy on the same location), relates it to the
# wrapped inner path and sets `available`. In between (the copy is an external wait) any other task may
# look the path up, register, relate or invalidate (FileToken.is_available invalidates a PRIMARY
# location whose file does not exist - yet). The harness replays exactly these registry steps around a
# drawn window; the copy itself is not performed (C22).

JOBROOT = "/j"  # destination directories are fresh per transfer (get_output_path): a root no other op uses
mid_op_s = op_s.filter(lambda op: op[0] != "src")  # a synchronous lookup could block the driver itself
window_case = st.fixed_dictionaries(
    {
        "cfg": st.integers(0, len(CONFIGS) - 1),
        "pre": st.lists(op_s, max_size=4),
        "src": st.tuples(loc_i, path_s).map(list),
        "dst": st.tuples(loc_i, st.lists(st.sampled_from([0, 0, 1]), min_size=1, max_size=2)).map(list),
        "same_loc": st.sampled_from([True, True, False]),  # destination on the source's location (link possible)
        "writable": st.sampled_from([False, False, True]),
        "link": st.booleans(),
        "invalidate": st.sampled_from([False, False, True]),
        "lookups": st.lists(st.tuples(st.integers(0, 4), st.integers(0, 1), st.integers(0, 3)).map(list), min_size=1, max_size=4),
        "mid": st.lists(mid_op_s, max_size=4),
    }
)


@prop.given("transfer-window", window_case, quick=3000, thorough=100000, max_shards=4)
async def check_window(case, rec):
    import asyncio

    from streamflow.core.data import DataLocation, DataType
    from vf.engine.detloop import settle
    from vf.engine.harness import make_context

    cfg = CONFIGS[case["cfg"] % len(CONFIGS)]
    ctx = make_context()
    try:
        it = Interp(cfg, ctx.data_manager)
        dm, m = it.dm, it.model
        src_lk = it.lockey(case["src"][0])
        dst_lk = src_lk if case["same_loc"] else it.lockey(case["dst"][0])
        src_path = mkpath(case["src"][1])
        dst_dir = JOBROOT + "/" + "/".join(COMPS[c % 2] for c in case["dst"][1])
        dst_path = dst_dir + "/f"
        it.universe = UNIVERSE + sorted({JOBROOT, dst_path, *(p for p in ancestors(dst_path) if p != "/")})
        deps = sorted({LOCDEFS[k]["dep"] for k in it.all_locs}) + ["elsewhere"]
        it.check_all()
        for op in case["pre"]:
            it.step(op)
            it.check_all()
            if op[0] == "src":
                await it.check_source(mkpath(op[1]), deps[op[2] % len(deps)])
        # the source of the transfer is a registered primary copy
        it.do_register(src_lk, src_path, "PRIMARY", 1)
        it.check_all()
        if m.cur[(src_lk, src_path)].types != {"PRIMARY"} or m.cur[(src_lk, src_path)].state != "V":
            rec.label("source-not-primary")  # registered earlier as a link: nothing to transfer from
            return
        # --- transfer_data, before the copy
        src_obj = dm.path_mapper.get(path=src_path)[0]
        it.do_register(dst_lk, dst_dir, "PRIMARY", 0)
        dst_obj = DataLocation(location=it.locs[dst_lk], path=dst_path, relpath=src_obj.relpath, data_type=DataType.PRIMARY)
        it.log.append(f"transfer_data begins: put({dst_lk},{dst_path},PRIMARY,not available){'' if case['writable'] else ' + register_relation(src,dst)'}")
        dm.path_mapper.put(path=dst_path, data_location=dst_obj)
        dst_fact = m.register_one(dst_lk, dst_path, "PRIMARY")
        if not case["writable"]:
            dm.register_relation(src_obj, dst_obj)
            m.relate(m.cur[(src_lk, src_path)], dst_fact)
        it.check_all()

        # --- the window: lookups start as tasks at drawn points between the other ops
        lookups = []  # [task, path, dep, snapshot of the valid primaries at start, blocked?]
        mid = case["mid"]

        def primaries(path):
            lower, upper = m.bounds(m.index(), path, None, None, "PRIMARY")
            return lower, upper

        async def start_lookups(pos):
            for when, which, dep_i in case["lookups"]:
                if when % (len(mid) + 1) == pos:
                    path, dep = (dst_path, src_path)[which], deps[dep_i % len(deps)]
                    snap = {(f.id, f.revived) for f in primaries(path)[0]}
                    it.log.append(f"get_source_location({path},{dep}) starts")
                    lookups.append([asyncio.create_task(dm.get_source_location(path, dep)), path, dep, snap, None])
            await settle()
            for lk in lookups:
                if lk[4] is None:
                    lk[4] = not lk[0].done()
                    if lk[0].done():
                        judge(lk, "in-window")

        verdicts = []

        def judge(lk, when):
            task, path, dep, snap, _ = lk
            r = task.result()
            lower, upper = primaries(path)
            q = f"get_source_location({path!r}, {dep!r}) [{when}] = {describe(r) if r is not None else None}; model at return time: valid primary copies {lower}, possible {upper}. {it.ctxmsg()}"
            if r is None:
                # None is wrong if some primary copy was valid from the call to the return
                if any((f.id, f.revived) in snap for f in lower):
                    raise Violation("C21:source:window:none-although-a-valid-primary-exists", q)
                verdicts.append("none")
                return
            f = m.cur.get((LOC_BY_ID.get((r.deployment, r.name)), r.path))
            if r.data_type.name != "PRIMARY" or f is None or f not in upper:
                raise Violation("C21:source:window:not-a-valid-primary-copy", q)
            verdicts.append("in-flight-destination" if r is dst_obj else "related-primary" if path == dst_path else "primary")

        await start_lookups(0)
        for i, op in enumerate(mid):
            it.step(op)
            it.check_all()
            await start_lookups(i + 1)
        if case["invalidate"]:
            it.do_invalidate(dst_obj)  # e.g. FileToken.is_available: the file is not there yet
            it.check_all()
            await settle()

        # --- transfer_data, after the copy
        link = bool(case["link"]) and dst_lk == src_lk
        resurrected = False
        if not case["writable"]:
            new_type = "SYMBOLIC_LINK" if link else "PRIMARY"
            dst_obj.data_type = DataType[new_type]
            f = m.cur.get((dst_lk, dst_path))
            resurrected = f is None or f.state != "V"
            if f is None:  # invalidated during the copy: the finished transfer states the path (only it) again
                f = m._touch(dst_lk, dst_path, new_type, True)
            else:
                f.state, f.types = "V", {new_type}
        it.log.append(f"transfer_data ends: {dst_lk}:{dst_path} is {dst_obj.data_type.name}, available")
        # wrapped locations: relate to the inner path (existing location, or a new available one)
        if dst_obj.data_type != DataType.INVALID:
            cur_lk, p = dst_lk, dst_path
            while (qpath := inner_of(cur_lk, p)) is not None:
                cur_lk, p = LOCDEFS[cur_lk]["wraps"], qpath
                d = LOCDEFS[cur_lk]
                found = dm.path_mapper.get(path=p, deployment=d["dep"], name=d["name"])
                inner_obj = found[0] if found else DataLocation(location=it.locs[cur_lk], path=p, relpath=dst_obj.relpath, data_type=dst_obj.data_type, available=True)
                if inner_obj.data_type == DataType.INVALID:
                    break  # a stale inner object: known-finding territory (root cause B), not this sub-check's
                dm.register_relation(dst_obj, inner_obj)
                # transfer_data takes whatever location of the inner site hangs on that node first (it may carry
                # another path: a related copy); only if there is none does it state the inner path itself
                inner_fact = it.fact_of(inner_obj) if found else m.register_one(cur_lk, p, inner_obj.data_type.name)
                if inner_fact is None:
                    break
                m.relate(m.cur[(dst_lk, dst_path)], inner_fact)
        dst_obj.available.set()
        await settle()
        blocked = 0
        for lk in lookups:
            if lk[4]:
                blocked += 1
                if not lk[0].done():
                    raise Violation("C21:source:window:lookup-pending-after-every-candidate-settled", f"get_source_location({lk[1]!r},{lk[2]!r}) still pending. {it.ctxmsg()}")
                judge(lk, "blocked-until-transfer-end")
        try:
            it.check_all()
        except Violation as v:
            if v.kind == "C21:answer:duplicate" and resurrected:
                # the INVALID flag set during the copy is overwritten by the re-typing; the relations registered
                # meanwhile / afterwards hang the same object a second time where its path had been discarded
                raise Violation("C21:transfer-window:destination-invalidated-during-read-only-copy-is-resurrected-and-reported-twice", v.message) from None
            raise
        for path in (dst_path, src_path):
            for dep in deps:
                await it.check_source(path, dep)
        changed = dst_obj.data_type != DataType.PRIMARY
        rec.label("writable" if case["writable"] else "read-only", f"end:{dst_obj.data_type.name}")
        rec.label("same-location" if dst_lk == src_lk else "other-location")
        if case["invalidate"]:
            rec.label("invalidated-in-window")
        if "wraps" in LOCDEFS[dst_lk]:
            rec.label("wrapped-destination")
        rec.label("lookup-blocked" if blocked else "no-lookup-blocked")
        for v in sorted(set(verdicts)):
            rec.label(f"returned:{v}")
        rec.nontrivial(bool(blocked) and changed)
    finally:
        await ctx.close()
