"""C25 Commands run exactly once with verbatim arguments, environment and output.

What is executed
----------------
Every command is the same tiny POSIX-sh *probe script* (written into the per-case sandbox, see
``PROBE``).  Called as ``sh probe.sh STATE ID CODE SLEEP PAYLOAD FLAGS ARG`` it

1. appends its pid to ``STATE/ID.start``                      (one line per *execution*),
2. writes what it sees to ``STATE/ID.<pid>.{A,B,C,cwd,arg}``   (``printf %s`` of ``$VF_A`` ... - set/unset is
   kept apart from empty -, ``pwd -P``, ``$7``): byte-exact evidence that does not travel through the
   output channel under test,
3. prints the same things (header), an optional marker on *stderr*, optionally its stdin, sleeps
   ``SLEEP`` seconds, prints the generated payload (a sourced snippet: builtin ``printf``, or ``cat`` for payloads with NUL bytes), appends a line to ``STATE/ID.done``
   and exits with ``CODE``.

Paths (the code under test is the repository's, nothing is re-implemented)
* ``local``  ``LocalConnector.run``                       (``create_command`` -> ``sh -c`` -> ``run_in_subprocess``)
* ``shell``  ``BaseConnector.run`` on a "vf-shell" location without ``job_name``/``stdin``: persistent
  ``sh`` (``get_shell`` -> ``SubprocessShell`` -> ``BaseShell.execute`` -> ``_build_shell_command`` /
  ``_read_with[out]_output``)
* ``job`` / ``stdin``  ``BaseConnector.run`` with ``job_name`` (the shape ``CWLCommand.execute`` uses:
  environment + workdir + timeout + job name) or with ``stdin``: ``create_command`` + fresh subprocess
* ``template``  ``create_command`` + ``CommandTemplateMap.get_command`` called as
  ``QueueManagerConnector.run`` calls them; the rendered script is run by ``sh`` in a fresh process (what
  ``sbatch`` does with the script it receives base64-verbatim).

Oracle (an independent model: the harness knows the inputs and predicts what the probe must see and print;
sh's quoting rules are used only to *bucket* a violation - which mechanism, which field -, never to decide it)
* exactly once: ``ID.start`` has exactly one line when the call returns (at most one when it raises a
  timeout) and still so after the whole sequence has *quiesced* (all shells closed, every process the
  connectors spawned has exited - process accounting, not sleeping);
* ``(output, status)`` == the expected pair; output modulo the outer-whitespace strip both
  implementations apply; undecodable payloads are judged on their ASCII skeleton (the API returns
  ``str``) and differentially;
* environment values, cwd and the (caller-quoted) argument observed by the probe are byte-identical to
  the inputs; variables that were not passed are unset (nothing leaks between commands of a shell);
* differential: the same sequence through the persistent shell and through fresh processes gives the
  same result for every command that did not itself time out.
Sequences: commands are awaited one after the other; a command marked ``par`` is issued concurrently with
its predecessor (``asyncio.gather`` - how remote paths and the data manager use a connector), so the
shell's serialisation is exercised too. After the sequence the connector is undeployed (the persistent
shell executes everything it was sent, then exits) and every process spawned through
``asyncio.create_subprocess_exec`` during the case (recorded by a wrapper) is awaited.
Hangs: every connector call has an allowance of max(60 s, 50 x t_ref) (+ its own timeout), t_ref = the time the
same command needs when run directly with plain ``subprocess`` under the same load (measured first for outputs
>= 128 KiB). A call that does not come back is abandoned (all processes killed) and the whole case is run once
more with twice the allowance; only if it hangs again while the reference finishes is it a violation
(``C25:<path>:hangs[-on-large-output]``), otherwise the case is inconclusive (harness error).
Buffers: the vf-shell connector's ``transferBufferSize`` (= the read size of the persistent shell) is drawn from
{64, 128, 1024, 65536}; payload sizes are drawn around multiples of these, and a few outputs of 200 KiB - 1 MiB
(more than a pipe plus a StreamReader buffer hold) are generated in the quick tier too.
Protocol sub-check (deterministic loop, no process): ``BaseShell.execute`` against an in-memory shell whose reply
``<output><marker>:<rc>\n`` arrives in drawn pieces (1, 7, buffer-1, buffer, buffer+1, random, whole) - the parsed
``(output, rc)`` must be the scripted one for every chunking; a reader that still waits when all bytes have been
delivered is an exact deadlock verdict of the loop.
Timeouts: a command is *allowed* to raise ``TimeoutError`` / ``WorkflowExecutionException`` only when it
sleeps longer than its timeout; whether it then does is never asserted (time is not a correctness signal).
"""
from __future__ import annotations

import asyncio
import contextvars
import hashlib
import os
import shlex
import string
import sys

from hypothesis import strategies as st

from vf.core import HarnessError, Prop, Violation

prop = Prop(
    "C25",
    level="exploration",
    technique=(
        "Hypothesis PBT with a side-effect probe script: model-based oracle (execution counter files, byte-exact "
        "observations of env/cwd/argument, expected output and exit status) on LocalConnector.run, BaseConnector.run "
        "(persistent sh shell and create_command+subprocess) and CommandTemplateMap.get_command; differential "
        "persistent shell vs fresh processes over command sequences with injected timeouts and failures; the shell reply "
        "protocol (BaseShell.execute) against an in-memory stream with generated chunkings on the deterministic loop "
        "(exact deadlock verdict); differential hang verdict against a plain subprocess reference"
    ),
    rule=(
        "single/template: one probe command x path (local | shell | job | stdin | template default/service) x environment "
        "(None | 0..3 variables) x workdir (None | 1..2 generated directories) x caller-quoted argument x payload "
        "(empty | text with/without trailing newline | outer whitespace | undecodable bytes; 0..64 KiB quick, 0..1 MiB "
        "thorough) x exit code 0..255 x capture on/off x timeout (None | large | shorter than the command's sleep); values "
        "from a plain alphabet or a hostile one (quotes, $, backtick, backslash, blanks, newline, glob/operator characters, "
        "unicode). Non-trivial = an environment value or the workdir actually passed contains a shell metacharacter. "
        "sequence: 1..6 (quick) / 1..8 (thorough) such commands on one connector, some issued concurrently with their "
        "predecessor, run on a persistent-shell connector and on a fresh-process connector (vf-shell with job names | "
        "LocalConnector); non-trivial = some command really timed out on the persistent shell and a later command "
        "followed it. protocol: 1..3 scripted replies (payload length = k x buffer + delta, so that the end-marker line sweeps "
        "over the read boundaries; text / no trailing newline / undecodable / marker-like text) x buffer size x chunking "
        "x loop turns between deliveries; non-trivial = a read boundary actually fell inside the end-marker line. "
        "Distinct by the whole case."
    ),
    level_text=(
        "Random search over inputs and histories with real sh processes; exactly-once is decided by counter files after "
        "process-level quiescence, verbatim transport by byte comparison of what the command observed, both directions."
    ),
    level_note=(
        "The remote side is this host's /bin/sh (dash). The persistent-shell path is BaseConnector's own code on the "
        "vf-shell fake; SSH/docker/k8s specific run() variants are not exercised. Queue managers are represented by the "
        "two rendering calls QueueManagerConnector.run makes plus `sh <script>`. Whether a short timeout fires is not "
        "asserted; a hang would surface as a harness error (wall-clock safety net), never as a violation."
    ),
    assumptions=[
        "command words are already shell-quoted by the caller (run() joins them with blanks and hands them to a shell, as every caller in the repository relies on)",
        "environment variable names are plain identifiers; values and directory names are arbitrary strings without NUL (directory names without '/')",
        "commands do not read stdin unless a stdin redirection is passed",
    ],
)

# ------------------------------------------------------------------------------------------------
# constants

VARS = ["VF_A", "VF_B", "VF_C"]
SLEEP = 0.35  # seconds a "sleeper" command sleeps
SHORT = 0.1  # a timeout shorter than SLEEP
BIG = 60  # a timeout no healthy command reaches
EMBED_MAX = 256 * 1024  # payloads up to this size (and without NUL) are printed by the shell builtin
SLEEPER_MAX = 2048
BUFFERS = [64, 128, 1024, 65536, 65536]  # transferBufferSize of the vf-shell connector = read size of the persistent shell
LARGE = [200_000, 262_144, 300_001, 524_288, 1_048_576]
LARGE_FROM = 128 * 1024  # payload bound for sleepers (their late output may stay unread in a pipe)

PROBE = r"""#!/bin/sh
# usage: probe.sh STATE ID CODE SLEEP PAYLOAD FLAGS ARG
trap '' PIPE
S=$1
I=$2
echo "$$" >> "$S/$I.start"
O="$S/$I.$$"
printf '%s%s' "${VF_A+=}" "$VF_A" > "$O.A"
printf '%s%s' "${VF_B+=}" "$VF_B" > "$O.B"
printf '%s%s' "${VF_C+=}" "$VF_C" > "$O.C"
pwd -P > "$O.cwd"
printf '%s' "$7" > "$O.arg"
printf '%s%s|' "${VF_A+=}" "$VF_A"
printf '%s%s|' "${VF_B+=}" "$VF_B"
printf '%s%s|' "${VF_C+=}" "$VF_C"
pwd -P
printf '%s|' "$7"
case "$6" in *e*) printf 'E!|' >&2 ;; esac
case "$6" in *i*) cat ;; esac
if [ "$4" != 0 ]; then sleep "$4"; fi
. "$5"
echo done >> "$S/$I.done"
exit "$3"
"""

PLAIN_CHARS = string.ascii_letters + string.digits + "_.-"
NAME_CHARS = string.ascii_letters + string.digits + "_"
HOSTILE_CHARS = list("'\"$`\\ \n\t*?[]{}()<>|&;!#~%=,:") + list("'\"$`\\\n\n ") + ["é", "中", "😀", "\u0301", "a", "Z", "0", "-"]
NASTY = [
    "$HOME", "${VF_A}", "$(echo pwned)", "`echo pwned`", 'a"b', "a\\b", "a\\", "\\", "$$", "$", "$1", "\\$HOME", '\\"',
    'x"; echo injected; "', "it's", "' ; echo injected ; '", "a b", " lead", "trail ", "line1\nline2", "\n", "end\n",
    "a\nb", "\nlead", "two\n\nlines\n", "`", "``", '"', "''", "tab\tx", "*", "~", "#c", "a;b", "a&&b", "a|b", "a>b", "(x)", "é中😀", "é", "-n", "-e", "%s%n", "{{x}}", "{% x %}",
]
DQ_SPECIAL = set('$`"\\')  # characters that keep a meaning inside sh double quotes
UNQUOTED_SAFE = set(string.ascii_letters + string.digits + "_./+:,@%=-")
META = {
    "dollar": "$", "backtick": "`", "dquote": '"', "squote": "'", "backslash": "\\", "blank": " \t", "newline": "\n",
    "glob": "*?[]{}~", "operator": "()<>|&;!#",
}


def _tier() -> str:
    t = os.environ.get("VERIF_TIER")
    if t in ("quick", "thorough"):
        return t
    return "thorough" if "thorough" in sys.argv[1:] else "quick"


def _max_size() -> int:
    return 2**20 if _tier() == "thorough" else 2**16


# ------------------------------------------------------------------------------------------------
# strategies (cases are plain JSON)

plain_value = st.text(PLAIN_CHARS, max_size=10)
plain_name = st.text(NAME_CHARS, min_size=1, max_size=10)
hostile_value = st.one_of(
    st.sampled_from(NASTY),
    st.text(HOSTILE_CHARS, min_size=1, max_size=10),
    st.tuples(plain_value, st.sampled_from(NASTY), plain_value).map("".join),
)
hostile_name = hostile_value.filter(lambda v: v not in ("", ".", "..") and "/" not in v and len(v.encode()) <= 200)


def _is_plain(s: str) -> bool:
    return all(c in PLAIN_CHARS for c in s)


def _sizes(max_size: int):
    edges = [n for n in (4095, 4096, 65535, 65536, 65537, 131072, 2**20 - 1, 2**20) if n <= max_size]
    # around multiples of the (generated) shell buffer sizes: the reply's end-marker line (~50 bytes) then falls on a
    # read boundary for some of them whatever the length of the header
    near = st.builds(lambda k, m, d: min(max_size, max(0, k * m + d)), st.integers(1, 8), st.sampled_from(BUFFERS[:3]), st.integers(-64, 8))
    return st.one_of(st.integers(0, 64), st.integers(0, 4096), near, near, st.sampled_from(edges), st.integers(0, max_size))


def _outs(max_size: int, kinds=None, large: bool = False):
    sizes = _sizes(max_size)
    if large:  # a few outputs beyond what a pipe plus a StreamReader buffer hold (64 KiB + 128 KiB), in every tier
        sizes = st.one_of(*([sizes] * 15), st.sampled_from(LARGE))
    return st.fixed_dictionaries(
        {
            "k": st.sampled_from(kinds or ["text", "text", "textnl", "textnl", "ws", "empty", "bin", "bin"]),
            "n": sizes,
            "s": st.integers(0, 999),
        }
    )


env_plain = st.one_of(st.none(), st.dictionaries(st.sampled_from(VARS), plain_value, max_size=3))
env_hostile = st.dictionaries(st.sampled_from(VARS), st.one_of(hostile_value, hostile_value, plain_value), min_size=1, max_size=3).filter(
    lambda d: any(not _is_plain(v) for v in d.values())
)
wd_plain = st.one_of(st.none(), st.lists(plain_name, min_size=1, max_size=2))
wd_hostile = st.lists(st.one_of(hostile_name, hostile_name, plain_name), min_size=1, max_size=2).filter(
    lambda names: any(not _is_plain(n) for n in names)
)
codes = st.one_of(st.just(0), st.just(0), st.sampled_from([1, 2, 126, 127, 128, 137, 255]), st.integers(0, 255))


@st.composite
def _cmds(draw, max_size: int, foci, tmodes, need_env_wd: bool = False, kinds=None, par=(False,), large: bool = False):
    focus = draw(st.sampled_from(foci))
    env = draw(env_hostile if focus == "env" else env_plain)
    wd = draw(wd_hostile if focus == "wd" else wd_plain)
    if need_env_wd:  # callers that pass job_name always pass both (CWLCommand.execute)
        if not env:
            env = {"VF_A": draw(plain_value)}
        if wd is None:
            wd = [draw(plain_name)]
    arg = draw(plain_value if focus == "plain" else st.one_of(plain_value, hostile_value))
    tmode = draw(st.sampled_from(tmodes))
    out = draw(_outs(max_size, kinds, large))
    if tmode in ("sleep", "sleep-big", "timeout"):
        out = dict(out, n=out["n"] % (SLEEPER_MAX + 1))
    return {
        "focus": focus,
        "env": env,
        "wd": wd,
        "arg": arg,
        "code": draw(codes),
        "t": tmode,  # none | big | sleep | sleep-big | timeout
        "out": out,
        "err": draw(st.sampled_from([False, False, True])),
        "cap": draw(st.sampled_from([True, True, True, False])),
        "par": draw(st.sampled_from(par)),
    }


FOCI = ["plain", "plain", "env", "env", "wd", "wd", "arg"]
stdin_desc = st.one_of(
    st.none(),
    st.fixed_dictionaries({"name": st.one_of(plain_name, hostile_name), "n": st.integers(0, 300), "s": st.integers(0, 99)}),
)


def _single_cases():
    m = _max_size()
    return st.fixed_dictionaries(
        {
            "path": st.sampled_from(["local", "shell", "shell", "job", "stdin"]),
            "cmd": _cmds(m, FOCI, ["none", "none", "none", "big", "big", "sleep-big", "timeout"], large=True),
            "stdin": stdin_desc,
            "buf": st.sampled_from(BUFFERS),
        }
    )


def _seq_cases():
    m = _max_size()
    cmd = _cmds(min(m, 2**17), ["plain"] * 10 + ["arg", "arg", "env", "wd"],
                ["none", "none", "none", "none", "big", "big", "sleep", "timeout", "timeout"],
                kinds=["text"] * 4 + ["textnl"] * 4 + ["ws", "ws", "empty", "bin"], par=(False, False, False, True))
    return st.fixed_dictionaries({"fresh": st.sampled_from(["job", "job", "local"]), "buf": st.sampled_from(BUFFERS), "cmds": st.sampled_from([2, 3, 3, 4, 4, 5, 6, 1] + ([7, 8, 8] if _tier() == "thorough" else [])).flatmap(lambda n: st.lists(cmd, min_size=n, max_size=n))})


def _tmpl_cases():
    m = min(_max_size(), 2**16 + 1)
    return st.fixed_dictionaries(
        {
            "tmpl": st.sampled_from(["default", "service", "service", "service", "unknown-service"]),
            "cmd": _cmds(m, FOCI, ["none"], need_env_wd=True),
        }
    )


# ------------------------------------------------------------------------------------------------
# deterministic content

_TEXT_ALPHABET = list(string.ascii_letters + string.digits + "     \n\n\t.,;:!?-_/\\'\"$`*()[]{}<>|&#~%=+") + ["é", "中", "😀", "\u0301"]


def _stream(tag: str, n: int) -> bytes:
    return hashlib.shake_256(tag.encode()).digest(n) if n else b""


def _payload(out) -> bytes:
    k, n, s = out["k"], out["n"], out["s"]
    if k == "empty" or (n == 0 and k != "bin"):
        return b""
    raw = _stream(f"{k}:{s}:{n}", max(n, 1))
    if k == "bin":
        tail = [b"-TAIL", b"\xe2\x82", b"\xf0\x9f\x98", b"\xff", b"\n"][s % 5]
        return b"HEAD-\xff" + raw[:n] + tail
    body = "".join(_TEXT_ALPHABET[b % len(_TEXT_ALPHABET)] for b in raw).encode()[:n]
    body = body.decode("utf-8", "ignore").encode()  # cut at a character boundary
    if k == "text":
        return body + b"x"
    if k == "textnl":
        return body + b"x\n"
    lead = [b"\n", b"  ", b"\t\n ", b"\r\n"][s % 4]
    trail = [b"\n\n", b" ", b" \t\n", b"\r\n"][(s // 4) % 4]
    return lead + body + b"x" + trail  # "ws"


def _stdin_bytes(desc) -> bytes:
    return b"<stdin:" + _stream(f"in:{desc['s']}", desc["n"]).hex().encode()[: desc["n"]] + b">"


def _ascii_skeleton(data) -> str:
    if isinstance(data, bytes):
        return bytes(b for b in data if b < 0x80).decode("ascii").strip()
    return "".join(c for c in data if ord(c) < 0x80).strip()


def _clip(x, n: int = 160) -> str:
    r = repr(x)
    return r if len(r) <= n else r[: n // 2] + f"...({len(r)} chars)..." + r[-n // 2:]


# ------------------------------------------------------------------------------------------------
# process accounting: every process the code under test spawns during a case is remembered, so that
# "the sequence has quiesced" is a fact about processes and not a sleep


class _Procs:
    def __init__(self) -> None:
        self.procs: list = []
        self._orig = None

    def __enter__(self):
        self._orig = asyncio.create_subprocess_exec
        orig = self._orig
        procs = self.procs

        async def create_subprocess_exec(*args, **kwargs):
            proc = await orig(*args, **kwargs)
            procs.append(proc)  # the reference keeps the transport (and the child) alive after a timeout
            return proc

        asyncio.create_subprocess_exec = create_subprocess_exec
        return self

    def __exit__(self, *exc) -> None:
        asyncio.create_subprocess_exec = self._orig

    def kill_all(self, states: list[str]) -> None:
        """After a hang verdict: nothing of the abandoned attempt may stay behind."""
        import signal

        for proc in list(self.procs):
            if proc.returncode is None:
                try:
                    proc.kill()
                except ProcessLookupError:
                    pass
        for state in states:
            if os.path.isdir(state):
                for pid in _all_pids(state):
                    if _alive(pid):
                        try:
                            os.kill(pid, signal.SIGKILL)
                        except ProcessLookupError:
                            pass
        for proc in list(self.procs):  # close our end of the pipes: a grandchild blocked in write() gets EPIPE
            transport = getattr(proc, "_transport", None)
            if transport is not None:
                try:
                    transport.close()
                except Exception:  # noqa: BLE001
                    pass

    async def quiesce(self, states: list[str]) -> None:
        for proc in list(self.procs):
            try:
                await asyncio.wait_for(proc.wait(), 60)
            except asyncio.TimeoutError as e:  # safety net only
                raise HarnessError(f"process {proc.pid} spawned by the code under test did not exit within 60 s") from e
        # orphans (a probe whose parent shell was killed): bounded poll on the pids the probes recorded
        for _ in range(600):
            alive = [pid for state in states for pid in _all_pids(state) if _alive(pid)]
            if not alive:
                break
            await asyncio.sleep(0.05)
        else:
            raise HarnessError(f"probe processes still alive after the sequence: {alive}")
        for _ in range(3):
            await asyncio.sleep(0)


def _alive(pid: int) -> bool:
    try:
        os.kill(pid, 0)
    except ProcessLookupError:
        return False
    except PermissionError:
        return True
    try:  # a zombie of ours is not running any more
        with open(f"/proc/{pid}/stat", "rb") as fh:
            return fh.read().rsplit(b")", 1)[1].split()[0] != b"Z"
    except (OSError, IndexError):
        return False


def _all_pids(state: str) -> list[int]:
    pids = []
    for name in os.listdir(state):
        if name.endswith(".start"):
            pids.extend(_starts(state, name[: -len(".start")]))
    return pids


def _starts(state: str, cid: str) -> list[int]:
    try:
        with open(os.path.join(state, cid + ".start")) as fh:
            return [int(line) for line in fh.read().split()]
    except FileNotFoundError:
        return []


def _read(path: str) -> bytes | None:
    try:
        with open(path, "rb") as fh:
            return fh.read()
    except FileNotFoundError:
        return None


# ------------------------------------------------------------------------------------------------
# one run = one connector (or the template executor) with its own state directory


class _Run:
    """Materialises commands below ``root`` and judges what happened. ``path`` names the mechanism."""

    def __init__(self, root: str, path: str, probe: str, default_cwd: str):
        self.root = root
        self.path = path
        self.probe = probe
        self.default_cwd = default_cwd
        self.state = os.path.join(root, "state")
        os.makedirs(self.state)
        os.makedirs(os.path.join(root, "p"))
        self.violations: list[tuple[str, str]] = []
        self.items: list[dict] = []

    # -- building ------------------------------------------------------------------------------
    def add(self, cmd: dict, stdin: dict | None = None) -> dict:
        idx = len(self.items)
        cid = f"c{idx}"
        wd = None
        if cmd["wd"] is not None:
            wd = os.path.join(self.root, "w", str(idx), *cmd["wd"])
            os.makedirs(wd, exist_ok=True)
        payload = _payload(cmd["out"])
        ppath = os.path.join(self.root, "p", f"{idx}.sh")  # sourced by the probe: prints the payload
        with open(ppath, "wb") as fh:
            if b"\0" in payload or len(payload) > EMBED_MAX:
                with open(ppath[:-3] + ".bin", "wb") as raw:
                    raw.write(payload)
                fh.write(b"cat " + shlex.quote(ppath[:-3] + ".bin").encode() + b"\n")
            else:  # builtin printf: one process less per command (process creation dominates the cost here)
                fh.write(b"printf '%s' '" + payload.replace(b"'", b"'\\''") + b"'\n")
        stdin_path, stdin_data = None, b""
        if stdin is not None:
            d = os.path.join(self.root, "in", str(idx))
            os.makedirs(d, exist_ok=True)
            stdin_path = os.path.join(d, stdin["name"])
            stdin_data = _stdin_bytes(stdin)
            with open(stdin_path, "wb") as fh:
                fh.write(stdin_data)
        sleeper = cmd["t"] in ("sleep", "sleep-big", "timeout")
        flags = ("e" if cmd["err"] else "") + ("i" if stdin is not None else "") or "-"
        q = shlex.quote
        def words_for(state: str) -> list[str]:
            return ["sh", q(self.probe), q(state), cid, str(cmd["code"]), str(SLEEP) if sleeper else "0", q(ppath), flags, q(cmd["arg"])]

        words = words_for(self.state)
        ref_state = os.path.join(self.root, "ref-state")  # the reference run must not touch the counters under test
        os.makedirs(ref_state, exist_ok=True)
        cwd = wd if wd is not None else self.default_cwd
        env = cmd["env"] or {}
        expected = b"".join((("=" + env[v]) if v in env else "").encode() + b"|" for v in VARS)
        expected += cwd.encode() + b"\n" + cmd["arg"].encode() + b"|"
        if cmd["err"]:
            expected += b"E!|"
        expected += stdin_data + payload
        item = {
            "idx": idx, "cid": cid, "cmd": cmd, "words": words, "wd": wd, "cwd": cwd, "stdin": stdin_path, "expected": expected,
            "timeout": {"none": None, "sleep": None, "big": BIG, "sleep-big": BIG, "timeout": SHORT}[cmd["t"]],
            "may_timeout": cmd["t"] == "timeout", "outcome": None, "flagged": False,
            "ref_words": words_for(ref_state), "size": len(payload), "t_ref": None,
        }
        self.items.append(item)
        return item

    # -- attribution ---------------------------------------------------------------------------
    def _danger(self, item) -> tuple[bool, bool]:
        cmd = item["cmd"]
        values = list((cmd["env"] or {}).values())
        names = cmd["wd"] or []
        if self.path == "shell" and not item.get("fallback"):  # shlex.quote on both: nothing is expected to go wrong
            return any(not _is_plain(v) for v in values), any(not _is_plain(n) for n in names)
        # create_command / template: value inside double quotes, workdir unquoted
        return any(set(v) & DQ_SPECIAL for v in values), any(ord(c) < 0x80 and c not in UNQUOTED_SAFE for n in names for c in n)

    def flag(self, item, symptom: str, message: str, quoting: bool = True) -> None:
        """Record a violation. Symptoms that broken quoting can explain are attributed to the one field
        (environment value | workdir) that carries a character dangerous in the context the mechanism puts
        it in; everything else is bucketed by path and symptom."""
        item["flagged"] = True
        mech = {"shell": "shell", "tmpl-service": "template"}.get(self.path, "create_command")
        if item.get("fallback"):  # the shell gave up: the command went through create_command + subprocess as well
            mech = "create_command"
        if mech == "shell" and symptom not in ("env-mismatch", "cwd-mismatch", "arg-mismatch", "not-executed"):
            quoting = False  # _build_shell_command quotes both fields: only direct evidence is attributed to them
        env_d, wd_d = self._danger(item)
        kind = f"C25:{self.path}:{symptom}"
        if quoting and (env_d or wd_d):
            if env_d and wd_d:
                field = "env-value" if symptom == "env-mismatch" else "workdir" if symptom == "cwd-mismatch" else "env-value-and-workdir"
            else:
                field = "env-value" if env_d else "workdir"
            kind = f"C25:{mech}:{field}-not-verbatim"
        cmd = item["cmd"]
        self.violations.append(
            (kind, f"[{self.path} #{item['idx']}] {symptom}: {message}\n  env={cmd['env']!r} workdir={item['wd']!r} arg={cmd['arg']!r} "
                   f"code={cmd['code']} t={cmd['t']} out={cmd['out']} cap={cmd['cap']}")
        )

    # -- judging -------------------------------------------------------------------------------
    def judge_count(self, item, when: str) -> None:
        n = len(_starts(self.state, item["cid"]))
        oc = item["outcome"]
        item.setdefault("counts", {})[when] = n
        if item.get("count_flagged"):
            return
        fallback = item.get("fallback")
        if self.path == "shell" and fallback and n > 1:
            item["count_flagged"] = item["flagged"] = True
            if fallback.startswith("Timeout") and not item["may_timeout"]:
                self.violations.append(("C25:shell:spurious-timeout-fallback",
                                        f"[shell #{item['idx']}] a command that finishes immediately (timeout {item['timeout']}) was reported as timed "
                                        f"out by the persistent shell ({fallback!r}): its reply was not recognised; run() fell back to a subprocess "
                                        f"and the command was executed {n} times ({when}): {' '.join(item['words'])[:300]}"))
            elif fallback.startswith("Timeout"):
                self.violations.append(("C25:shell:timeout:re-executed",
                                        f"[shell #{item['idx']}] the command timed out on the persistent shell ({fallback!r}), run() fell back to a "
                                        f"subprocess and the command was executed {n} times ({when}): {' '.join(item['words'])[:300]}"))
            else:
                slug = "-".join(fallback.lower().replace(":", " ").split()[:3])
                self.violations.append((f"C25:shell:fallback-re-executed:{slug}",
                                        f"[shell #{item['idx']}] the persistent shell failed ({fallback!r}) after having run the command; run() fell back "
                                        f"to a subprocess: {n} executions ({when}): {' '.join(item['words'])[:300]}"))
        elif oc["type"] == "timeout":
            if n > 1:
                item["count_flagged"] = True
                self.flag(item, f"executed-{min(n, 3)}-times", f"{n} executions of a command that timed out ({when})", quoting=False)
        elif oc["type"] == "returned":
            if n == 0:
                item["count_flagged"] = True
                self.flag(item, "not-executed", f"the call returned {_clip(oc['value'])} but the command never ran ({when})")
            elif n > 1:
                item["count_flagged"] = True
                self.flag(item, f"executed-{min(n, 3)}-times", f"{n} executions, the call returned {_clip(oc['value'])} ({when})", quoting=False)

    def judge_result(self, item, after_timeout: bool = False) -> None:
        oc, cmd = item["outcome"], item["cmd"]
        if oc["type"] == "timeout":
            if not item["may_timeout"]:
                self.flag(item, "spurious-timeout", f"raised {oc['exc']} although the command does not outlast its timeout ({item['timeout']})", quoting=False)
            return
        if oc["type"] == "raised":
            if oc["name"] == "UnicodeDecodeError" and cmd["out"]["k"] == "bin" and self.path != "shell":
                item["flagged"] = True
                self.violations.append(("C25:subprocess:undecodable-output-raises",
                                        f"[{self.path} #{item['idx']}] output that is not valid UTF-8 makes run() raise {oc['exc']} "
                                        f"(the persistent shell decodes with errors='replace')"))
            else:
                self.flag(item, f"raised-{oc['name']}", oc["exc"], quoting=oc["name"] in ("ValueError",))
            return
        value = oc["value"]
        if not cmd["cap"]:
            if value is not None:
                self.flag(item, "result-shape", f"capture_output=False returned {_clip(value)}", quoting=False)
            return
        if not (isinstance(value, (tuple, list)) and len(value) == 2 and isinstance(value[0], str) and isinstance(value[1], int)):
            self.flag(item, "result-shape", f"capture_output=True returned {_clip(value)}", quoting=False)
            return
        out, status = value
        expected = item["expected"]
        try:
            exp_text = expected.decode("utf-8")
            ok = out.strip() == exp_text.strip()
        except UnicodeDecodeError:
            exp_text = None
            ok = _ascii_skeleton(out) == _ascii_skeleton(expected)
        if not ok:
            if self.path == "shell" and "SF_CMD_END_" in out:
                item["flagged"] = True
                if after_timeout:
                    self.violations.append(("C25:shell:after-timeout:stale-output",
                                            f"[shell #{item['idx']}] the command after a timed-out one returned the previous command's late output "
                                            f"and end marker: {_clip(out, 300)}"))
                else:
                    self.violations.append(("C25:shell:end-marker-in-output", f"[shell #{item['idx']}] {_clip(out, 300)}"))
            else:
                self.flag(item, "output-mismatch", f"returned {_clip(out, 300)}, expected (modulo outer whitespace) "
                                                   f"{_clip(exp_text if exp_text is not None else expected, 300)}"
                                                   f" [{len(out)} vs {len(expected)} chars/bytes]")
        if status != cmd["code"]:
            self.flag(item, "status-mismatch", f"returned status {status}, the command exits with {cmd['code']} (output {_clip(out)})")

    def judge_observations(self, item) -> None:
        cmd = item["cmd"]
        env = cmd["env"] or {}
        for pid in _starts(self.state, item["cid"]):
            base = os.path.join(self.state, f"{item['cid']}.{pid}")
            for v, suffix in zip(VARS, "ABC"):
                got = _read(f"{base}.{suffix}")
                want = (("=" + env[v]) if v in env else "").encode()
                if got is not None and got != want:
                    what = f"${v} was {_clip(got[1:])}" if got else f"${v} was unset"
                    self.flag(item, "env-mismatch", f"{what}, passed {env.get(v, '<not passed>')!r}")
            got = _read(base + ".cwd")
            if got is not None and got != item["cwd"].encode() + b"\n":
                self.flag(item, "cwd-mismatch", f"pwd was {_clip(got)}, expected {item['cwd']!r}")
            got = _read(base + ".arg")
            if got is not None and got != cmd["arg"].encode():
                self.flag(item, "arg-mismatch", f"argument seen {_clip(got)}, passed (shlex-quoted) {cmd['arg']!r}")


# ------------------------------------------------------------------------------------------------
# labels


def _meta_classes(strings) -> set[str]:
    found = set()
    for s in strings:
        for name, chars in META.items():
            if any(c in s for c in chars):
                found.add(name)
        if any(ord(c) > 127 for c in s):
            found.add("unicode")
    return found


def _has_metachar(cmd) -> bool:
    strings = list((cmd["env"] or {}).values()) + list(cmd["wd"] or [])
    return bool(_meta_classes(strings) - {"unicode"})


def _label_cmd(rec, cmd, prefix: str = "") -> None:
    n = len(_payload(cmd["out"]))
    size = "0" if n == 0 else "<4K" if n < 4096 else "<64K" if n < 65536 else "<128K" if n < LARGE_FROM else ">=128K"
    code = cmd["code"]
    rec.label(
        f"{prefix}focus:{cmd['focus']}",
        f"{prefix}out:{cmd['out']['k']}",
        f"{prefix}size:{size}",
        f"{prefix}code:{'0' if code == 0 else '1-125' if code < 126 else '126-255'}",
        f"{prefix}timeout:{cmd['t']}",
        f"{prefix}env:{'none' if cmd['env'] is None else len(cmd['env'])}",
        f"{prefix}workdir:{'none' if cmd['wd'] is None else 'set'}",
        f"{prefix}{'capture' if cmd['cap'] else 'no-capture'}",
    )
    if cmd["err"]:
        rec.label(f"{prefix}stderr-segment")
    for c in sorted(_meta_classes(list((cmd["env"] or {}).values()))):
        rec.label(f"{prefix}env-has:{c}")
    for c in sorted(_meta_classes(cmd["wd"] or [])):
        rec.label(f"{prefix}workdir-has:{c}")
    for c in sorted(_meta_classes([cmd["arg"]])):
        rec.label(f"{prefix}arg-has:{c}")


_KNOWN: set[str] | None = None


def _known_kinds() -> set[str]:
    """Kinds listed as known findings: used only to *order* the violations of one case (an unlisted kind is
    raised in preference to a listed one, so that listed defects do not mask anything else)."""
    global _KNOWN
    if _KNOWN is None:
        try:
            from vf.runner import load_known

            _KNOWN = {f["kind"] for f in load_known("C25")}
        except Exception:  # noqa: BLE001
            _KNOWN = set()
    return _KNOWN


# among *listed* kinds only: the one that needs the longer history first (every stale-output case also
# contains a re-execution), so that each listed finding keeps being counted and its replay reproduces its kind
_LISTED_ORDER = ["C25:shell:after-timeout:stale-output", "C25:shell:timeout:re-executed"]


def _raise_first(violations: list[tuple[str, str]]) -> None:
    if not violations:
        return
    known = _known_kinds()
    listed = [v for v in violations if v[0] in known]
    listed.sort(key=lambda v: _LISTED_ORDER.index(v[0]) if v[0] in _LISTED_ORDER else len(_LISTED_ORDER))
    ordered = [v for v in violations if v[0] not in known] + listed
    kind, message = ordered[0]
    others = sorted({k for k, _ in violations} - {kind})
    raise Violation(kind, message + (f"\n  (also in this case: {', '.join(others)})" if others else ""))


_CURRENT: contextvars.ContextVar = contextvars.ContextVar("vf_c25_item", default=None)


class _LogTap:
    """Filter on the StreamFlow logger: drops everything below ERROR (expected noise here) and notes, on the
    command being invoked in the current task, the 'Persistent shell failed ... falling back to direct exec:
    <reason>' warning of ``utils.run_in_shell`` - the only way to see from outside that ``BaseConnector.run``
    went through both mechanisms. Used for *bucketing* violations (which mechanism, which trigger), never
    for deciding that something is one."""

    def filter(self, record) -> bool:
        import logging

        if record.levelno >= logging.ERROR:
            return True
        try:
            msg = record.getMessage()
        except Exception:  # noqa: BLE001
            return False
        item = _CURRENT.get()
        if item is not None and msg.startswith("Persistent shell failed for location ") and ": falling back to direct exec: " in msg:
            item["fallbacks"].append(msg.split(": falling back to direct exec: ", 1)[1])
        return False


_TAP = _LogTap()


def _setup() -> None:
    # per shard, outside the per-case safety net: the connector package imports every connector's dependencies
    import streamflow.deployment.connector.local  # noqa: F401
    import streamflow.deployment.template  # noqa: F401
    import vf.fakes.shellremote  # noqa: F401
    from streamflow.log_handler import logger

    if _TAP not in logger.filters:
        logger.addFilter(_TAP)


# ------------------------------------------------------------------------------------------------
# running commands through a connector


async def _invoke(conn, loc, run: _Run, item, mode: str) -> None:
    from streamflow.core.exception import WorkflowExecutionException

    cmd = item["cmd"]
    kwargs = {}
    item["fallbacks"] = []
    _CURRENT.set(item)
    if mode in ("job", "local-job"):
        kwargs["job_name"] = f"/vf/step/{item['idx']}"
    if item["stdin"] is not None:
        kwargs["stdin"] = item["stdin"]
    call = asyncio.ensure_future(
        conn.run(
            loc,
            list(item["words"]),
            environment=None if cmd["env"] is None else dict(cmd["env"]),
            workdir=item["wd"],
            capture_output=cmd["cap"],
            timeout=item["timeout"],
            **kwargs,
        )
    )
    done, _ = await asyncio.wait({call}, timeout=item["allowance"])
    if not done:  # differential hang verdict, decided by the caller (never a plain wall-clock verdict)
        call.cancel()
        await asyncio.wait({call}, timeout=30)
        item["outcome"] = {"type": "hung", "allowance": item["allowance"]}
        item["fallback"] = item["fallbacks"][0] if item["fallbacks"] else None
        return
    try:
        value = call.result()
        item["outcome"] = {"type": "returned", "value": value}
    except (asyncio.TimeoutError, WorkflowExecutionException) as e:
        item["outcome"] = {"type": "timeout", "exc": f"{type(e).__name__}({str(e)[:200]!r})"}
    except Exception as e:  # noqa: BLE001 - judged, never swallowed
        item["outcome"] = {"type": "raised", "name": type(e).__name__, "exc": f"{type(e).__name__}: {str(e)[:300]}"}
    item["fallback"] = item["fallbacks"][0] if item["fallbacks"] else None


async def _make_connector(path: str, sandbox: str, buf: int = 65536):
    from vf.fakes.shellremote import ShellRemoteConnector, get_location

    if path in ("local", "local-job"):
        from streamflow.deployment.connector.local import LocalConnector

        conn = LocalConnector("__LOCAL__", sandbox)
    else:
        conn = ShellRemoteConnector(f"vf-{path}", sandbox, locations=1, transferBufferSize=buf)
    await conn.deploy(False)
    return conn, await get_location(conn)


class _Hung(Exception):
    def __init__(self, run: _Run, item: dict):
        super().__init__(f"{run.path} #{item['idx']} did not come back within {item['allowance']:.0f} s")
        self.run = run
        self.item = item


def _reference_sync(run: _Run, item: dict, limit: float) -> float | None:
    """The same command words, run directly by ``sh -c`` in a fresh process with plain ``subprocess`` (own state
    directory): how long the command itself takes under the present load. None = not finished within ``limit``."""
    import subprocess
    import time

    cmd = item["cmd"]
    stdin = open(item["stdin"], "rb") if item["stdin"] is not None else subprocess.DEVNULL
    t0 = time.monotonic()
    try:
        subprocess.run(
            ["sh", "-c", " ".join(item["ref_words"])],
            env={**os.environ, **(cmd["env"] or {})},
            cwd=item["cwd"],
            stdin=stdin,
            stdout=subprocess.PIPE if cmd["cap"] else subprocess.DEVNULL,
            stderr=subprocess.STDOUT,
            timeout=limit,
        )
    except subprocess.TimeoutExpired:
        return None
    finally:
        if item["stdin"] is not None:
            stdin.close()
    return time.monotonic() - t0


async def _reference(run: _Run, item: dict, limit: float = 600.0) -> float | None:
    return await asyncio.to_thread(_reference_sync, run, item, limit)


async def _run_sequence(path: str, root: str, sandbox: str, probe: str, cwd: str, cmds: list, stdin=None, buf: int = 65536,
                        factor: int = 1) -> _Run:
    """Run ``cmds`` in order on one fresh connector; a command marked ``par`` is issued concurrently with its
    predecessor (``asyncio.gather``, the way the data manager / remote paths issue commands). Results and
    counts are judged as the calls come back.

    Every call gets an *allowance* of ``factor * (max(60 s, 50 x t_ref) + 2 x timeout + 10 s)``, ``t_ref`` = the time
    the same command needs when run directly (measured first for large outputs and on the second attempt);
    a call that does not come back raises :class:`_Hung` - the caller decides (see ``_attempts``)."""
    run = _Run(root, "job" if path == "stdin" else path, probe, cwd)
    conn, loc = await _make_connector(path, sandbox, buf)
    timed_out_before = False
    try:
        groups: list[list[dict]] = []
        for cmd in cmds:
            item = run.add(cmd, stdin if path != "shell" else None)
            if path == "stdin" and item["stdin"] is None:
                raise HarnessError("stdin path without a stdin file")
            if cmd.get("par") and groups:
                groups[-1].append(item)
            else:
                groups.append([item])
        for group in groups:
            for item in group:
                if item["size"] >= LARGE_FROM or factor > 1:
                    item["t_ref"] = await _reference(run, item)
                    if item["t_ref"] is None:
                        raise HarnessError(f"the reference run of {' '.join(item['ref_words'])[:200]} did not finish (inconclusive)")
                item["allowance"] = factor * (max(60.0, 50.0 * (item["t_ref"] or 0.0)) + 2 * (item["timeout"] or 0) + 10.0) * len(group)
            if len(group) == 1:
                await _invoke(conn, loc, run, group[0], path)
            else:  # tasks start, and queue on the shell's lock, in list order
                await asyncio.gather(*(asyncio.create_task(_invoke(conn, loc, run, item, path)) for item in group))
            for item in group:
                if item["outcome"]["type"] == "hung":
                    raise _Hung(run, item)
            for item in group:
                run.judge_count(item, "when the call came back")
                run.judge_result(item, after_timeout=timed_out_before)
                if item["outcome"]["type"] == "timeout" or item["fallback"]:
                    timed_out_before = True
    finally:
        try:  # closes the persistent shell: it first executes everything it was sent (bounded by BaseShell itself)
            await asyncio.wait_for(conn.undeploy(False), 60)
        except asyncio.TimeoutError:
            pass
    return run


async def _attempts(sb, specs: list[dict]) -> list[_Run]:
    """Run the case (one ``_run_sequence`` per spec, concurrently). If a call hangs: kill everything, run the
    whole case once more with twice the allowance (reference times measured under the present load); if it
    hangs again while the same command run directly finishes, that is the violation - otherwise the case is
    inconclusive (harness error)."""
    for attempt in (1, 2):
        with _Procs() as procs:
            results = await asyncio.gather(
                *(
                    _run_sequence(spec["path"], os.path.join(sb.path, f"r-{spec['path']}-{attempt}"), sb.path, sb.probe, sb.cwd,
                                  spec["cmds"], spec.get("stdin"), spec.get("buf", 65536), factor=attempt)
                    for spec in specs
                ),
                return_exceptions=True,
            )
            states = [os.path.join(sb.path, f"r-{spec['path']}-{attempt}", "state") for spec in specs]
            hung = [r for r in results if isinstance(r, _Hung)]
            for r in results:
                if isinstance(r, BaseException) and not isinstance(r, _Hung):
                    procs.kill_all(states)
                    raise r
            if not hung:
                await procs.quiesce(states)
                return list(results)
            procs.kill_all(states)
            await procs.quiesce(states)
            if attempt == 2:
                h = hung[0]
                t_ref = await _reference(h.run, h.item, limit=h.item["allowance"])
                if t_ref is None:
                    raise HarnessError(f"{h}: the reference run did not finish either (inconclusive)")
                item = h.item
                suffix = "-on-large-output" if item["size"] >= LARGE_FROM else ""
                raise Violation(
                    f"C25:{h.run.path}:hangs{suffix}",
                    f"[{h.run.path} #{item['idx']}] run() did not come back within {item['allowance']:.0f} s (second attempt, twice the "
                    f"allowance of the first) while the same command run directly by `sh -c` finishes in {t_ref:.2f} s: "
                    f"{' '.join(item['words'])[:300]}\n  capture_output={item['cmd']['cap']} timeout={item['timeout']} output={item['size']} bytes "
                    f"buffer={[s.get('buf') for s in specs]}",
                )
    raise AssertionError("unreachable")


def _cap_cmd(cmd: dict, buf: int) -> dict:
    """The persistent shell re-scans its accumulated output after every read of ``buf`` bytes (quadratic): with a
    small buffer the payload is bounded so that a case stays cheap."""
    limit = buf * 512
    if cmd["out"]["n"] > limit:
        return dict(cmd, out=dict(cmd["out"], n=cmd["out"]["n"] % limit))
    return cmd


def _final_judgement(run: _Run) -> None:
    for item in run.items:
        run.judge_count(item, "after the sequence had quiesced")
        run.judge_observations(item)


class _Sandbox:
    def __enter__(self):
        import tempfile

        self.path = os.path.realpath(tempfile.mkdtemp(prefix="vf-c25-"))
        self.probe = os.path.join(self.path, "probe.sh")
        with open(self.probe, "w") as fh:
            fh.write(PROBE)
        self.cwd = os.path.join(self.path, "cwd")
        os.makedirs(self.cwd)
        self._old = os.getcwd()
        os.chdir(self.cwd)  # commands without a workdir run here: anything a mis-quoted value creates stays in the sandbox
        return self

    def __exit__(self, *exc) -> None:
        import shutil

        os.chdir(self._old)
        shutil.rmtree(self.path, ignore_errors=True)


# ------------------------------------------------------------------------------------------------
# sub-checks


@prop.given("sequence", _seq_cases, quick=60, thorough=2000, loop="std", shrink=False, case_timeout=1800, setup=_setup)
async def check_sequence(case, rec):
    """The same sequence on a persistent-shell connector and on a fresh-process connector (vf-shell with job
    names, or the local connector)."""
    fresh_path, buf = case.get("fresh", "job"), case.get("buf", 65536)
    cmds = [_cap_cmd(cmd, buf) for cmd in case["cmds"]]
    rec.label(f"len:{len(cmds)}", f"fresh:{fresh_path}", f"buffer:{buf}")
    for cmd in cmds:
        _label_cmd(rec, cmd, "cmd-")
    with _Sandbox() as sb:
        runs = await _attempts(sb, [{"path": "shell", "cmds": cmds, "buf": buf}, {"path": fresh_path, "cmds": cmds}])
        violations: list[tuple[str, str]] = []
        for run in runs:
            _final_judgement(run)
            violations.extend(run.violations)
        shell, job = runs
        # differential: persistent shell vs fresh processes, command by command
        for a, b in zip(shell.items, job.items):
            oa, ob = a["outcome"], b["outcome"]
            if "timeout" in (oa["type"], ob["type"]) or a["flagged"] or b["flagged"]:
                continue
            same = oa["type"] == ob["type"] and (
                oa["type"] != "returned"
                or oa["value"] == ob["value"]
                or (a["cmd"]["cap"] and oa["value"][1] == ob["value"][1]
                    and oa["value"][0].replace(shell.root, "<run>").strip() == ob["value"][0].replace(job.root, "<run>").strip())
            )
            if not same:
                violations.append(("C25:differential:shell-vs-fresh",
                                   f"[#{a['idx']}] persistent shell: {_clip(oa, 300)}; fresh process: {_clip(ob, 300)}"))
        # measured classification
        t_idx = [i["idx"] for i in shell.items if i["outcome"]["type"] == "timeout"]
        followed = bool(t_idx) and t_idx[0] < len(cmds) - 1
        rec.label(f"shell-timeouts:{min(len(t_idx), 3)}")
        if followed:
            rec.label("timeout-then-command")
            nxt = shell.items[t_idx[0] + 1]
            rec.label("after-timeout:" + ("capture" if nxt["cmd"]["cap"] else "no-capture"))
        if any(i["outcome"]["type"] == "returned" and i["cmd"]["code"] != 0 for i in shell.items[:-1]):
            rec.label("failure-then-command")
        if any(i["outcome"]["type"] == "returned" and i["cmd"]["out"]["k"] in ("text", "bin") for i in shell.items[:-1]):
            rec.label("no-trailing-newline-then-command")
        if any(i["cmd"]["t"] in ("sleep", "sleep-big") for i in shell.items):
            rec.label("slow-command-without-timeout")
        if not violations:
            rec.label("outcome:clean")
        rec.nontrivial(followed)
        _raise_first(violations)


@prop.given("single", _single_cases, quick=200, thorough=6000, loop="std", shrink=False, case_timeout=1800, setup=_setup)
async def check_single(case, rec):
    """One command on one path."""
    path, cmd = case["path"], case["cmd"]
    stdin = case["stdin"]
    if path == "shell":
        stdin = None
    elif path == "stdin" and stdin is None:
        stdin = {"name": "in.txt", "n": 17, "s": 0}
    buf = case.get("buf", 65536)
    if path == "shell":
        cmd = _cap_cmd(cmd, buf)
        rec.label(f"buffer:{buf}")
    rec.label(f"path:{path}")
    _label_cmd(rec, cmd)
    if stdin is not None:
        rec.label("stdin:hostile-name" if not _is_plain(stdin["name"]) else "stdin:plain-name")
    with _Sandbox() as sb:
        (run,) = await _attempts(sb, [{"path": path, "cmds": [cmd], "stdin": stdin, "buf": buf}])
        _final_judgement(run)
        item = run.items[0]
        rec.label(f"outcome:{item['outcome']['type']}")
        rec.nontrivial(_has_metachar(cmd))
        _raise_first(run.violations)



# ------------------------------------------------------------------------------------------------
# the shell reply protocol, deterministically (no process, no clock)

CHUNK_MODES = ["1", "7", "buf-1", "buf", "buf+1", "random", "random", "whole"]
MARKER_LIKE = [b"SF_CMD_END_", b"SF_CMD_END_00000000-0000-4000-8000-000000000000:7\n", b"SF_CMD_END", b":0\n", b"echo \"SF_CMD_END_x:$?\"\n"]


def _proto_cases():
    reply = st.fixed_dictionaries(
        {
            "k": st.sampled_from(["text", "text", "textnl", "textnl", "ws", "empty", "bin", "marker-like", "marker-like"]),
            "mult": st.integers(0, 3),  # payload length = mult * buffer + delta: sweeps the marker line over a read boundary
            "delta": st.integers(-70, 12),
            "s": st.integers(0, 999),
            "rc": codes,
            "cap": st.sampled_from([True, True, True, False]),
            "mode": st.sampled_from(CHUNK_MODES),
            "sizes": st.lists(st.integers(1, 300), min_size=1, max_size=12),
            "yields": st.lists(st.integers(0, 3), min_size=1, max_size=6),
            "timeout": st.sampled_from([None, None, 30]),
            "envwd": st.booleans(),
        }
    )
    return st.fixed_dictionaries({"buf": st.sampled_from([16, 64, 128, 1024, 65536]), "cmds": st.lists(reply, min_size=1, max_size=3)})


def _proto_payload(reply, buf: int) -> bytes:
    n = max(0, reply["mult"] * buf + reply["delta"])
    if reply["mode"] in ("1", "7") or buf > 1024:
        n %= 900 if reply["mode"] == "1" else 3000  # bounds the number of deliveries; the marker line still sweeps over the boundaries of small buffers
        if buf > 1024:
            n = max(0, n + reply["delta"])
    k = reply["k"]
    if k == "marker-like":
        body = _payload({"k": "text", "n": n, "s": reply["s"]})
        like = MARKER_LIKE[reply["s"] % len(MARKER_LIKE)]
        cut = len(body) // 2
        cut = len(body[:cut].decode("utf-8", "ignore").encode())
        return body[:cut] + like + body[cut:] + (like if reply["s"] % 2 else b"")
    return _payload({"k": k, "n": n, "s": reply["s"]})


def _pieces(data: bytes, mode: str, buf: int, sizes: list) -> list[bytes]:
    if mode == "whole" or not data:
        return [data] if data else []
    if mode == "random":
        out, pos, i = [], 0, 0
        while pos < len(data):
            step = sizes[i % len(sizes)]
            out.append(data[pos:pos + step])
            pos += step
            i += 1
        return out
    step = max(1, {"1": 1, "7": 7, "buf-1": buf - 1, "buf": buf, "buf+1": buf + 1}[mode])
    return [data[i:i + step] for i in range(0, len(data), step)]


@prop.given("protocol", _proto_cases, quick=2400, thorough=60000, loop="det", setup=_setup)
async def check_protocol(case, rec):
    """``BaseShell.execute`` / ``_read_with_output`` / ``_read_without_output`` against an in-memory shell: the
    command text written to the shell is parsed for its end marker (as a shell would see it), the scripted reply
    ``<output bytes><marker>:<rc>\\n`` is fed into a real ``asyncio.StreamReader`` in drawn pieces with drawn
    numbers of loop turns between them; ``read(buffer_size)`` returns what a pipe would return. Whatever the
    chunking, ``execute`` must return the scripted ``(output, rc)``; a reader still waiting when every byte has
    been delivered is a deadlock of the deterministic loop (exact verdict, kind ``C25:deadlock``)."""
    import re

    from streamflow.core.exception import WorkflowExecutionException
    from streamflow.deployment.shell import BaseShell

    buf = case["buf"]
    reads: list[int] = []
    state = {"feeder": None, "written": []}

    class Reader:
        def __init__(self) -> None:
            self.sr = asyncio.StreamReader(limit=2**22)

        async def read(self, n: int = -1) -> bytes:
            data = await self.sr.read(n)
            reads.append(len(data))
            return data

        async def close(self) -> None:
            pass

    class Writer:
        async def write(self, data) -> None:
            text = bytes(data).decode("utf-8")
            state["written"].append(text)
            found = re.findall(r'^echo "([^"\n]+):\$\?"$', text, flags=re.M)
            if len(found) != 1:
                raise HarnessError(f"cannot find the end-marker echo in the command sent to the shell: {text[-300:]!r}")
            script = state["script"]
            data_out = script["payload"] + f"{found[0]}:{script['rc']}\n".encode()
            script["marker_line"] = len(found[0]) + len(str(script["rc"])) + 2
            pieces = _pieces(data_out, script["mode"], buf, script["sizes"])

            async def feed():
                for i, piece in enumerate(pieces):
                    reader.sr.feed_data(piece)
                    for _ in range(script["yields"][i % len(script["yields"])]):
                        await asyncio.sleep(0)

            state["feeder"] = asyncio.ensure_future(feed())

        async def close(self) -> None:
            pass

    class FakeShell(BaseShell):
        async def _close(self) -> None:
            pass

    reader = Reader()
    shell = FakeShell(command=["sh"], buffer_size=buf)
    shell._reader = reader
    shell._writer = Writer()
    straddled = False
    for idx, reply in enumerate(case["cmds"]):
        payload = _proto_payload(reply, buf)
        state["script"] = {"payload": payload, "rc": reply["rc"], "mode": reply["mode"], "sizes": reply["sizes"], "yields": reply["yields"]}
        del reads[:]
        rec.label(f"chunks:{reply['mode']}", f"reply:{reply['k']}", "capture" if reply["cap"] else "no-capture",
                  "timeout:none" if reply["timeout"] is None else "timeout:set")
        where = f"[protocol #{idx}] buffer={buf} chunks={reply['mode']} payload={len(payload)} bytes rc={reply['rc']} capture={reply['cap']}"
        try:
            got = await shell.execute(
                command=["probe", f"c{idx}"],
                environment={"VF_A": "x y"} if reply["envwd"] else None,
                workdir="/w d" if reply["envwd"] else None,
                capture_output=reply["cap"],
                timeout=reply["timeout"],
            )
        except WorkflowExecutionException as e:
            delivered = state["feeder"] is not None and state["feeder"].done()
            raise Violation("C25:protocol:raises-on-complete-reply" if delivered else "C25:protocol:raises",
                            f"{where}: {type(e).__name__}: {e} (reads so far: {reads[-8:]})") from e
        await state["feeder"]
        # where the read boundaries fell relative to the marker line (measured)
        total, start = 0, len(payload)
        for n in reads[:-1]:
            total += n
            if start < total < start + state["script"]["marker_line"]:
                straddled = True
        if not reply["cap"]:
            if got is not None:
                raise Violation("C25:protocol:result-shape", f"{where}: capture_output=False returned {_clip(got)}")
            continue
        if not (isinstance(got, tuple) and len(got) == 2 and isinstance(got[0], str) and isinstance(got[1], int)):
            raise Violation("C25:protocol:result-shape", f"{where}: returned {_clip(got)}")
        out, status = got
        try:
            ok = out.strip() == payload.decode("utf-8").strip()
        except UnicodeDecodeError:
            ok = _ascii_skeleton(out) == _ascii_skeleton(payload)
        if not ok:
            raise Violation("C25:protocol:output-mismatch", f"{where}: returned {_clip(out, 300)}, scripted {_clip(payload, 300)} (reads {reads[:12]})")
        if status != reply["rc"]:
            raise Violation("C25:protocol:status-mismatch", f"{where}: returned status {status}")
    if reader.sr._buffer:
        raise Violation("C25:protocol:bytes-left-behind", f"buffer={buf}: {len(reader.sr._buffer)} reply bytes were not consumed")
    rec.label(f"buffer:{buf}", f"len:{len(case['cmds'])}")
    rec.nontrivial(straddled)


TEMPLATES = {
    "default": "#!/bin/sh\n\n{{streamflow_command}}",
    # the shape used by the repository's own test (tests/test_connector.py::test_command_template, service_b)
    "service": "#!/bin/sh\ncd {{ streamflow_workdir }}\n{{ streamflow_environment }}\n{{streamflow_command}}",
}


@prop.given("template", _tmpl_cases, quick=60, thorough=3000, loop="std", shrink=False, case_timeout=1800, setup=_setup)
async def check_template(case, rec):
    """create_command + CommandTemplateMap.get_command exactly as QueueManagerConnector.run calls them; the
    rendered script is executed by sh in a fresh process (the batch system's part)."""
    import subprocess

    from streamflow.core import utils
    from streamflow.deployment.template import CommandTemplateMap

    cmd, tmpl = case["cmd"], case["tmpl"]
    rec.label(f"template:{tmpl}")
    _label_cmd(rec, cmd)
    with _Sandbox() as sb:
        run = _Run(os.path.join(sb.path, "r"), "tmpl-service" if tmpl == "service" else "tmpl-default", sb.probe, sb.cwd)
        item = run.add(cmd)
        template_map = CommandTemplateMap(default=TEMPLATES["default"], template_map={"service": TEMPLATES["service"]})
        service = {"default": None, "service": "service", "unknown-service": "nope"}[tmpl]
        command_str = utils.create_command(
            class_name="SlurmConnector", command=list(item["words"]), environment=dict(cmd["env"]), workdir=item["wd"]
        )
        script = template_map.get_command(command=command_str, template=service, environment=dict(cmd["env"]), workdir=item["wd"])
        if not isinstance(script, str):
            raise Violation("C25:template:not-a-string", _clip(script))
        spath = os.path.join(sb.path, "job.sh")
        with open(spath, "wb") as fh:
            fh.write(script.encode("utf-8"))
        done = subprocess.run(["sh", spath], cwd=sb.cwd, stdin=subprocess.DEVNULL, stdout=subprocess.PIPE, stderr=subprocess.STDOUT, timeout=120)
        try:
            text = done.stdout.decode("utf-8")
        except UnicodeDecodeError:
            text = done.stdout.decode("utf-8", "replace")
        item["outcome"] = {"type": "returned", "value": (text, done.returncode)}
        item["cmd"] = dict(cmd, cap=True)
        run.judge_count(item, "when the script had finished")
        run.judge_result(item)
        if not item["flagged"] and done.stdout != item["expected"]:
            run.flag(item, "output-not-exact", f"script printed {_clip(done.stdout, 300)}, expected {_clip(item['expected'], 300)}")
        run.judge_observations(item)
        rec.nontrivial(_has_metachar(cmd))
        _raise_first(run.violations)
