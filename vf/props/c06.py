"""C06 Loops emit the last/all iteration values in iteration order, for any count."""
from __future__ import annotations

from hypothesis import strategies as st

from vf.core import Prop, Violation
from vf.engine import progs

prop = Prop(
    "C06",
    level="exploration",
    technique="Hypothesis PBT: real loop subgraph under chaos schedules vs reference interpreter; loop-output step alone under generated arrival orders vs a plain-Python model",
    rule=(
        "engine tier: the loop subgraph wired as the CWL translator wires it (forwarders, LoopCombinatorStep, loop condition, body, "
        "CWLLoopOutput{Last,All}Step, LoopTerminationCombinator, back-propagation), optionally inside a scatter of 1..4 instances "
        "with per-instance bounds 0..15 and followed by a gather, under a drawn schedule; direct tier: a CWLLoopOutput step alone, "
        "fed per instance P the values P.0..P.(n-1) and the iteration-termination token P.n in a drawn interleaving (values "
        "permuted, termination token anywhere), TerminationToken last. Non-trivial = an instance with n >= 2 (engine), resp. "
        "n >= 2 with out-of-order arrival (direct); distinct by the whole case."
    ),
    level_text="Random search with an explicit per-instance oracle: exactly one output per instance, last value (None for 0 iterations) or the ordered list of all values, termination only afterwards.",
    level_note="The loop body and condition are harness transformers (pure functions); CWL expression evaluation is covered by C29. Upstream termination always follows the last token of every instance (R1a).",
)
prop.engine = "detloop"

bounds = st.lists(st.one_of(st.integers(0, 15), st.sampled_from([0, 1, 2, 10, 11, 15])), min_size=1, max_size=4)
engine_case = st.fixed_dictionaries(
    {
        "bounds": bounds,
        "scatter": st.booleans(),
        "method": st.sampled_from(["last", "all"]),
        "gather": st.booleans(),
        "post": st.sampled_from(["none", "map", "loop"]),
        "schedule": progs.schedule_strategy,
    }
)


def _value_with_bound(b: int, m: int = 16) -> int:
    """an int v with loop_bound(v, 16) == b"""
    return b + 16 * 3


def _engine_prog(case):
    m = 16
    vals = [_value_with_bound(b) for b in case["bounds"]]
    if case["scatter"]:
        prog = [{"op": "source", "value": vals}, {"op": "scatter", "src": 0}, {"op": "loop", "src": 1, "m": m, "method": case["method"]}]
    else:
        prog = [{"op": "source", "value": vals[0]}, {"op": "loop", "src": 0, "m": m, "method": case["method"]}]
    last = len(prog) - 1
    if case["post"] == "map":
        prog.append({"op": "map", "src": last, "fn": "h"})
        last += 1
    elif case["post"] == "loop":
        prog.append({"op": "loop", "src": last, "m": 4, "method": "all"})
        last += 1
    if case["scatter"] and case["gather"]:
        prog.append({"op": "gather", "src": last})
    return prog


@prop.given("engine-loop", engine_case, quick=900, thorough=60000)
async def check_engine(case, rec):
    from vf.engine.runprog import compare_with_reference, run_program
    from streamflow.workflow.token import TerminationToken

    prog = _engine_prog(case)
    r = await run_program(prog, case["schedule"])
    if r.outcome != "returned":
        raise Violation("C06:run-failed", f"{r.exception!r}; prog={prog}")
    compare_with_reference(r, "C06")
    # explicit statement of the property on the loop's output stream (independent of the interpreter)
    loop_block = next(b for b in r.blocks if b["op"] == "loop")
    bnds = case["bounds"] if case["scatter"] else case["bounds"][:1]
    out = r.got[loop_block["out"]]
    for i, b in enumerate(bnds):
        tag = f"0.{i}" if case["scatter"] else "0"
        if tag not in out:
            raise Violation("C06:instance-output-missing", f"instance {tag} (bound {b}) emitted nothing; prog={prog}")
        v = out[tag]
        if case["method"] == "last":
            ok = (v is None) if b == 0 else (isinstance(v, list) and v[1] == b)
        else:
            ok = isinstance(v, list) and [s[1] for s in v] == list(range(1, b + 1))
        if not ok:
            raise Violation("C06:iteration-order" if case["method"] == "all" else "C06:last-value", f"instance {tag} bound {b}: {v}; prog={prog}")
    toks = r.port_tokens[loop_block["out"]]
    if not isinstance(toks[-1], TerminationToken):
        raise Violation("C06:terminated-before-outputs", f"loop output port history {[type(t).__name__ for t in toks]}")
    if r.pending:
        raise Violation("C06:pending-tasks", f"{r.pending} pending tasks")
    rec.label(f"method={case['method']}", "scatter" if case["scatter"] else "single", f"post={case['post']}")
    if 0 in bnds:
        rec.label("n=0")
    if max(bnds) >= 10:
        rec.label("n>=10")
    if len(set(bnds)) >= 2:
        rec.label("different-counts")
    rec.nontrivial(max(bnds) >= 2)


# ---- direct tier: the loop output step alone -----------------------------------------------------

instance = st.fixed_dictionaries(
    {
        "n": st.one_of(st.integers(0, 15), st.sampled_from([0, 1, 2, 10, 11])),
        "ranks": st.lists(st.integers(0, 40), max_size=17),
    }
)
direct_case = st.fixed_dictionaries(
    {
        "method": st.sampled_from(["last", "all"]),
        "prefix": st.sampled_from(["0", "0.3", "0.11"]),
        "scattered": st.booleans(),
        "instances": st.lists(instance, min_size=1, max_size=4),
        "interleave": st.lists(st.integers(0, 40), max_size=40),
    }
)


@prop.given("direct-loop-output", direct_case, quick=3000, thorough=200000)
async def check_direct(case, rec):
    import asyncio

    from streamflow.core.workflow import Token, Workflow
    from streamflow.cwl.step import CWLLoopOutputAllStep, CWLLoopOutputLastStep
    from streamflow.workflow.token import IterationTerminationToken, ListToken, TerminationToken
    from vf.engine.detloop import pending_tasks, settle
    from vf.engine.harness import data_tokens, make_context

    insts = case["instances"] if case["scattered"] else case["instances"][:1]
    ctx = make_context()
    try:
        wf = Workflow(context=ctx, name="w", config={})
        pin, pout = wf.create_port(), wf.create_port()
        step = wf.create_step(CWLLoopOutputAllStep if case["method"] == "all" else CWLLoopOutputLastStep, name="/lo")
        step.add_input_port("x", pin)
        step.add_output_port("x", pout)
        await wf.save(ctx.database)
        # per instance: ordered event list (values permuted by ranks, termination token at its rank)
        per_inst = []
        shuffled = False
        for k, inst in enumerate(insts):
            P = f"{case['prefix']}.{k}" if case["scattered"] else case["prefix"]
            n = inst["n"]
            evs = [("v", i) for i in range(n)] + [("t", n)]
            ranks = inst["ranks"]
            order = sorted(range(len(evs)), key=lambda i: (ranks[i % len(ranks)] if ranks else i, i))
            evs = [evs[i] for i in order]
            if n >= 2 and [e for e in evs if e[0] == "v"] != [("v", i) for i in range(n)]:
                shuffled = True
            if n >= 2 and evs[-1][0] != "t":
                shuffled = True
            per_inst.append((P, n, evs))
        # interleave instances: repeatedly pick the instance given by the next interleave value
        queues = [list(evs) for _, _, evs in per_inst]
        merged = []
        il = case["interleave"]
        j = 0
        while any(queues):
            live = [q for q in range(len(queues)) if queues[q]]
            q = live[(il[j % len(il)] if il else 0) % len(live)]
            j += 1
            merged.append((q, queues[q].pop(0)))
        task = asyncio.create_task(step.run())
        await settle()
        for q, (kind, i) in merged:
            P = per_inst[q][0]
            if kind == "v":
                tok = Token(value=f"{P}#{i}", tag=f"{P}.{i}")
                await tok.save(ctx.database, pin.persistent_id)
            else:
                tok = IterationTerminationToken(tag=f"{P}.{i}")
            pin.put(tok)
            await settle()
        pin.put(TerminationToken())
        await settle()
        if not task.done():
            raise Violation("C06:loop-output-hang", "loop output step did not finish after upstream termination")
        task.result()
        if pending_tasks():
            raise Violation("C06:pending-tasks", f"{len(pending_tasks())} pending")
        toks = pout.token_list
        if not toks or not isinstance(toks[-1], TerminationToken) or sum(isinstance(t, TerminationToken) for t in toks) != 1:
            raise Violation("C06:termination", f"{[type(t).__name__ for t in toks]}")
        outs = data_tokens(pout)
        got: dict[str, object] = {}
        for t in outs:
            if t.tag in got:
                raise Violation("C06:duplicate-instance-output", f"two outputs for {t.tag}")
            got[t.tag] = t
        exp_tags = {P for P, _, _ in per_inst}
        if set(got) != exp_tags:
            raise Violation("C06:instance-output-missing" if exp_tags - set(got) else "C06:extra-output", f"outputs for {sorted(got)}, expected {sorted(exp_tags)}")
        for P, n, _ in per_inst:
            t = got[P]
            if case["method"] == "all":
                if not isinstance(t, ListToken):
                    raise Violation("C06:all-not-a-list", type(t).__name__)
                vals = [x.value for x in t.value]
                exp = [f"{P}#{i}" for i in range(n)]
                if vals != exp:
                    raise Violation("C06:iteration-order" if sorted(vals) == sorted(exp) else "C06:all-values", f"{P}: {vals} expected {exp}")
            else:
                exp = f"{P}#{n - 1}" if n else None
                if t.value != exp:
                    raise Violation("C06:last-value", f"{P}: {t.value!r} expected {exp!r}")
        rec.label(f"method={case['method']}", f"instances={len(per_inst)}")
        ns = [n for _, n, _ in per_inst]
        if 0 in ns:
            rec.label("n=0")
        if max(ns) >= 10:
            rec.label("n>=10")
        if len(set(ns)) >= 2:
            rec.label("different-counts")
        if any(evs[-1][0] != "t" and n >= 1 for _, n, evs in per_inst):
            rec.label("iteration-termination-before-last-value")
        rec.nontrivial(shuffled)
    finally:
        await ctx.close()
