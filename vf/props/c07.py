"""C07 Recorded provenance is complete and acyclic."""
from __future__ import annotations

from hypothesis import strategies as st

from vf.core import HarnessError, Prop, Violation
from vf.engine import progs

prop = Prop(
    "C07",
    level="exploration",
    technique="Hypothesis PBT: generated workflow programs x chaos schedules; the provenance and token tables read back with plain sqlite3 are compared with an independent per-step-type dependency model over the tokens actually on the ports",
    rule=(
        "programs as in C04/C05 (all block kinds incl. loops and schedule+execute) run to completion under a drawn schedule; "
        "afterwards every data token on every port must be persisted on that port and its recorded dependees must equal the set "
        "predicted by a rule table per step type (transformer/conditional: same-tag inputs; scatter: the list token; gather: size "
        "token + elements; dot product: the prefix-matching token of every port; cartesian product: the indexed element of every port; loop combinator: previous iteration; loop output: "
        "all collected iteration tokens; schedule: inputs + connector tokens; execute: inputs + job token); the relation must be "
        "acyclic with dependee id < depender id and reference only existing tokens. Non-trivial = >= 5 data tokens with >= 1 "
        "multi-parent token; distinct by the whole case."
    ),
    level_text="Random search; both directions are checked (no missing and no extra provenance edge) for every emitted data token of the run.",
    level_note="Control tokens (TerminationToken, IterationTerminationToken) are outside the completeness clauses, as the statement speaks of emitted data; acyclicity / referential clauses cover every row. Recovery workflows' provenance is exercised by the recovery checks' own runs.",
)
prop.engine = "detloop"

ALL_OPS = ("map", "zip", "scatter", "gather", "cond", "loop", "exec", "cross", "shuffle", "join")
case_strategy = st.fixed_dictionaries(
    {"prog": progs.program_strategy(ops=ALL_OPS), "schedule": progs.schedule_strategy, "durations": progs.durations_strategy}
)


def _is_prefix(p: str, t: str) -> bool:
    a, b = p.split("."), t.split(".")
    return b[: len(a)] == a


def _data(port):
    from streamflow.workflow.token import IterationTerminationToken, TerminationToken

    return [t for t in port.token_list if not isinstance(t, (TerminationToken, IterationTerminationToken))]


def expected_dependees(step, port_name_role, t, wf):
    """Return the list of tokens `t` (found on an output/skip port of `step`) must depend on if this
    step produced it, or None if this step cannot have produced it. Independent model, keyed by
    step type; uses only the (port, tag) structure of the tokens actually present."""
    from streamflow.cwl.transformer import CloneTransformer
    from streamflow.workflow.combinator import CartesianProductCombinator, LoopTerminationCombinator
    from streamflow.workflow.port import ConnectorPort, JobPort
    from streamflow.workflow.step import (
        CombinatorStep, ConditionalStep, DeployStep, ExecuteStep, GatherStep, LoopCombinatorStep, LoopOutputStep,
        ScatterStep, ScheduleStep, Transformer,
    )
    from streamflow.workflow.token import JobToken

    ins = {n: _data(p) for n, p in step.get_input_ports().items()}

    def same_tag(ports):
        deps = []
        for n in ports:
            m = [x for x in ins[n] if x.tag == t.tag]
            if len(m) != 1:
                return None
            deps.append(m[0])
        return deps

    if isinstance(step, DeployStep):
        return []
    if isinstance(step, ScatterStep):
        (n,) = ins
        tag = t.tag if port_name_role == "__size__" else t.tag.rsplit(".", 1)[0]
        m = [x for x in ins[n] if x.tag == tag]
        return m if len(m) == 1 else None
    if isinstance(step, GatherStep):
        size = [x for x in ins["__size__"] if x.tag == t.tag]
        other = next(n for n in ins if n != "__size__")
        d = step.depth
        els = [x for x in ins[other] if ".".join(x.tag.split(".")[:-d]) == t.tag]
        return size + els if len(size) == 1 else None
    if isinstance(step, LoopOutputStep):
        (n,) = ins
        return [x for x in ins[n] if x.tag.rsplit(".", 1)[0] == t.tag and x.tag != t.tag]
    if isinstance(step, LoopCombinatorStep):
        (n,) = ins
        pre, k = t.tag.rsplit(".", 1)
        want = pre if k == "0" else f"{pre}.{int(k) - 1}"
        m = [x for x in ins[n] if x.tag == want]
        return m if len(m) == 1 else None
    if isinstance(step, CombinatorStep):
        if isinstance(step.combinator, LoopTerminationCombinator):
            return None  # emits control tokens only
        if isinstance(step.combinator, CartesianProductCombinator):
            # output tag = group tag + one index per item (in item order); item k's input is group.index_k
            items = list(step.combinator.items)
            parts = t.tag.split(".")
            group, idxs = parts[: -len(items)], parts[-len(items):]
            deps = []
            for n, i in zip(items, idxs, strict=True):
                m = [x for x in ins[n] if x.tag == ".".join([*group, i])]
                if len(m) != 1:
                    return None
                deps.append(m[0])
            return deps
        deps = []
        for n in ins:
            m = [x for x in ins[n] if _is_prefix(x.tag, t.tag)]
            if len(m) != 1:
                return None
            deps.append(m[0])
        return deps
    if isinstance(step, ScheduleStep):
        if not isinstance(t, JobToken):
            return None
        deps = []
        for n, p in step.get_input_ports().items():
            if isinstance(p, ConnectorPort):
                deps.extend(x for x in ins[n] if x.persistent_id)
            else:
                m = [x for x in ins[n] if x.tag == t.tag]
                if len(m) != 1:
                    return None
                deps.append(m[0])
        return deps
    if isinstance(step, ExecuteStep):
        deps = []
        for n, p in step.get_input_ports().items():
            if isinstance(p, JobPort):
                m = [x for x in ins[n] if isinstance(x, JobToken) and x.tag == t.tag]
            elif isinstance(p, ConnectorPort):
                continue
            else:
                m = [x for x in ins[n] if x.tag == t.tag]
            if len(m) != 1:
                return None
            deps.append(m[0])
        return deps
    if isinstance(step, ConditionalStep):
        deps = same_tag(list(ins))
        if deps is None:
            return None
        true_ports = list(step.get_output_ports().values())
        took_true = any(any(x.tag == t.tag for x in _data(p)) for p in true_ports)
        if port_name_role == "skip":
            return None if took_true else deps
        return deps if took_true else None
    if isinstance(step, CloneTransformer):
        parent = t.tag.rsplit(".", 1)[0]
        deps = []
        for n in ins:
            m = [x for x in ins[n] if x.tag == parent]
            if len(m) != 1:
                return None
            deps.append(m[0])
        return deps
    if isinstance(step, Transformer):
        return same_tag([n for n in ins if n != "__job__"])
    raise HarnessError(f"no provenance rule for step type {type(step).__name__}")


@prop.given("programs", case_strategy, quick=900, thorough=40000)
async def check(case, rec):
    from streamflow.workflow.token import IterationTerminationToken, TerminationToken
    from vf.engine.runprog import classify, run_program

    r = await run_program(case["prog"], case["schedule"], read_tables=True, durations=case.get("durations"))
    if r.outcome != "returned":
        raise Violation("C07:run-failed", f"{r.exception!r}; blocks={r.blocks}")
    wf = r.wf
    token_rows = {row["id"]: row for row in r.tables["token"]}
    deps_of: dict[int, set[int]] = {}
    for row in r.tables["provenance"]:
        a, b = row["dependee"], row["depender"]
        if a not in token_rows or b not in token_rows:
            raise Violation("C07:dangling-provenance-row", f"row {row} references a missing token")
        if not a < b:
            raise Violation("C07:dependee-not-older", f"row {row}: dependee must be persisted before its depender")
        deps_of.setdefault(b, set()).add(a)
    # producers per port (output ports and conditional skip ports)
    producers: dict[str, list] = {}
    for s in wf.steps.values():
        for n, pname in s.output_ports.items():
            producers.setdefault(pname, []).append((s, n))
        for n, pname in getattr(s, "skip_ports", {}).items():
            producers.setdefault(pname, []).append((s, "skip"))
    ndata = 0
    multi = 0
    seen_ids = set()
    for pname, port in wf.ports.items():
        for t in port.token_list:
            if isinstance(t, (TerminationToken, IterationTerminationToken)):
                continue
            ndata += 1
            if not t.persistent_id:
                raise Violation("C07:token-not-persisted", f"data token tag {t.tag} on a port of {[s.name for s, _ in producers.get(pname, [])]} has no persistent id; blocks={r.blocks}")
            row = token_rows.get(t.persistent_id)
            if row is None:
                raise Violation("C07:token-row-missing", f"token id {t.persistent_id} not in the token table")
            if row["port"] != port.persistent_id:
                raise Violation("C07:token-row-wrong-port", f"token {t.persistent_id} tag {t.tag} recorded on port {row['port']}, emitted on {port.persistent_id}")
            if row["tag"] != t.tag:
                raise Violation("C07:token-row-wrong-tag", f"token {t.persistent_id}: row tag {row['tag']} vs {t.tag}")
            if t.persistent_id in seen_ids:
                raise Violation("C07:token-id-reused", f"persistent id {t.persistent_id} appears twice on ports")
            seen_ids.add(t.persistent_id)
            cands = producers.get(pname, [])
            got = deps_of.get(t.persistent_id, set())
            if not cands:  # source port
                exp = []
                who = "source"
            else:
                appl = [(s, expected_dependees(s, role, t, wf)) for s, role in cands]
                appl = [(s, e) for s, e in appl if e is not None]
                if len(appl) != 1:
                    raise HarnessError(f"producer of token {t.tag} on port of {[s.name for s, _ in cands]} is ambiguous: {[s.name for s, _ in appl]}; blocks={r.blocks}")
                who, exp = appl[0][0].name, appl[0][1]
                who = type(appl[0][0]).__name__
            exp_ids = {e.persistent_id for e in exp}
            if None in exp_ids:
                raise Violation("C07:dependee-not-persisted", f"{who}: an input of token {t.tag} has no persistent id")
            if got != exp_ids:
                kind = "missing-edge" if exp_ids - got else "extra-edge"
                raise Violation(f"C07:{who}:{kind}", f"token tag {t.tag} (id {t.persistent_id}) emitted by {who}: recorded dependees {sorted(got)}, expected {sorted(exp_ids)}; blocks={r.blocks}")
            if len(exp_ids) >= 2:
                multi += 1
    classify(r, rec)
    rec.label("tokens>=20" if ndata >= 20 else "tokens<20")
    rec.nontrivial(ndata >= 5 and multi >= 1)
