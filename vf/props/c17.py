"""C17 Retries are bounded and exhausted retries fail the workflow."""
from __future__ import annotations

from vf.core import HarnessError, Prop, Violation

prop = Prop(
    "C17",
    level="fault_enumeration",
    technique=(
        "fault injection with failure counts around the retry limit on a deterministic event loop; oracle from the "
        "harness execution log (independent start / schedule / recover counters): bound on executions, raise iff the "
        "limit is reached (exact for soft failures), no retry at all with the dummy failure manager"
    ),
    rule=(
        "scenario = C16 shape + max_retries 1..5 + per-job planned failure counts 1..limit+2 in the schedule, transfer or "
        "execute phase (+ dummy-manager runs). Non-trivial = some job whose planned failures are limit-1, limit or limit+1 "
        "and whose failures were actually injected (dummy: at least one failure injected); distinct by the whole case."
    ),
    level_text=(
        "Failure counts straddling the limit are generated for every phase and shape; the number of starts, schedule "
        "attempts and recoveries of every job is counted by the harness, independently of the failure manager's own counter."
    ),
    level_note=(
        "The bound is the one the code documents and tests/test_recovery.py::test_exceed_max_retries_poison_pill pins: a "
        "job is started at most max_retries times in total (RecoveryRequest.version starts at 1; a failure at version == "
        "max_retries aborts). 'Completes iff every job fails fewer than max_retries times' is asserted exactly for soft "
        "failures only; with fail-stop failures collateral failures and roll-backs also consume retries, so only the bound, "
        "'planned failures >= limit => raise' and 'raise => some recovery was refused' are asserted."
    ),
    assumptions=["schedules are delays at external waits", "harness commands/steps follow tests/utils/workflow.py with in-memory failure counters"],
)
prop.engine = "detloop"


def _survey(fn):
    from vf import recovery_kit as K

    return K.survey(fn)


def _case(fail_kinds, managers):
    def build():
        from hypothesis import strategies as st

        from vf import recovery_kit as K

        return st.fixed_dictionaries(
            {
                "shape": K.st_shape(kinds=("pipeline", "scatter", "diamond", "loop"), max_width=5),
                "plan": K.st_plan(max_points=3, max_times=7, kinds=fail_kinds, min_points=1),
                "limit": st.sampled_from([1, 2, 2, 3, 3, 4, 5]),
                "manager": st.sampled_from(managers),
                "schedule": K.st_schedule(),
                "wait_order": st.sampled_from([0, 0, 1, 2, 3]),
            }
        )

    return build


async def _run(case):
    from vf import recovery_kit as K

    shape = K.Shape(case["shape"])
    limit = int(case["limit"])
    raw = [[e[0], e[1], e[2], e[3], 1 + (int(e[4]) - 1) % (limit + 2)] for e in case["plan"]]
    plan = K.resolve_plan(shape, raw)
    for p in plan:  # merged duplicates stay within 1..limit+2
        p["times"] = min(p["times"], limit + 2)
    await K.baseline(case["shape"])
    res = await K.run_scenario(case["shape"], plan, max_retries=limit, schedule=case["schedule"], manager=case["manager"],
                               wait_order=case.get("wait_order", 0))
    return K, shape, limit, plan, res


def _common(K, rec, res, limit):
    view = K.View(res)
    K.classify(rec, res, view)
    rec.label(f"limit={limit}")
    if res.deadlock is not None:
        raise Violation(f"C17:deadlock:{view.deadlock_kind()}", f"plan {res.plan} limit {limit}\n{res.deadlock}\nlog tail {res.run.events[-10:]}")
    if res.raised is not None and view.raised_kind().startswith("raised:internal-error"):
        # an error inside the recovery machinery is re-submitted to recover() without consuming a retry
        # (unbounded, up to RecursionError): "retries are bounded" does not hold for it
        n = sum(1 for e in view.recoveries if e["exc"] not in ("WorkflowExecutionException", "FailureHandlingException"))
        raise Violation(f"C17:{view.raised_kind()}", f"{n} recover() calls for internal errors; plan {res.plan} limit {limit}; versions {res.versions}")
    if res.raised is not None and res.run.capped:
        # cut off by the harness' recover() call cap: a retry storm that max_retries did not stop
        kind = "raised:loop-recovery" if res.shape.kind == "loop" else "raised:runaway-recovery"
        raise Violation(f"C17:{kind}", f"more than {res.run.recover_cap} recover() calls; plan {res.plan} limit {limit}; versions {res.versions}")
    return view


def _bound(view, limit, res):
    for job, n in view.starts.items():
        if n > limit:
            raise Violation("C17:started-more-than-max-retries", f"{job} started {n} times, max_retries={limit}; plan {res.plan}; versions {res.versions}")
    # a job reaches an injection point once per attempt: more than max_retries injected failures of one
    # job means more than max_retries attempts (recover() *calls* may be more: the failure of a recovery
    # workflow re-enters recover(), which is refused at once)
    for job, n in _injected(view).items():
        if n > limit:
            raise Violation("C17:attempted-more-than-max-retries", f"{job} failed {n} times, max_retries={limit}; plan {res.plan}")


def _injected(view):
    out = {}
    for e in view.fails:
        out[e["job"]] = out.get(e["job"], 0) + 1
    return out


def _refused(view):
    return [e for e in view.exits.values() if e["outcome"] == "FailureHandlingException"]


def _near_limit(view, limit):
    injected = {}
    for e in view.fails:
        injected[e["job"]] = injected.get(e["job"], 0) + 1
    return any(abs(n - limit) <= 1 and injected.get(j, 0) >= min(n, limit) for j, n in view.planned_total.items())


@prop.given("soft-exact", _case(("soft",), ["default"]), quick=600, thorough=20000)
@_survey
async def check_soft(case, rec):
    K, shape, limit, plan, res = await _run(case)
    view = _common(K, rec, res, limit)
    _bound(view, limit, res)
    exhausted = sorted(j for j, n in view.planned_total.items() if n >= limit)
    rec.label("exhausted" if exhausted else "within-limit")
    if exhausted:
        if res.raised is None:
            raise Violation("C17:no-raise-after-exhausted-retries", f"jobs {exhausted} fail >= {limit} times by plan {plan}, the workflow completed; versions {res.versions}")
        if not _refused(view):
            raise Violation("C17:raise-without-refused-recovery", f"raised {res.raised_msg!r} but no recovery ended with FailureHandlingException; plan {plan}")
        if not any(_injected(view).get(j, 0) == limit for j in exhausted):
            raise Violation("C17:abort-before-limit", f"no exhausted job reached {limit} attempts: {_injected(view)}; plan {plan}")
    else:
        if res.raised is not None:
            raise Violation("C17:raise-within-limit", f"{res.raised_msg!r}; every job fails fewer than {limit} times: {plan}; versions {res.versions}")
        if res.output != shape.reference_output():
            raise Violation("C17:" + view.output_kind(res.output, res.shape.reference_output()), f"{res.output!r} != {shape.reference_output()!r}; plan {plan}")
        for job in shape.jobs():
            exp = 1 + view.planned_exec.get(job, 0)
            if view.starts.get(job, 0) != exp:
                raise Violation("C17:start-count", f"{job} started {view.starts.get(job, 0)} times, expected {exp}; plan {plan}")
            if view.own_any.get(job, 0) != view.planned_total.get(job, 0):
                raise Violation("C17:recovery-count", f"{job} recovered {view.own_any.get(job, 0)} times, {view.planned_total.get(job, 0)} failures planned")
    rec.nontrivial(_near_limit(view, limit))


def _uncounted_overlap(view, res):
    """jobs with two recoveries open at the same time that were entered from *different* failed steps
    (e.g. the two transfer steps of a job with two inputs, the second failing collaterally after the
    first one's fail-stop) and with more recoveries that ran a recovery workflow than retry-counter
    increments"""
    out = []
    spans = {}
    for e in view.recoveries:
        x = view.exits.get(e["rid"])
        spans.setdefault(e["job"], []).append((e["seq"], x["seq"] if x else 1 << 60, e["step"], x["outcome"] if x else "open"))
    for job, sp in spans.items():
        overlap = any(a[0] < b[0] < a[1] and a[2] != b[2] for a in sp for b in sp)
        # recoveries of the job that went on to build and run a recovery workflow (not refused)
        rids = {e["rid"] for e in view.recoveries if e["job"] == job}
        accepted = sum(1 for rid in res.run.wf_rid.values() if rid in rids)
        if overlap and accepted > res.versions.get(job, 1) - 1:
            out.append(job)
    return sorted(out)


@prop.given("fail-stop-bound", _case(("soft", "stop", "stop"), ["default"]), quick=400, thorough=15000)
@_survey
async def check_stop(case, rec):
    K, shape, limit, plan, res = await _run(case)
    view = _common(K, rec, res, limit)
    uncounted = _uncounted_overlap(view, res)
    try:
        _bound(view, limit, res)
    except Violation as v:
        if uncounted and v.kind == "C17:attempted-more-than-max-retries":
            raise Violation("C17:failure-not-counted-for-overlapping-recoveries-of-one-job", f"{uncounted}: {v.message}") from None
        raise
    exhausted = sorted(j for j, n in view.planned_total.items() if n >= limit)
    rec.label("exhausted-by-plan" if exhausted else "within-limit-by-plan", "raised" if res.raised else "completed")
    if exhausted and res.raised is None and set(exhausted) <= set(uncounted):
        raise Violation(
            "C17:failure-not-counted-for-overlapping-recoveries-of-one-job",
            f"{uncounted} failed {limit} times or more by plan {plan} but the workflow completed: recover() calls {view.own_any}, retry counters {res.versions}",
        )
    if exhausted and res.raised is None:
        raise Violation("C17:no-raise-after-exhausted-retries", f"jobs {exhausted} fail >= {limit} times by plan {plan}, the workflow completed; versions {res.versions}")
    if res.raised is not None and not _refused(view):
        raise Violation("C17:raise-without-refused-recovery", f"raised {res.raised_msg!r} but no recovery ended with FailureHandlingException; plan {plan}; versions {res.versions}")
    if res.raised is None:
        if res.output != shape.reference_output():
            raise Violation("C17:" + view.output_kind(res.output, res.shape.reference_output()), f"{res.output!r} != {shape.reference_output()!r}; plan {plan}")
        if res.unjustified_lost:
            raise Violation("C17:output-file-missing", str(res.unjustified_lost))
    rec.nontrivial(_near_limit(view, limit))


@prop.given("dummy-manager", _case(("soft", "stop"), ["dummy"]), quick=200, thorough=8000)
@_survey
async def check_dummy(case, rec):
    K, shape, limit, plan, res = await _run(case)
    view = _common(K, rec, res, limit)
    if not plan:  # loop with 0 iterations: there is no job to fail
        if res.raised is not None:
            raise Violation("C17:raise-without-failure", res.raised_msg)
        rec.nontrivial(False)
        return
    if res.raised is None:
        raise Violation("C17:dummy-manager-no-raise", f"failures {plan} injected {len(view.fails)} times, the workflow completed without a failure manager")
    for job, n in view.starts.items():
        if n > 1:
            raise Violation("C17:dummy-manager-retry", f"{job} started {n} times without a failure manager; plan {plan}")
    for job, n in view.scheds.items():
        if n > 1:
            raise Violation("C17:dummy-manager-retry", f"{job} scheduled {n} times without a failure manager; plan {plan}")
    per_job = {}
    for e in view.fails:
        per_job[e["job"]] = per_job.get(e["job"], 0) + 1
    if any(n > 1 for n in per_job.values()):
        raise Violation("C17:dummy-manager-retry", f"a job reached its failure point twice: {per_job}")
    if res.recovery_workflows:
        raise Violation("C17:dummy-manager-recovery-workflow", f"{res.recovery_workflows} recovery workflows created")
    rec.nontrivial(len(view.fails) >= 1)
