"""C26 Deployments follow a safe lifecycle under concurrent requests.

Code under test: ``DefaultDeploymentManager`` (+ ``FutureConnector``, ``ConnectorWrapper``) driven by
request tasks on the deterministic loop; connectors are the in-memory fakes of
``vf.fakes.deployfakes``; the oracle reads only the fakes' event log and the requests' outcomes.

Caller analysis (what histories are generated, ground rule 1):

* ``deploy(cfg)`` is called by every ``DeployStep.run`` (one per deployment and workflow; recovery
  workflows re-load and re-run DeploySteps while the original workflow is still running); connector
  calls reach a lazy deployment through the ``FutureConnector`` the manager returned. So concurrent
  ``deploy``/use requests on the same or on stacked deployments, repeated, are producible. A step
  learns a deployment's name from the DeployStep's token, i.e. only after a ``deploy`` returned.
* ``undeploy_all()`` is called exactly once per run, by ``StreamFlowContext.close()`` in the
  ``finally`` of ``main``/``cwl.runner``. ``StreamFlowExecutor.run`` raises as soon as one output port
  terminates FAILED (and returns as soon as all have terminated) and never cancels or awaits the
  other step tasks, so ``close()`` can run while DeploySteps are still inside ``deploy()`` and while
  steps still call connectors: *one* ``undeploy_all`` racing with in-flight ``deploy``/use requests is
  producible (shape ``close-race``).
* ``undeploy(name)`` has no caller in ``/repo/streamflow`` besides the manager itself. It is a
  documented public method ("it is in charge of the DeploymentManager to correctly handle concurrent
  calls to the undeploy method with the same target") used by the repository's tests in phases:
  concurrent deploys, then, after they returned, concurrent undeploys, then deploys again (shape
  ``phased``). ``undeploy(d)`` racing with ``deploy`` is produced by no caller and is not generated.

Sub-checks: ``prodlike`` (a: deploy/use requests, then one ``close()``), ``mixed`` (b: ``close-race``
and ``phased``), ``exhaustive`` (2 tasks x <= 2 ops x every delay vector in {0,1,2}^k, shapes
``prodlike`` and ``close-race``).

Oracle = the five clauses of the statement, over the event log:
1. per deployment, no connector instance starts deploying while another instance is live
   (deploy-start .. undeploy-finished / deploy-failed); no instance deployed or undeployed twice;
2. an eager ``deploy()`` that returns normally saw a deployed instance during its lifetime; connector
   calls run only on instances whose deploy finished; a wrapper starts deploying only when its eager
   inner deployment is deployed (documented: "the wrapped environment must be deployed before");
3. no instance starts undeploying while an instance of a deployment wrapping it is live;
4. when ``undeploy_all``/``close`` returns, every instance that was live when it was called (and whose
   deploy did not fail) has been asked to undeploy, exactly once;
5. a request raises only if a deployment it depends on failed (any exception type is accepted then)
   or, for ``WorkflowExecutionException``, if an undeploy raced with it; nothing is pending at
   quiescence.
Several violations in one run: the earliest in log order is reported.
"""
from __future__ import annotations

import itertools

from hypothesis import strategies as st

from vf.core import Prop, Violation

prop = Prop(
    "C26",
    level="exploration",
    technique=(
        "Hypothesis PBT + bounded-exhaustive delay-tree enumeration: concurrent deploy/use/undeploy request programs against "
        "DefaultDeploymentManager with instrumented fake connectors on a deterministic event loop; history-invariant oracle over "
        "the connectors' event log (five clauses of the statement) and exact quiescence-based deadlock detection"
    ),
    rule=(
        "1..4 request tasks run short programs of deploy(d)/use(d) (and, in the mixed sub-check, one racing close()=undeploy_all, "
        "or phases of undeploy(d)/undeploy_all between deploy phases) over 1..3 deployments with wraps chains, lazy/eager, "
        "external flag and scripted deploy failures; interleavings come only from delays inside the fakes' deploy/undeploy/call "
        "and drawn start offsets. Non-trivial = at least two requests touching the same deployment (directly or through wraps) "
        "whose lifetimes overlap in the event log (measured); distinct by the whole case. The exhaustive sub-check enumerates, "
        "for 2 tasks x <=2 ops over fixed small topologies, every delay vector in {0,1,2}^k along the decision tree."
    ),
    level_text=(
        "Random and bounded-exhaustive search over request programs, topologies, failure scripts and external-wait schedules; the "
        "oracle is an independent history invariant over an event log produced by harness-owned connectors."
    ),
    level_note=(
        "Only interleavings expressible as delays of connector deploy/undeploy/calls and request start offsets; only histories "
        "real callers produce (one racing undeploy_all; undeploy(d) only in quiesced phases). Liveness is 'no request pending at "
        "quiescence of a finite history'. Real connectors (docker, ssh...) are replaced by in-memory fakes. Of eight root "
        "causes found on the pinned tree the four reachable without any undeploy race are fixed (regress-*.json replays); the four "
        "undeploy/deploy overlap defects are known findings, and every symptom that follows such an overlap is reported under the "
        "overlap's kind (C26:undeploy-race:*), so a new defect that only shows inside such a race would hide behind them."
    ),
    assumptions=[
        "connector deploy/undeploy/calls may take arbitrarily long relative to each other (sound delay model)",
        "undeploy(name) is never issued concurrently with deploy requests (no caller does); undeploy_all is issued once, at any time",
        "a connector's undeploy does not raise (the fakes' never does)",
    ],
)
prop.engine = "detloop"

NAMES = ["d0", "d1", "d2"]
CONFIG_PATH = "/nonexistent/vf-c26/streamflow.yml"

# ------------------------------------------------------------------------------------------------
# scenario construction


def _norm_deps(deps):
    """JSON case -> list of dicts with resolved names. dep i may wrap dep j < i (config rejects cycles)."""
    out = []
    for i, d in enumerate(deps[:3]):
        w = d.get("wraps", -1)
        wraps = None
        if isinstance(w, int) and w >= 0 and i > 0:
            wraps = NAMES[w % i]
        if wraps is None and d.get("wrap"):
            wraps = "__LOCAL__"  # what _inner_deploy does for a ConnectorWrapper without `wraps`
        out.append({
            "name": NAMES[i],
            "wrap": bool(d.get("wrap")),
            "wraps": wraps,
            "lazy": bool(d.get("lazy")),
            "external": bool(d.get("external")),
            "fail": [bool(x) for x in d.get("fail", [])][:3],
        })
    return out


def _build(deps):
    from types import SimpleNamespace

    from streamflow.core.config import Config
    from streamflow.core.deployment import DeploymentConfig, WrapsConfig
    from streamflow.deployment.manager import DefaultDeploymentManager
    from vf.fakes import deployfakes as df

    raw = {}
    for d in deps:
        wraps = d["wraps"] if d["wraps"] not in (None, "__LOCAL__") else None
        raw[d["name"]] = {
            "name": d["name"],
            "type": df.WRAPPER_TYPE if d["wrap"] else df.PLAIN_TYPE,
            "config": {},
            "external": d["external"],
            "lazy": d["lazy"],
            "scheduling_policy": Config(name="__DEFAULT__", type="data_locality", config={}),
            "workdir": None,
            "wraps": wraps,
        }
    ctx = SimpleNamespace(config={"path": CONFIG_PATH, "deployments": raw})
    manager = DefaultDeploymentManager(ctx)

    def mkconfig(name):
        r = raw[name]
        # a fresh object per request, as every DeployStep / Target holds its own DeploymentConfig
        return DeploymentConfig(
            name=name, type=r["type"], config=dict(r["config"]), external=r["external"], lazy=r["lazy"],
            scheduling_policy=r["scheduling_policy"], workdir=None,
            wraps=WrapsConfig(deployment=r["wraps"]) if r["wraps"] is not None else None,
        )

    return manager, mkconfig


def _closure(deps):
    """name -> set of deployment names a request on `name` touches (itself + what it transitively wraps)."""
    by = {d["name"]: d for d in deps}
    out = {}
    for d in deps:
        seen, cur = set(), d["name"]
        while cur is not None and cur in by and cur not in seen:
            seen.add(cur)
            nxt = by[cur]["wraps"] if by[cur]["wrap"] else None  # wraps on a non-wrapper type has no effect
            cur = nxt
        out[d["name"]] = seen
    return out


# ------------------------------------------------------------------------------------------------
# execution


class Run:
    __slots__ = ("deps", "log", "requests", "stuck", "points", "taken", "shape")


class TreeCursor:
    """Delay source for the exhaustive driver: follows `prefix`, then 0; records what it handed out."""

    kinds = ("deploy", "undeploy")  # delays are decided inside the fakes' deploy/undeploy only (connector calls take 0 turns)

    def __init__(self, prefix):
        self.prefix = list(prefix)
        self.taken = []

    def draw(self) -> int:
        i = len(self.taken)
        v = self.prefix[i] if i < len(self.prefix) else 0
        self.taken.append(v)
        return v


def _where(exc) -> str:
    """Innermost frame inside the code under test, as 'file:function' (stable, no line numbers)."""
    import traceback

    where = "?"
    for frame, _ in traceback.walk_tb(exc.__traceback__):
        fn = frame.f_code.co_filename
        if "/streamflow/" in fn and "/verif/" not in fn:
            where = f"{fn.rsplit('/', 1)[-1]}:{frame.f_code.co_name}"
    return where


def _stuck_where(task) -> str:
    for f in reversed(task.get_stack()):
        fn = f.f_code.co_filename
        if "/streamflow/" in fn and "/verif/" not in fn:
            return f"{fn.rsplit('/', 1)[-1]}:{f.f_code.co_name}"
    # the coroutine chain: walk cr_await to the innermost repository frame
    coro, where = task.get_coro(), "?"
    while coro is not None:
        fr = getattr(coro, "cr_frame", None)
        if fr is not None:
            fn = fr.f_code.co_filename
            if "/streamflow/" in fn and "/verif/" not in fn:
                where = f"{fn.rsplit('/', 1)[-1]}:{fr.f_code.co_name}"
        coro = getattr(coro, "cr_await", None)
    return where


_QUIET = False


def _quiet() -> None:
    global _QUIET
    if not _QUIET:
        import logging

        from streamflow.log_handler import logger

        logger.setLevel(logging.CRITICAL)
        _QUIET = True


async def execute(case, source=None) -> Run:
    """Interpret the case against a fresh manager; returns the event log and request outcomes."""
    import asyncio

    from vf.engine.detloop import Chaos, settle
    from vf.fakes import deployfakes as df

    _quiet()
    deps = _norm_deps(case["deps"])
    names = [d["name"] for d in deps]
    src = source if source is not None else Chaos(case.get("schedule") or [])
    session = df.Session(src, {d["name"]: d["fail"] for d in deps})
    df.use_session(session)
    run = Run()
    run.deps, run.log, run.requests, run.stuck = deps, session.log, {}, []
    try:
        manager, mkconfig = _build(deps)
        announced: set[str] = set()

        async def request(rid, op):
            kind = op[0]
            name = names[op[1] % len(names)] if kind in ("deploy", "use", "call", "undeploy") else ""
            start = session.emit("req-start", name, rid, kind)
            rq = {"rid": rid, "kind": kind, "dep": name, "start": start, "end": None, "ok": None, "exc": None,
                  "msg": "", "where": "", "connector_none": False, "skipped": False}
            run.requests[rid] = rq
            try:
                if kind == "deploy":
                    await manager.deploy(mkconfig(name))
                    announced.add(name)  # the DeployStep now puts the deployment name on its output port
                elif kind in ("use", "call"):
                    # what a step does: it gets the deployment name from the DeployStep's token (i.e. after
                    # deploy() returned), asks the manager for the connector and calls it ("use" = first
                    # use right after the deploy request, "call" = a later use by name only)
                    if kind == "use":
                        await manager.deploy(mkconfig(name))
                        announced.add(name)
                    elif name not in announced:
                        rq["skipped"] = True  # nobody can know the deployment yet: no deploy(name) has returned
                    conn = None if rq["skipped"] else manager.get_connector(name)
                    if rq["skipped"]:
                        pass
                    elif conn is None:
                        rq["connector_none"] = True  # undeployed meanwhile: nothing to call (not the manager's fault)
                    elif len(op) > 2 and op[2] == "locs":
                        await conn.get_available_locations()
                    else:
                        await conn.run(df.fake_location(name), ["true"])
                elif kind == "undeploy":
                    announced.discard(name)  # names handed out before an undeploy began are stale from here on
                    await manager.undeploy(name)
                elif kind == "undeploy_all":
                    announced.clear()
                    await manager.undeploy_all()
                elif kind == "close":
                    announced.clear()
                    await manager.close()
                else:  # pragma: no cover
                    raise RuntimeError(f"bad op {op}")
                rq["ok"] = True
            except asyncio.CancelledError:
                raise
            except Exception as e:  # noqa: BLE001 - outcome is judged by the oracle
                rq["ok"], rq["exc"], rq["msg"], rq["where"] = False, type(e).__name__, str(e)[:200], _where(e)
            rq["end"] = session.emit("req-end", name, rid, rq["ok"])

        async def program(ti, ph, prog):
            for oi, op in enumerate(prog):
                if op[0] == "sleep":
                    for _ in range(int(op[1])):
                        await asyncio.sleep(0)
                    continue
                await request(f"p{ph}.t{ti}.{oi}", op)

        phases = [list(p) for p in case["phases"]]
        if case.get("final_close"):
            phases.append([[["close"]]])
        for ph, progs in enumerate(phases):
            tasks = [asyncio.create_task(program(ti, ph, prog), name=f"c26-p{ph}-t{ti}") for ti, prog in enumerate(progs)]
            await settle()
            pending = [t for t in asyncio.all_tasks() if t is not asyncio.current_task() and not t.done()]
            if pending:
                for t in pending:
                    if t in tasks or all(x.done() for x in tasks):  # request tasks; orphans only if no request is stuck
                        run.stuck.append((t.get_name(), _stuck_where(t)))
                for rq in run.requests.values():
                    if rq["end"] is None:
                        rq["end"] = len(session.log)  # still open at quiescence
                others = [t for t in asyncio.all_tasks() if t is not asyncio.current_task() and not t.done()]
                for t in others:
                    t.cancel()
                await asyncio.gather(*others, return_exceptions=True)
                break
            for t in tasks:
                t.result()  # harness bugs surface here (requests never raise)
    finally:
        df.use_session(None)
    run.points = session.points
    run.taken = list(getattr(src, "taken", []))
    return run


# ------------------------------------------------------------------------------------------------
# oracle: history invariant over the event log (no StreamFlow state is read)

UNDEPLOYISH = ("undeploy", "undeploy_all", "close")
REQUESTISH = ("deploy", "use", "call")

def judge(run: Run):
    """Returns (violations [(seq, kind, message)] sorted by log time, facts dict).

    One block per clause of the statement. `seq` is the log position at which the violation becomes
    visible; the earliest one is what the check reports (later ones are usually its consequences)."""
    deps = run.deps
    by = {d["name"]: d for d in deps}
    clos = _closure(deps)
    wrappers_of = {n: [d["name"] for d in deps if d["wrap"] and d["wraps"] == n] for n in by}
    INF = len(run.log) + 1
    inst: dict[str, dict] = {}
    order: dict[str, list[str]] = {n: [] for n in by}
    for e in run.log:
        if e.dep not in by or e.ev.startswith("req-"):
            continue
        if e.ev == "create":
            inst[e.inst] = {"dep": e.dep, "create": e.seq, "ds": [], "df": None, "dx": None, "us": [], "uf": [], "calls": []}
            order[e.dep].append(e.inst)
            continue
        i = inst[e.inst]
        if e.ev == "deploy-start":
            i["ds"].append(e.seq)
        elif e.ev == "deploy-finished":
            i["df"] = e.seq if i["df"] is None else i["df"]
        elif e.ev == "deploy-failed":
            i["dx"] = e.seq if i["dx"] is None else i["dx"]
        elif e.ev == "undeploy-start":
            i["us"].append(e.seq)
        elif e.ev == "undeploy-finished":
            i["uf"].append(e.seq)
        elif e.ev == "call":
            i["calls"].append((e.seq, e.extra))
    reqs = list(run.requests.values())

    def end_of(i):  # the instance stops being live
        if i["dx"] is not None:
            return i["dx"]
        return i["uf"][0] if i["uf"] else INF

    def deployed_at(i, t):  # deploy finished and undeploy not yet started
        return i["df"] is not None and i["df"] < t and not (i["us"] and i["us"][0] < t)

    def live_at(i, t):  # from deploy-start until undeploy-finished / deploy-failed
        return bool(i["ds"]) and i["ds"][0] < t and end_of(i) > t

    def wrappers_up(name):  # deployments that transitively wrap `name`
        out, todo = [], list(wrappers_of[name])
        while todo:
            w = todo.pop()
            if w not in out:
                out.append(w)
                todo.extend(wrappers_of[w])
        return out

    V: list[tuple[int, str, str]] = []

    def trace(lo, hi):
        return " | ".join(f"{e.seq}:{e.ev}:{e.inst or e.dep}" for e in run.log[max(0, lo):hi])

    # clause 1: a deployment's connector is deployed at most once while it is live
    for name, ids in order.items():
        for k in ids:
            i = inst[k]
            if len(i["ds"]) > 1:
                V.append((i["ds"][1], "C26:instance-deployed-twice", f"{k} got deploy() at {i['ds']}", name))
            if not i["ds"]:
                continue
            t = i["ds"][0]
            for k2 in ids:
                j = inst[k2]
                if k2 == k or not j["ds"] or not (j["ds"][0] < t) or not live_at(j, t):
                    continue
                if j["us"] and j["us"][0] < t:
                    kind = "C26:redeploy-during-undeploy"
                else:
                    kind = "C26:two-instances-deploying" if (j["df"] is None or j["df"] > t) else "C26:redeploy-while-live"
                V.append((t, kind, f"{k} deploy-start at {t} while {k2} is live (deploy {j['ds'][0]}..{j['df']}, undeploy {j['us']}..{j['uf']})", name))
    # a connector is undeployed only after its own deploy finished, and exactly once; calls only on deployed connectors
    for k, i in inst.items():
        for u in i["us"][:1]:
            if i["ds"] and i["ds"][0] < u and i["dx"] is None and (i["df"] is None or i["df"] > u):
                V.append((u, "C26:undeploy-before-deploy-finished", f"{k}: undeploy-start at {u}, deploy {i['ds']}..{i['df']}", i["dep"]))
        if len(i["us"]) > 1:
            V.append((i["us"][1], "C26:double-undeploy", f"{k}: undeploy() called at {i['us']}", i["dep"]))
        for t, what in i["calls"]:
            if not (i["df"] is not None and i["df"] < t):
                V.append((t, "C26:call-on-undeployed-connector", f"{k}: {what} at {t}, deploy {i['ds']}..{i['df']} failed={i['dx']}", i["dep"]))
                break

    # clause 3 (+ the documented deploy order): wrapped vs wrapping
    for k, i in inst.items():
        name = i["dep"]
        for u in i["us"][:1]:
            for wname in wrappers_of[name]:
                for kw in order[wname]:
                    w = inst[kw]
                    if live_at(w, u):
                        up2 = wrappers_up(wname)
                        if by[wname]["lazy"] and any(r["kind"] in UNDEPLOYISH and r["start"] < (w["df"] or w["dx"] or INF) and w["ds"][0] < r["end"] for r in reqs):
                            q = ":lazy-wrapper-deploy-raced-undeploy"  # FutureConnector.undeploy skipped it: see DIRECT below
                        elif w["df"] is None or w["df"] > u:
                            q = ":wrapper-deploying"
                        elif any(order[w2] for w2 in up2) or any(r["kind"] in ("deploy", "use") and r["dep"] in up2 and r["start"] < u for r in reqs):
                            q = ":wrapper-itself-wrapped"  # a stack of >= 3: the live wrapper is (or was asked to be) wrapped in turn
                        else:
                            q = ""
                        V.append((u, "C26:inner-undeployed-while-wrapper-live" + q, f"{k} undeploy-start at {u} while wrapper {kw} is live (deploy {w['ds']}..{w['df']})", name))
        d = by[name]
        if d["wrap"] and d["wraps"] in by and not by[d["wraps"]]["lazy"] and i["ds"]:
            t = i["ds"][0]
            if not any(deployed_at(inst[ki], t) for ki in order[d["wraps"]]):
                V.append((t, "C26:wrapper-deployed-before-inner", f"{k} deploy-start at {t}, no deployed instance of eager {d['wraps']}: {[(ki, inst[ki]['ds'], inst[ki]['df'], inst[ki]['dx'], inst[ki]['us']) for ki in order[d['wraps']]]}", name))

    def failed_before(names, t):
        return [k for k, i in inst.items() if i["dep"] in names and i["dx"] is not None and i["dx"] < t]

    # clauses 2, 4, 5: request outcomes
    accepted_exc = set()
    refused = False
    for rq in reqs:
        s, t, kind, name = rq["start"], rq["end"], rq["kind"], rq["dep"]
        if rq["ok"] is None:
            continue  # stuck: reported below
        if rq["ok"] is False:
            if kind in REQUESTISH and failed_before(clos[name], t):
                accepted_exc.add(rq["exc"])  # a failed deployment makes the request fail: accepted
                continue
            if kind in REQUESTISH and rq["exc"] == "WorkflowExecutionException":
                raced = any(a < r["end"] and r["start"] < t for r in reqs if r["kind"] in UNDEPLOYISH for a in [s]) or any(
                    s < u < t for k2 in clos[name] for ki in order[k2] for u in inst[ki]["us"])
                if raced:
                    refused = True  # the deployment was undeployed under the request: failing is an accepted outcome
                    continue
                V.append((t, "C26:spurious-failed-deployment", f"{rq['rid']} {kind}({name}) raised {rq['exc']}({rq['msg']}) but no deploy of {sorted(clos.get(name, []))} failed and no undeploy raced", name))
            else:
                V.append((t, f"C26:crash:{rq['exc']}@{rq['where']}", f"{rq['rid']} {kind}({name}) raised {rq['exc']}({rq['msg']}); no deployment it depends on failed", name))
            continue
        if kind in ("deploy", "use") and not by[name]["lazy"]:
            ids = order[name]
            # at some moment of the request's lifetime an instance of the deployment was deployed
            ok = any(inst[k]["df"] is not None and inst[k]["df"] < t and not (inst[k]["us"] and inst[k]["us"][0] < s) for k in ids)
            if not ok:
                V.append((t, "C26:deploy-returned-before-deployed", f"{rq['rid']} {kind}({name}) returned at {t}; instances {[(k, inst[k]['ds'], inst[k]['df'], inst[k]['us']) for k in ids]}", name))
        if kind in ("use", "call") and not rq["connector_none"] and not rq["skipped"]:
            if not any(s < c < t for k in order[name] for c, _ in inst[k]["calls"]):
                V.append((t, "C26:use-returned-without-call", f"{rq['rid']} {kind}({name}) returned, no connector call in ({s},{t})", name))
        if kind in ("undeploy_all", "close"):
            # every connector live when the request was made has been asked to undeploy when it returns; if another
            # undeploy request runs concurrently it may be the one doing it, then "eventually" (by quiescence) is enough
            shared = any(o is not rq and o["kind"] in UNDEPLOYISH and o["start"] < t and s < o["end"] for o in reqs)
            phase = rq["rid"].split(".", 1)[0] + "."
            deadline = max(o["end"] for o in reqs if o["rid"].startswith(phase)) + 1 if shared else t
            for k, i in inst.items():
                if not live_at(i, s) or i["dx"] is not None or (i["us"] and i["us"][0] < deadline):
                    continue
                up = wrappers_up(i["dep"])
                if by[i["dep"]]["lazy"] and (i["df"] is None or i["df"] > s):
                    q = ":lazy-deploy-in-flight"
                elif any(inst[kw]["dx"] is not None for w in up for kw in order[w]):
                    q = ":wrapper-failed"
                elif any(r["kind"] in ("deploy", "use") and r["dep"] in [i["dep"], *up] and r["start"] < t and s < r["end"] for r in reqs):
                    q = ":pinned-by-deploy-request-during-undeploy_all"
                elif any(live_at(inst[kw], s) and (any(order[w2] for w2 in wrappers_up(w)) or any(
                        r["kind"] in ("deploy", "use") and r["dep"] in wrappers_up(w) and r["start"] < s for r in reqs))
                        for w in wrappers_of[i["dep"]] for kw in order[w]):
                    q = ":wrapper-itself-wrapped"  # stack of >= 3: same root cause as inner-undeployed-while-wrapper-live:wrapper-itself-wrapped
                else:
                    q = ""
                V.append((t, "C26:undeploy_all-leaves-live-connector" + q, f"{rq['rid']} {kind} [{s},{t}]: {k} deploy {i['ds']}..{i['df']} undeploy {i['us']}..{i['uf']}", i["dep"]))

    # liveness: nothing may be pending at quiescence
    for tname, where in run.stuck:
        prefix = tname.replace("c26-", "").replace("-", ".") + "."
        open_rq = [r for r in reqs if r["ok"] is None and r["rid"].startswith(prefix)] if tname.startswith("c26-") else []
        func = where.rsplit(":", 1)[-1]
        # one bucket per thing waited for, not per stack shape
        func = {"_deploy": "deploy-waits-for-deployment-event", "_inner_deploy": "deploy-waits-for-deployment-event",
                "undeploy": "undeploy-waits-for-deployment-event", "_safe_deploy_event_wait": "call-waits-for-lazy-deploy"}.get(func, func)
        if not tname.startswith("c26-"):
            kind = f"C26:deadlock:orphan-task:{func}"
        else:
            kind = f"C26:deadlock:{func}"
            if open_rq and open_rq[0]["kind"] in REQUESTISH and failed_before(clos[open_rq[0]["dep"]], INF):
                own = failed_before({open_rq[0]["dep"]}, INF)
                kind += ":after-own-failure" if own else ":after-inner-failure"
        V.append((INF, kind, f"{tname} ({open_rq[0]['kind'] + ' ' + open_rq[0]['dep'] if open_rq else '-'}) pending at quiescence in {where}; tail: {trace(len(run.log) - 14, len(run.log))}", (open_rq[0]["dep"] if open_rq else "")))

    # facts for classification (all measured from the log)
    def touch(r):
        if r["kind"] in ("undeploy_all", "close"):
            return set(by)
        return clos[r["dep"]] | set(wrappers_up(r["dep"]) if r["kind"] == "undeploy" else ())

    overlap = False
    for a, b in itertools.combinations([r for r in reqs if not r["skipped"] and not r["connector_none"]], 2):
        if a["start"] < b["end"] and b["start"] < a["end"] and touch(a) & touch(b):
            overlap = True
            break
    facts = {
        "overlap": overlap,
        "failure": any(i["dx"] is not None for i in inst.values()),
        "failed_requests": sum(1 for r in reqs if r["ok"] is False),
        "waiter_failed": any(
            r["ok"] is False and r["kind"] in REQUESTISH and any(r["start"] < inst[k]["dx"] < r["end"] for k in failed_before(clos[r["dep"]], r["end"]))
            and any(o is not r and o["kind"] in REQUESTISH and o["start"] < r["end"] and r["start"] < o["end"] for o in reqs)
            for r in reqs),
        "lazy_deployed": any(by[i["dep"]]["lazy"] and i["df"] is not None for i in inst.values()),
        "wrapper_deployed": any(by[i["dep"]]["wrap"] and i["df"] is not None for i in inst.values()),
        "redeploy": any(len(v) > 1 for v in order.values()),
        "undeploy_overlaps_deploy": any(
            r["kind"] in UNDEPLOYISH and any(i["ds"] and i["ds"][0] < r["end"] and r["start"] < (i["df"] or i["dx"] or INF) for i in inst.values())
            for r in reqs),
        "instances": len(inst),
        "connector_none": any(r["connector_none"] for r in reqs),
        "refused_by_undeploy": refused,
        "undocumented_failure_exc": sorted(accepted_exc - {"WorkflowExecutionException", "ScriptedDeployFailure"}),
    }
    # Root-cause bucketing of what an undeploy racing with a deploy produces (finding F12). undeploy() is not written
    # to run concurrently with _deploy(): it deletes the map entries before awaiting connector.undeploy and finally
    # sets whatever event is then registered under the name; it does not re-check anything after waiting for the
    # deployment event; its orphan sweep hits deployments that are still being deployed; FutureConnector.undeploy
    # ignores a lazy deployment in flight; undeploy_all does not fence new deploy requests. Once one of these
    # preconditions has occurred for a group of stacked deployments, every later symptom on that group is reported
    # under the precondition's kind (the symptom stays in the message).
    comp = {}
    for n in by:
        comp[n] = {m for m in by if clos[n] & clos[m] or n in clos[m] or m in clos[n]}
    for _ in by:  # transitive closure over <= 3 names
        for n in by:
            for m in list(comp[n]):
                comp[n] |= comp[m]
    unreqs = [r for r in reqs if r["kind"] in UNDEPLOYISH]

    def precondition(dep, q):
        group = comp.get(dep, set(by))
        found = []
        for n in group:
            ids = order[n]
            for a in ids:
                for b in ids:
                    i, j = inst[a], inst[b]
                    if a != b and i["us"] and i["us"][0] < j["create"] < (i["uf"][0] if i["uf"] else INF) and j["create"] <= q:
                        found.append((0, "redeploy-during-undeploy"))
            for a in ids:
                i = inst[a]
                if not i["ds"]:
                    continue
                for u in unreqs:
                    if u["kind"] == "undeploy" and u["dep"] not in group:
                        continue
                    if u["kind"] == "undeploy" and u["dep"] != n and n in wrappers_up(u["dep"]):
                        # a direct undeploy(inner) that overlaps only the deploy of a *wrapper* of inner is not the
                        # F12f mechanism (undeploy(X) resuming after X's own deployment event / the orphan sweep):
                        # the edge inner -> wrapper exists before the wrapper's connector starts deploying, so the
                        # request must simply leave inner alone (sub-check `undeploy-race`, seed C26-3)
                        continue
                    if i["ds"][0] < u["end"] and u["start"] < (i["df"] or i["dx"] or INF) and max(i["ds"][0], u["start"]) <= q:
                        found.append((2, "lazy-deploy-in-flight") if by[n]["lazy"] else (1, "undeploy-during-eager-deploy"))
        for r in reqs:
            if r["kind"] in REQUESTISH and not r["skipped"] and r["dep"] in group:
                for u in unreqs:
                    if u["kind"] != "undeploy" and r["start"] < u["end"] and u["start"] < r["end"] and max(r["start"], u["start"]) <= q:
                        found.append((3, "deploy-request-during-undeploy_all"))
        return min(found)[1] if found else None

    DIRECT = {
        "C26:inner-undeployed-while-wrapper-live:lazy-wrapper-deploy-raced-undeploy": "lazy-deploy-in-flight",
        "C26:undeploy_all-leaves-live-connector:lazy-deploy-in-flight": "lazy-deploy-in-flight",
        "C26:undeploy_all-leaves-live-connector:pinned-by-deploy-request-during-undeploy_all": "deploy-request-during-undeploy_all",
    }
    out = []
    for q, k, m, dep in V:
        if k in DIRECT:
            k, m = "C26:undeploy-race:" + DIRECT[k], f"[{k.split(':', 2)[2]}] {m}"
        else:
            # every symptom, including those of defects that are fixed by now (wrapper-failed, wrapper-itself-wrapped,
            # after-inner-failure ...): once an undeploy/close has overlapped a deploy request or a connector's deploy
            # on the group, the overlap is the cause on record; the other kinds are reserved for overlap-free histories
            pre = precondition(dep, q)
            if pre is not None:
                k, m = "C26:undeploy-race:" + pre, f"[{k.split(':', 1)[1]}] {m}"
        out.append((q, k, m))
    V = out
    facts["undeploy_race"] = any(k.startswith("C26:undeploy-race:") for _, k, _ in V) or precondition("", INF) is not None
    V.sort(key=lambda v: (v[0], v[1]))
    return V, facts


_KNOWN = None


def known_kinds() -> set:
    """Kinds listed as known findings (read through the runner's own loader). Only the exhaustive
    blocks use it: a block evaluates thousands of delay vectors, and a vector failing with a listed
    kind must not hide another vector of the same block failing with an unlisted one."""
    global _KNOWN
    if _KNOWN is None:
        try:
            from vf.runner import load_known

            _KNOWN = {f["kind"] for f in load_known("C26")}
        except Exception:  # noqa: BLE001
            _KNOWN = set()
    return _KNOWN


def first_violation(V):
    """Earliest in log time; later ones are reported as 'also' (typically consequences of the first)."""
    if not V:
        return None
    seq, kind, msg = V[0]
    others = sorted({v[1] for v in V} - {kind})
    return kind, msg + (f" [later in the same run: {others}]" if others else "")


def classify(case, run, facts, rec):
    deps = run.deps
    rec.label(f"shape={case.get('shape', '?')}", f"deployments={len(deps)}")
    inner = [d for d in deps if d["wrap"] and d["wraps"] and d["wraps"] != "__LOCAL__"]
    rec.label(f"wraps-chain={max(len(c) for c in _closure(deps).values())}" if inner else "no-wraps")
    if any(d["wraps"] == "__LOCAL__" for d in deps):
        rec.label("wraps-local")
    rec.label("lazy+eager" if len({d["lazy"] for d in deps}) == 2 else "all-lazy" if deps[0]["lazy"] else "all-eager")
    if any(d["external"] for d in deps):
        rec.label("external")
    rec.label(f"tasks={max(len(p) for p in case['phases'])}")
    for k in ("failure", "waiter_failed", "lazy_deployed", "wrapper_deployed", "redeploy", "undeploy_overlaps_deploy",
              "connector_none", "refused_by_undeploy", "undeploy_race"):
        if facts[k]:
            rec.label(k.replace("_", "-"))
    for x in facts["undocumented_failure_exc"]:
        rec.label(f"request-failed-after-failure-with-{x}")
    if facts["failed_requests"]:
        rec.label("request-failed")
    if facts["overlap"]:
        rec.label("overlapping-requests")


# ------------------------------------------------------------------------------------------------
# strategies


def _dep(w):
    return st.fixed_dictionaries({
        "wrap": st.sampled_from([True] * 7 + [False]) if w >= 0 else st.sampled_from([False, False, True]),
        "wraps": st.just(w),
        "lazy": st.booleans(),
        "external": st.sampled_from([False, False, True]),
        "fail": st.one_of(st.just([]), st.just([]), st.just([]), st.lists(st.booleans(), min_size=1, max_size=2)),
    })


# wraps patterns: index of the wrapped deployment, -1 = none (a wrapper type then wraps __LOCAL__)
TOPOLOGY_PATTERNS = [[-1], [-1], [-1, -1], [-1, 0], [-1, 0], [-1, -1, -1], [-1, 0, 1], [-1, 0, 1], [-1, 0, 0], [-1, 0, -1]]
deps_st = st.sampled_from(TOPOLOGY_PATTERNS).flatmap(lambda ws: st.tuples(*[_dep(w) for w in ws]).map(list))
schedule_st = st.lists(st.integers(0, 6), max_size=12)
how_st = st.sampled_from(["run", "run", "locs"])
du_op = st.one_of(
    st.tuples(st.just("deploy"), st.integers(0, 2)),
    st.tuples(st.just("use"), st.integers(0, 2), how_st),
    st.tuples(st.just("use"), st.integers(0, 2), how_st),
    st.tuples(st.just("call"), st.integers(0, 2), how_st),
)
sleep_op = st.tuples(st.just("sleep"), st.integers(1, 6))


def _prog(op, max_ops):
    return st.tuples(st.lists(sleep_op, max_size=1), st.lists(op, min_size=1, max_size=max_ops)).map(
        lambda p: [list(o) for o in p[0]] + [list(o) for o in p[1]])


prodlike_case = st.fixed_dictionaries({
    "shape": st.just("prodlike"),
    "deps": deps_st,
    "phases": st.lists(_prog(du_op, 3), min_size=1, max_size=4).map(lambda ps: [ps]),
    "final_close": st.just(True),
    "schedule": schedule_st,
})

closer_prog = st.lists(sleep_op, max_size=2).map(lambda sl: [list(o) for o in sl] + [["close"]])
close_race_case = st.fixed_dictionaries({
    "shape": st.just("close-race"),
    "deps": deps_st,
    "phases": st.tuples(st.lists(_prog(du_op, 3), min_size=1, max_size=3), closer_prog).map(lambda p: [p[0] + [p[1]]]),
    "final_close": st.just(False),
    "schedule": schedule_st,
})
un_op = st.one_of(st.tuples(st.just("undeploy"), st.integers(0, 2)), st.tuples(st.just("undeploy"), st.integers(0, 2)),
                  st.tuples(st.just("undeploy_all")))
phased_case = st.fixed_dictionaries({
    "shape": st.just("phased"),
    "deps": deps_st,
    "phases": st.tuples(
        st.lists(_prog(du_op, 2), min_size=1, max_size=3),
        st.lists(_prog(un_op, 2), min_size=1, max_size=3),
        st.lists(_prog(du_op, 2), min_size=0, max_size=2),
    ).map(lambda p: [x for x in p if x]),
    "final_close": st.just(True),
    "schedule": schedule_st,
})
mixed_case = st.one_of(close_race_case, close_race_case, phased_case)


# ------------------------------------------------------------------------------------------------
# sub-checks


async def _check_one(case, rec):
    run = await execute(case)
    V, facts = judge(run)
    classify(case, run, facts, rec)
    rec.nontrivial(facts["overlap"])
    fv = first_violation(V)
    if fv:
        raise Violation(*fv)


@prop.given("prodlike", prodlike_case, quick=2400, thorough=120000)
async def check_prodlike(case, rec):
    """(a) concurrent deploy/use requests with scripted failures, then one close() = undeploy_all."""
    await _check_one(case, rec)


@prop.given("mixed", mixed_case, quick=2400, thorough=120000)
async def check_mixed(case, rec):
    """(b) undeploy requests interleaved with deploy requests, restricted to what callers produce:
    one close() racing with in-flight deploy/use requests; quiesced phases deploy* / undeploy* / deploy*."""
    await _check_one(case, rec)


# -- bounded-exhaustive: 2 tasks x <= 2 ops x every delay vector in {0,1,2}^k ---------------------------


def _d(wrap=False, wraps=-1, lazy=False, fail=()):
    return {"wrap": wrap, "wraps": wraps, "lazy": lazy, "external": False, "fail": list(fail)}


TOPOLOGIES = {
    "eager": [_d()],
    "lazy": [_d(lazy=True)],
    "eager-fail": [_d(fail=[True])],
    "lazy-fail": [_d(lazy=True, fail=[True])],
    "eager<-eager": [_d(), _d(True, 0)],
    "lazy<-eager": [_d(lazy=True), _d(True, 0)],
    "eager<-lazy": [_d(), _d(True, 0, lazy=True)],
    "eagerfail<-eager": [_d(fail=[True]), _d(True, 0)],
    "eager<-eagerfail": [_d(), _d(True, 0, fail=[True])],
    "eager+eager": [_d(), _d()],
    "eager<-eager<-eager": [_d(), _d(True, 0), _d(True, 1)],
}
QUICK_TOPOLOGIES = ["eager", "lazy", "eager-fail", "eager<-eager", "lazy<-eager", "eager<-eagerfail", "eager+eager"]
ARITY = 3
MAX_VECTORS = 30000  # safety bound per block; a truncated block is labelled


def gen_exhaustive(tier):
    topos = QUICK_TOPOLOGIES if tier == "quick" else list(TOPOLOGIES)
    for tname in topos:
        n = len(TOPOLOGIES[tname])
        ops = [["deploy", i] for i in range(n)] + [["use", i, "run"] for i in range(n)]
        progs = [[o] for o in ops] + [[a, b] for a in ops for b in ops]
        if n == 3:  # the 3-chain: programs on the outermost and the middle deployment only
            progs = [p for p in progs if all(o[1] >= 1 for o in p)]
        small = tier == "quick" and n > 1
        # (a) two deploy/use tasks, then close()
        for p, q in itertools.combinations_with_replacement(range(len(progs)), 2):
            if small and len(progs[p]) + len(progs[q]) > 3:
                continue
            yield {"shape": "prodlike", "topology": tname, "deps": TOPOLOGIES[tname], "phases": [[progs[p], progs[q]]], "final_close": True}
        # (b) one deploy/use task racing with the single close(); some deployments were deployed before (phase 0)
        pre_opts = [[]] + [[["deploy", i]] for i in range(n)]
        for pre in pre_opts:
            for p in range(len(progs)):
                if small and len(progs[p]) > 1 and pre:
                    continue
                phases = ([[pre]] if pre else []) + [[progs[p], [["close"]]]]
                yield {"shape": "close-race", "topology": tname, "deps": TOPOLOGIES[tname], "phases": phases, "final_close": False}


@prop.enumerated("exhaustive", gen_exhaustive, max_shards=16)
async def check_exhaustive(case, rec):
    """A block = one program pair on one topology; inside, every delay vector over {0,1,2} along the
    decision tree (one delay per fake deploy/undeploy/call, in the order the run draws them) is
    executed and judged. A case carrying "delays" runs that single vector (replays)."""
    rec.label(f"shape={case['shape']}", f"topology={case.get('topology', '?')}")
    if case.get("delays") is not None:
        run = await execute(case, source=TreeCursor(case["delays"]))
        V, facts = judge(run)
        rec.bulk(evaluations=1, nontrivial=1 if facts["overlap"] else 0)
        fv = first_violation(V)
        if fv:
            raise Violation(*fv)
        return
    await _run_block(case, rec)


async def _run_block(case, rec):
    prefix: list[int] = []
    n = nt = 0
    found: dict[str, str] = {}
    while True:
        cur = TreeCursor(prefix)
        run = await execute(case, source=cur)
        V, facts = judge(run)
        n += 1
        nt += 1 if facts["overlap"] else 0
        fv = first_violation(V)
        if fv and fv[0] not in found:
            found[fv[0]] = f"{fv[1]} [delays={cur.taken}]"
        taken = list(cur.taken)
        while taken and taken[-1] >= ARITY - 1:
            taken.pop()
        if not taken or n >= MAX_VECTORS:
            break
        taken[-1] += 1
        prefix = taken
    if n >= MAX_VECTORS:
        rec.label("block-truncated")
    rec.bulk(evaluations=n, nontrivial=nt)
    if found:
        kk = known_kinds()
        unknown = [k for k in found if k not in kk]
        kind = (unknown or list(found))[0]
        raise Violation(kind, found[kind] + f" [block of {n} delay vectors; first-violation kinds in the block: {sorted(found)}]")



# -- direct undeploy of a wrapped deployment racing with the deploy / first use of its wrapper ----------------
# (seed C26-3: the dependency edge inner -> wrapper registered only once the wrapper's own deploy() has
# finished). Only undeploy_all()/close() calls undeploy() in StreamFlow, but the statement quantifies over any
# interleaving of deploy and undeploy requests, and undeploy(name) is the public request undeploy_all() fans
# out into; the blocks below are the smallest histories where the edge matters: one request on the wrapper and
# one undeploy of the deployment it wraps, after an optional earlier deploy, under every delay vector.


def gen_undeploy_race(tier):
    topos = ["eager<-eager", "lazy<-eager", "eager<-eager<-eager"] if tier == "quick" else ["eager<-eager", "lazy<-eager", "eager<-lazy", "eager<-eagerfail", "eager<-eager<-eager"]
    for tname in topos:
        deps = TOPOLOGIES[tname]
        for w in range(1, len(deps)):
            inner = deps[w]["wraps"]
            for pre in ([], [["deploy", inner]], [["deploy", w]]):
                for dop in (["deploy", w], ["use", w, "run"]):
                    phases = ([[pre]] if pre else []) + [[[dop], [["undeploy", inner]]]]
                    yield {"shape": "undeploy-race", "topology": tname, "deps": deps, "phases": phases, "final_close": True}


@prop.enumerated("undeploy-race", gen_undeploy_race, max_shards=16)
async def check_undeploy_race(case, rec):
    rec.label(f"shape={case['shape']}", f"topology={case.get('topology', '?')}")
    await _run_block(case, rec)
