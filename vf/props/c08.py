"""C08 Saving then loading a workflow reproduces it exactly.

Sub-checks
* ``workflow``: generated workflow graphs over the built-in persistable classes -> save -> load through a fresh
  ``DefaultDatabaseLoadingContext`` (twice), ``WorkflowBuilder(deep_copy=True)`` copy (optionally saved again and
  re-loaded), status updates through ``Step._set_status`` followed by a reload, mutation of one loaded copy.
* ``tokens``: generated token trees (Token / CWLFileToken / ListToken / ObjectToken / JobToken / termination and
  iteration tokens) -> save -> load (twice) -> mutation of one loaded copy.

Oracle: the independent structural canonicaliser ``vf.persist_gen.canon`` (reflection over public state; for
tokens the expected form is computed from the case description, not from the objects).
"""
from __future__ import annotations

from hypothesis import strategies as st

from vf.core import Prop, Violation

prop = Prop(
    "C08",
    level="exploration",
    technique="Hypothesis PBT: round-trip oracle canon(load(save(x))) == canon(x) with an independent structural canonicaliser, plus a mutation/identity oracle for the independence of two loads",
    rule=(
        "workflow tier: a workflow (plain or CWL) with 0..5 declared ports and 0..5 steps drawn from 30 built-in step kinds, "
        "each with generated constructor arguments (combinator trees, token/output/command-token processor trees, commands, "
        "binding configs with targets / deployments / filters, hardware requirement), saved under a drawn schedule of delays at "
        "database calls; token tier: token trees of depth 0..3 with JSON scalars incl. ints > 2^53, extreme floats and astral / "
        "control characters. Non-trivial = the object graph contains >= 3 different classes (workflow tier) or the token tree has "
        "nesting depth >= 2 or a container value (token tier); distinct by the whole case."
    ),
    level_text="Random search over entity graphs and constructor arguments; the oracle is a canonical form obtained by reflection that shares no code with the save/load methods.",
    level_note=(
        "Only JSON-compatible parameter values are generated (no ruamel scalar subclasses, tuples, NaN/inf, non-string keys); runtime state "
        "(queues, token lists, private attributes) is outside the round trip; dict key order is not compared; DeploymentConfig.external/lazy "
        "are compared by truth value (sqlite returns 0/1)."
    ),
    assumptions=[
        "entities are saved through Workflow.save / Token.save as the executor and steps do",
        "FilterTokenPort is generated with its default filter only (a custom callable is not persistable by design)",
    ],
)
prop.engine = "detloop"

ints = st.lists(st.integers(0, 255), min_size=6, max_size=30)
schedule = st.lists(st.integers(0, 3), max_size=8)
step_desc = st.fixed_dictionaries({"k": st.sampled_from(list(range(36))), "p": ints})

workflow_case = st.fixed_dictionaries(
    {
        "cwl": st.sampled_from([1, 1, 1, 0]),
        "p": ints,
        "ports": st.lists(st.integers(0, 6), max_size=5),
        "steps": st.one_of(st.lists(step_desc, min_size=1, max_size=3), st.lists(step_desc, max_size=5)),
        "outs": st.lists(st.integers(0, 9), max_size=3),
        "ins": st.one_of(st.just([]), st.just([]), st.just([]), st.lists(st.integers(0, 9), min_size=1, max_size=2)),
        "status": st.lists(st.integers(0, 6), max_size=5),
        "updates": st.lists(st.tuples(st.integers(0, 4), st.integers(0, 6)), max_size=3),
        "resave": st.sampled_from([0, 0, 1]),
        "schedule": schedule,
    }
)

_known_cache: set | None = None


def _known() -> set:
    global _known_cache
    if _known_cache is None:
        import time

        from vf.runner import load_known

        for _attempt in range(3):  # a file of known_findings.d may be being rewritten right now
            try:
                _known_cache = {f["kind"] for f in load_known("C08")}
                break
            except (ValueError, OSError):
                time.sleep(0.2)
        else:
            return set()
    return _known_cache


def _raise_first(viol: list) -> None:
    """Raise the first violation whose kind is not a listed known finding, else the first one."""
    if not viol:
        return
    known = _known()
    for v in viol:
        v.all_kinds = [x.kind for x in viol]
    for v in viol:
        if v.kind not in known:
            raise v
    raise viol[0]


def _fmt(d) -> str:
    path, owner, x, y = d
    return f"at {path or '<root>'} ({owner}): expected {str(x)[:300]!r} got {str(y)[:300]!r}"


def _cache_container_ids(db, G) -> dict:
    out = {}
    for name in ("deployment_cache", "port_cache", "step_cache", "target_cache", "filter_cache", "token_cache", "workflow_cache"):
        cache = getattr(db, name, None)
        if cache is None:
            continue
        for row in list(cache.values()):
            for i, (owner, o) in G.containers(row).items():
                if o is not row:  # the row dict itself is copied by the cache wrapper on every read
                    out[i] = name
    return out


def _independence(rec, viol, ca, cb, cache_ids, d_other, d_fresh, what: str) -> None:
    """ca / cb: containers of two loaded copies (ca's were mutated); d_other / d_fresh: first difference seen in the
    other copy / in a fresh load after the mutation. Violations are bucketed by the cache table the shared container
    lives in (root cause: the cached getter of that table hands out rows with shared nested containers)."""
    shared = {i: ca[i][0] for i in ca if i in cb or i in cache_ids}
    for owner in sorted(set(shared.values())):
        rec.label(f"aliased:{owner}")
    tables = {}
    for i, owner in shared.items():
        tables.setdefault(cache_ids.get(i, "").removesuffix("_cache") or f"no-cache:{owner}", set()).add(owner)
    dd = d_other or d_fresh
    if dd:
        where = "another loaded copy" if d_other else "the next load from the database"
        if tables:
            for t, owners in sorted(tables.items()):
                kind = f"C08:load-aliases-cached-row:{t}" if not t.startswith("no-cache:") else f"C08:loads-share-state:{t[9:]}"
                viol.append(Violation(kind, f"mutating {sorted(owners)} of one loaded {what} changed {where}: {_fmt(dd)}"))
        else:
            viol.append(Violation(f"C08:mutation-leaks:{dd[1]}", f"mutating one loaded {what} changed {where}: {_fmt(dd)}"))
    elif tables:
        t, owners = sorted(tables.items())[0]
        viol.append(Violation(f"C08:shared-container:{t}", f"container shared between two loads / the cache without visible effect: {sorted(owners)}"))


class _gc_guard:
    """cachebox 6.2.0 (pinned by the repository) can dead-lock the interpreter when a full garbage collection starts while
    its ``cached`` wrapper runs ``locks.setdefault_with(key, <python callable>)``: the collector traverses the Cache object,
    whose traverse hook takes the mutex the same thread already holds (observed once in a long run; back trace in the
    agent report). Collections are therefore postponed to the end of each case (the runner does the same around every case; this guard keeps
    the module safe when it is driven directly); this changes no program semantics."""

    def __enter__(self):
        import gc

        self.was_enabled = gc.isenabled()  # vf.runner.call_case already defers collections; then this is a no-op
        gc.disable()

    def __exit__(self, *a):
        import gc

        if self.was_enabled:
            gc.enable()


@prop.given("workflow", workflow_case, quick=1600, thorough=60000, max_shards=8)
async def check_workflow(case, rec):
    with _gc_guard():
        await _check_workflow(case, rec)


async def _check_workflow(case, rec):
    from streamflow.core.workflow import Status, Workflow
    from streamflow.persistence.loading_context import DefaultDatabaseLoadingContext, WorkflowBuilder
    from vf import persist_gen as G
    from vf.engine.detloop import Chaos, pending_tasks, settle
    from vf.engine.harness import make_context

    chaos = Chaos(case["schedule"])
    ctx = make_context(chaos)
    viol: list[Violation] = []

    def flag(kind: str, msg: str) -> None:
        viol.append(Violation(kind, msg))

    try:
        db = ctx.database
        wf, _b = G.build_workflow(ctx, case)
        drop = frozenset({"input_ports"})
        c0 = G.canon(wf, drop=drop)
        classes = G.classes_in(c0, set())
        rec.label(*(f"cls:{n}" for n in sorted(classes)))
        rec.label("cwl" if case["cwl"] else "core", f"steps={len(wf.steps)}")
        if chaos.s and any(chaos.s):
            rec.label("non-default-schedule")
        rec.nontrivial(len(classes) >= 3)

        await wf.save(db)
        if wf.persistent_id is None or any(e.persistent_id is None for e in (*wf.steps.values(), *wf.ports.values())):
            raise Violation("C08:save:no-persistent-id", "an entity has no persistent id after Workflow.save")

        # ---- A: load through a fresh loading context
        a = await Workflow.load(wf.persistent_id, DefaultDatabaseLoadingContext(db))
        d = G.first_diff(c0, G.canon(a, drop=drop))
        if d:
            raise Violation(f"C08:roundtrip:{d[1]}", _fmt(d))
        if a.persistent_id != wf.persistent_id:
            raise Violation("C08:roundtrip:persistent-id", f"workflow id {a.persistent_id} != {wf.persistent_id}")
        for coll in ("steps", "ports"):
            for n, e in getattr(wf, coll).items():
                le = getattr(a, coll)[n]
                if le.persistent_id != e.persistent_id:
                    raise Violation("C08:roundtrip:persistent-id", f"{coll}[{n!r}] id {le.persistent_id} != {e.persistent_id}")
        if a is wf or G.entity_ids(a) & G.entity_ids(wf):
            raise Violation("C08:roundtrip:returns-live-objects", "a fresh loading context returned objects of the saved workflow")

        # ---- B: a second, independent load
        b = await Workflow.load(wf.persistent_id, DefaultDatabaseLoadingContext(db))
        d = G.first_diff(c0, G.canon(b, drop=drop))
        if d:
            raise Violation(f"C08:second-load-differs:{d[1]}", _fmt(d))
        if G.entity_ids(a) & G.entity_ids(b):
            raise Violation("C08:two-loads-share-entities", "two loading contexts returned the same step/port/workflow objects")

        # ---- C: deep copy through the workflow builder
        copy = await WorkflowBuilder(db).load_workflow(wf.persistent_id)
        d = G.first_diff(G.canon(wf, normalize_status=True, drop=drop), G.canon(copy, drop=drop))
        if d:
            raise Violation(f"C08:builder-copy:{d[1]}", _fmt(d))
        withid = [n for n, e in [("<workflow>", copy), *copy.steps.items(), *copy.ports.items()] if e.persistent_id is not None]
        if withid:
            raise Violation("C08:builder-copy:persistent-id-kept", f"persistent ids kept on {withid[:5]}")
        if G.entity_ids(copy) & (G.entity_ids(a) | G.entity_ids(b) | G.entity_ids(wf)):
            raise Violation("C08:builder-copy:shares-entities", "the deep copy shares step/port objects with another workflow instance")
        if case["resave"]:
            rec.label("resave")
            await copy.save(db)
            if copy.persistent_id in (None, wf.persistent_id):
                raise Violation("C08:builder-copy:resave-id", f"saved copy has id {copy.persistent_id}, original {wf.persistent_id}")
            again = await Workflow.load(copy.persistent_id, DefaultDatabaseLoadingContext(db))
            d = G.first_diff(G.canon(wf, normalize_status=True, drop=drop), G.canon(again, drop=drop))
            if d:
                raise Violation(f"C08:builder-copy-resaved:{d[1]}", _fmt(d))

        # ---- D: status updates of persisted steps must be visible to the next load (rows were cached by A/B/C)
        steps = list(wf.steps.values())
        if steps and case["updates"]:
            rec.label("status-updated")
            for idx, k in case["updates"]:
                s = steps[idx % len(steps)]
                stt = G.INITIAL_STATUSES[k % len(G.INITIAL_STATUSES)]
                s.terminated = stt in G.TERMINATED
                await s._set_status(stt)
            e = await Workflow.load(wf.persistent_id, DefaultDatabaseLoadingContext(db))
            for n, s in wf.steps.items():
                if e.steps[n].status != s.status:
                    raise Violation("C08:status-update-not-visible", f"step {n!r}: loaded status {e.steps[n].status!r}, last written {s.status!r}")
        c1 = G.canon(wf, drop=drop)

        # ---- E: independence of loaded copies (a is mutated; b, the cache and a fresh load must not change)
        a2 = await Workflow.load(wf.persistent_id, DefaultDatabaseLoadingContext(db))
        b2 = await Workflow.load(wf.persistent_id, DefaultDatabaseLoadingContext(db))
        ca, cb = G.containers(a2), G.containers(b2)
        cache_ids = _cache_container_ids(db, G)
        before = G.canon(b2, drop=drop)
        G.mutate([o for _, o in ca.values()])
        after = G.canon(b2, drop=drop)
        fresh = await Workflow.load(wf.persistent_id, DefaultDatabaseLoadingContext(db))
        _independence(rec, viol, ca, cb, cache_ids, G.first_diff(before, after), G.first_diff(c1, G.canon(fresh, drop=drop)), "workflow")

        # ---- F: workflow input ports
        if wf.input_ports:
            rec.label("wf-input-ports")
            if a.input_ports != wf.input_ports:
                flag("C08:workflow-input-ports-not-persisted", f"saved {wf.input_ports!r}, loaded {a.input_ports!r}")

        await settle()
        if pending_tasks():
            raise Violation("C08:pending-tasks", f"{len(pending_tasks())} tasks pending after save/load")
        _raise_first(viol)
    finally:
        await ctx.close()


# ---- tokens ------------------------------------------------------------------------------------

text = st.one_of(
    st.sampled_from(["", "a", "0", "null", "x y", "ü", "\U0001F600", "\u0000", "\x7f\x1b", "q'\"\\", "line\nbreak"]),
    st.text(max_size=6),
)
number = st.one_of(
    st.integers(-5, 5),
    st.sampled_from([2**53, 2**53 + 1, 2**63, 2**64 + 1, -(2**63) - 1, 10**30]),
    st.floats(allow_nan=False, allow_infinity=False),
    st.sampled_from([0.1, -0.0, 1e308, 5e-324, 1.7976931348623157e308, 2.5]),
)
jscalar = st.one_of(st.none(), st.booleans(), number, text)
jvalue = st.recursive(jscalar, lambda ch: st.one_of(st.lists(ch, max_size=3), st.dictionaries(text, ch, max_size=3)), max_leaves=8)
tag = st.sampled_from(["0", "0.1", "0.11", "0.0.3", "0.10.2.1"])

file_value = st.fixed_dictionaries(
    {"class": st.sampled_from(["File", "Directory"]), "path": text.map(lambda s: "/d/" + s), "basename": text},
    optional={
        "size": st.integers(0, 2**40), "checksum": st.just("sha1$a4a8b0c0b19d3187a1ab8c9346fc105978115781"),
        "secondaryFiles": st.lists(st.fixed_dictionaries({"class": st.just("File"), "path": text}), max_size=2),
        "contents": text, "listing": st.lists(st.fixed_dictionaries({"class": st.just("File"), "location": text}), max_size=2),
        "format": text,
    },
)

leaf_token = st.one_of(
    st.fixed_dictionaries({"t": st.just("tok"), "v": jvalue, "tag": tag, "rec": st.integers(0, 1)}),
    st.fixed_dictionaries({"t": st.just("tok"), "v": jscalar, "tag": tag, "rec": st.integers(0, 1)}),
    st.fixed_dictionaries({"t": st.just("file"), "v": st.one_of(file_value, st.lists(file_value, max_size=2)), "tag": tag, "rec": st.integers(0, 1)}),
)


def _extend(children):
    return st.one_of(
        st.fixed_dictionaries({"t": st.just("list"), "items": st.lists(children, max_size=3), "tag": tag}),
        st.fixed_dictionaries({"t": st.just("obj"), "items": st.dictionaries(text, children, max_size=3), "tag": tag}),
        st.fixed_dictionaries(
            {
                "t": st.just("job"), "name": text.map(lambda s: "/step/" + s), "wid": st.integers(0, 5),
                "inputs": st.dictionaries(text, children, max_size=3),
                "dirs": st.lists(st.one_of(st.none(), text), min_size=3, max_size=3), "tag": tag, "rec": st.integers(0, 1),
            }
        ),
    )


token_desc = st.one_of(
    st.recursive(leaf_token, _extend, max_leaves=8),
    st.recursive(leaf_token, _extend, max_leaves=8),
    st.recursive(leaf_token, _extend, max_leaves=8),
    st.fixed_dictionaries({"t": st.just("term"), "status": st.integers(0, 9)}),
    st.fixed_dictionaries({"t": st.just("iter"), "tag": tag}),
)
token_case = st.fixed_dictionaries({"tok": token_desc, "port": st.integers(0, 1), "schedule": schedule})


@prop.given("tokens", token_case, quick=2400, thorough=100000, max_shards=8)
async def check_tokens(case, rec):
    with _gc_guard():
        await _check_tokens(case, rec)


async def _check_tokens(case, rec):
    from streamflow.core.workflow import Token, Workflow
    from streamflow.persistence.loading_context import DefaultDatabaseLoadingContext
    from vf import persist_gen as G
    from vf.engine.detloop import Chaos, pending_tasks, settle
    from vf.engine.harness import make_context

    td = case["tok"]
    chaos = Chaos(case["schedule"])
    ctx = make_context(chaos)
    viol: list[Violation] = []
    try:
        db = ctx.database
        tok = G.build_token(td)
        model = G.token_model(td)
        d = G.first_diff(model, G.canon(tok))
        if d:  # generator self-check: the description and the built object agree before anything is saved
            from vf.core import HarnessError

            raise HarnessError(f"token model disagrees with the built token: {_fmt(d)}")
        depth = G.token_depth(td)
        kinds = G.token_classes(td, set())
        rec.label(*(f"cls:{k}" for k in sorted(kinds)), f"depth={min(depth, 3)}")
        container_value = td["t"] in ("tok", "file") and isinstance(td["v"], (list, dict))
        rec.nontrivial(depth >= 2 or container_value)

        port_id = None
        if case["port"]:
            rec.label("with-port")
            wf = Workflow(context=ctx, name="w", config={})
            port = wf.create_port()
            await wf.save(db)
            port_id = port.persistent_id
        await tok.save(db, port_id)
        if tok.persistent_id is None:
            raise Violation("C08:save:no-persistent-id", "token has no persistent id after save")

        a = await Token.load(tok.persistent_id, DefaultDatabaseLoadingContext(db))
        d = G.first_diff(model, G.canon(a))
        if d:
            raise Violation(f"C08:token-roundtrip:{d[1]}", _fmt(d))
        if a.persistent_id != tok.persistent_id:
            raise Violation("C08:roundtrip:persistent-id", f"token id {a.persistent_id} != {tok.persistent_id}")
        if port_id is not None:
            row_ids = await db.get_port_tokens(port_id)
            if tok.persistent_id not in row_ids:
                raise Violation("C08:token-port-lost", f"token {tok.persistent_id} not among the tokens of port {port_id}: {row_ids}")
        b = await Token.load(tok.persistent_id, DefaultDatabaseLoadingContext(db))
        d = G.first_diff(model, G.canon(b))
        if d:
            raise Violation(f"C08:second-load-differs:{d[1]}", _fmt(d))
        if a is b or a is tok:
            raise Violation("C08:two-loads-share-entities", "two loading contexts returned the same token object")

        # independence
        ca, cb = G.containers(a), G.containers(b)
        cache_ids = _cache_container_ids(db, G)
        G.mutate([o for _, o in ca.values()])
        d1 = G.first_diff(model, G.canon(b))
        fresh = await Token.load(tok.persistent_id, DefaultDatabaseLoadingContext(db))
        _independence(rec, viol, ca, cb, cache_ids, d1, G.first_diff(model, G.canon(fresh)), "token")
        await settle()
        if pending_tasks():
            raise Violation("C08:pending-tasks", f"{len(pending_tasks())} tasks pending after save/load")
        _raise_first(viol)
    finally:
        await ctx.close()
