"""C24 Remote path operations agree with the local filesystem.

A case is a *differential op-list machine*: a generated directory tree is created twice below a fresh
per-case directory (``l/`` and ``r/``); a generated list of operations is then interpreted side by side

* on ``l/`` by a reference written here with plain ``os`` / ``pathlib`` / ``glob`` / ``hashlib`` calls
  (``_Ref``; the semantics ``LocalStreamFlowPath`` documents, no StreamFlow code), and
* on ``r/`` through ``RemoteStreamFlowPath`` on a location of a ``"vf-shell"`` deployment (the unmodified
  ``BaseConnector`` code: persistent ``sh`` shell, ``sh -c`` subprocesses, ``tee`` stream writer).

Oracle after every operation: same success-vs-failure outcome, same return value (glob / walk as sorted
collections, paths relative to the tree root), equal snapshots of the two trees (type, permission bits,
content hash, link target, hard-link groups). Sub-check ``local`` runs the same machines through
``LocalStreamFlowPath`` against the same reference (no subprocess): it shows that the reference *is* the
local behaviour, so every remote-vs-reference mismatch is a remote-vs-local mismatch.

Operations are records with state-relative indices (``p % len(candidates)``), interpreted against the
reference tree, so every case is valid and replayable. Argument domains follow the repository's callers
(``mkdir(mode=0o777, exist_ok / parents+exist_ok)``, ``read_text()`` and ``read_text(n=65536)``,
``walk(follow_symlinks=True)`` consumed for its first tuple, ``glob(<CWL pattern>)``, ``resolve()``); the
rest of the documented signature (other modes, ``parents``/``exist_ok`` combinations, small ``n``,
``follow_symlinks=False``, full and bottom-up walks) is generated as separately labelled classes.

A mismatch does not end the machine: it is diagnosed into a stable kind ``C24:<op>:<symptom>``, the remote
tree is re-created from the reference tree and the machine goes on. At the end the first mismatch whose
kind is not a listed known finding is raised (else the first one), so the search continues past shallow,
already recorded defects *inside* a machine as well as across cases. Kinds: semantic disagreements have
their own symptom name with exact conditions (``mkdir:mode-not-masked-by-umask``, ``walk:never-descends``,
``read_text:strips-whitespace`` ...); shell-syntax trouble is bucketed per (operation, trigger class) with the
trigger classes ``space`` (word splitting), ``glob`` (pathname expansion) and ``shell-syntax`` (quotes, ``$``,
backtick, operators, backslash, newline): ``C24:mkdir:unquoted-space``, ``C24:rmtree:hangs-unquoted-shell-syntax``;
everything else is ``unexplained-{outcome,value,state}`` and therefore never a known finding.

No verdict depends on elapsed time:
* *hang* = the persistent shell holds its execute lock while it (or every command it waits for) is blocked
  reading its own, empty stdin pipe and nothing it wrote is still on its way to StreamFlow
  (``confine_c24.shell_stuck``; an unterminated quote swallowed the end marker, or ``cat PATH -`` reads the
  command pipe). The shell is then killed and the machine goes on.
* *runaway* = the operation issued more remote commands than a structural bound (two listings per directory
  of the reference walk, a handful for anything else), counted by wrapping ``connector.run`` of the deployed
  *instance* (``walk`` never descends and lists the top directory forever).
* a command put in the background by an unquoted ``&`` is waited for (no foreign process whose working
  directory or command line is inside the sandbox, two consecutive scans) before the trees are compared.
Wall-clock limits exist only as safety nets and yield a harness error.

Names come from two separate classes: ``plain`` and ``hostile`` (each hostile name is built around one
trigger class: blanks, quotes, ``$``/backtick, shell operators, backslash, glob characters, leading dash,
unicode, inert punctuation, newline; plus the mixed names of ``vf.fs``). Safety: see ``vf/confine_c24.py``
(generator-side rule: only the *final* component of a path handed to the remote side may contain shell
syntax; the shard runs in a mount namespace where only its sandbox is writable, with the working directory,
``HOME`` and ``TMPDIR`` inside it; leftovers of word splitting in the working directory / home are part of the
compared state).
"""
from __future__ import annotations

import asyncio
import glob as _glob
import hashlib
import os
import pathlib
import shutil
import stat
import time

from hypothesis import strategies as st

from vf import fs
from vf.core import HarnessError, Prop, Violation

prop = Prop(
    "C24",
    level="exploration",
    technique=(
        "Hypothesis PBT, stateful differential op-list machine: RemoteStreamFlowPath on a shell-backed remote location "
        "vs. a pathlib/os reference on an equal tree; return values, outcomes and full tree snapshots compared after every step"
    ),
    rule=(
        "case = generated tree (0..8 entries: files with text content, directories, symlinks incl. dangling) x list of <= 15 "
        "(quick) / 25 (thorough) operations out of exists, is_file, is_dir, is_symlink, mkdir, write_text, read_text, size, "
        "checksum, glob, walk, resolve, rmtree, symlink_to, hardlink_to, chmod with state-relative targets; names from the "
        "plain or the hostile alphabet (separate classes). Non-trivial = at least one executed operation involves a hostile "
        "name or whitespace-sensitive content, or a mutation that changed the reference tree is followed by a query; "
        "distinct by the whole case."
    ),
    level_text="Random search over trees, names, contents and operation sequences; the oracle is the local filesystem API, both directions, state compared after every step.",
    level_note=(
        "The remote location is this host driven through sh (dash) with GNU coreutils/findutils; hangs are decided by an exact "
        "test of the persistent shell's state (blocked on an empty stdin with no child while StreamFlow awaits the end marker), "
        "never by elapsed time. Paths whose non-final components contain shell syntax are not handed to the remote side (safety)."
    ),
    assumptions=[
        "remote locations run a POSIX sh with GNU coreutils/findutils (as the connectors assume); umask 022; the checks run as root",
        "text files are UTF-8 without carriage returns (CWL loadContents / cwl.output.json domain)",
        "no path component names a symlink cycle (generated trees and symlink_to targets keep the dereferenced tree finite)",
    ],
)

# =================================================================================================
# names

INERT_EXTRA = "%,:=+@!{}~"  # "~" only expands at the start of a word; names are pasted behind ".../"
PLAIN_PIECES = ["a", "b", "Z", "0", ".", "_", "-", "x1", "f", ".txt"]
CLASS_PIECES = {
    "blank": [" ", "  ", "\t", " b"],
    "quote": ["'", '"', "it's", '"q"', "''"],
    "dollar": ["$", "`", "$HOME", "$(id)", "`id`", "${x}", "$0", "$*", "$$"],
    "meta": [";", "&", "|", "(", ")", "<", ">", "#", "~", ";b", "&&", ">b"],
    "backslash": ["\\", "\\\\", "\\n"],
    "glob": ["*", "?", "[", "]", "[a]", "[!a]"],
    "unicode": ["é", "é", "ß", "日本", "\U0001f600", "‮"],
    "inert": ["%", "%s", "!", "{", "}", "=", ":", ",", "+", "@", "{a,b}"],
    "newline": ["\n", "a\nb"],
}
SHAPED = {
    "blank": ["a b", " a", "a ", " ", "a  b ", "\ta"],
    "dash": ["-rf", "--help", "-", "-a", "--", "-m"],
    "meta": ["a;b", "x&", "#c", "~", "a|b", "(a)", "a>b"],
    "quote": ["it's", 'say"hi"', "'", '"'],
    "glob": ["*", "?", "[a]", "a*", "*.txt"],
    "dollar": ["$0", "$HOME", "`id`", "a$b"],
}


def inert(name: str) -> bool:
    """No character of ``name`` means anything to a POSIX shell, quoted or not."""
    return all(c in fs.PLAIN_CHARS or ord(c) > 127 or c in INERT_EXTRA for c in name)


def _ok_name(s: str) -> bool:
    return s not in ("", ".", "..") and "/" not in s and "\0" not in s and len(s.encode()) <= 200


def _class_names(cls: str) -> st.SearchStrategy[str]:
    pieces = CLASS_PIECES[cls]
    mixed = st.one_of(st.sampled_from(pieces), st.sampled_from(PLAIN_PIECES), st.sampled_from(PLAIN_PIECES))
    body = st.tuples(st.sampled_from(pieces), st.lists(mixed, max_size=3), st.integers(0, 3)).map(
        lambda t: "".join(t[1][: t[2] % (len(t[1]) + 1)] + [t[0]] + t[1][t[2] % (len(t[1]) + 1):])
    )
    return body


def hostile_names(newline: bool = True) -> st.SearchStrategy[str]:
    classes = ["blank", "blank", "quote", "dollar", "meta", "meta", "backslash", "glob", "unicode", "inert"]
    alts = [_class_names(c) for c in classes]
    alts.append(st.sampled_from([n for v in SHAPED.values() for n in v]))
    alts.append(fs.plain_names().map(lambda s: "-" + s))  # leading dash
    alts.append(fs.hostile_names())  # mixed classes (vf.fs)
    alts.append(fs.plain_names())  # plain siblings coexist
    if newline:
        alts.append(_class_names("newline"))
    return st.one_of(*alts).filter(_ok_name)


def names(alpha: str) -> st.SearchStrategy[str]:
    if alpha == "plain":
        longs = fs._long(fs.plain_names(), fills=("L", "x", "-", "_0", "."))
        return st.tuples(st.integers(0, 9), fs.plain_names(), longs).map(lambda t: t[2] if t[0] == 0 else t[1])
    longs = fs._long(st.one_of(fs.plain_names(), hostile_names(False)))
    return st.tuples(st.integers(0, 12), hostile_names(), longs).map(lambda t: t[2] if t[0] == 0 else t[1]).filter(_ok_name)


# trigger classes, most syntax-destructive first (a name is bucketed by the first one it contains)
def triggers(name: str) -> list[str]:
    out = []
    if "\n" in name:
        out.append("newline")
    if "'" in name or '"' in name:
        out.append("quote")
    if "$" in name or "`" in name:
        out.append("dollar")
    if any(c in name for c in ";&|()<>#"):
        out.append("metachar")
    if "\\" in name:
        out.append("backslash")
    if " " in name or "\t" in name:
        out.append("space")
    if any(c in name for c in "*?["):
        out.append("glob")
    return out


def dq_triggers(name: str) -> list[str]:
    """What stays active inside the double quotes ``size`` uses."""
    out = []
    if '"' in name:
        out.append("quote")
    if "$" in name or "`" in name:
        out.append("dollar")
    if "\\" in name:
        out.append("backslash")
    return out


def name_class(name: str) -> str:
    t = triggers(name)
    if t:
        return t[0]
    if name.startswith("-"):
        return "dash"
    if any(ord(c) > 127 for c in name):
        return "unicode"
    if not inert(name):
        return "other"
    if any(c in INERT_EXTRA for c in name):
        return "inert-punct"
    return "plain"


# =================================================================================================
# case strategies

QUERY_OPS = ["exists", "is_file", "is_dir", "is_symlink", "resolve", "checksum", "size"]
FILE_SIZES_QUICK = [0, 0, 1, 2, 5, 17, 100, 513, 2049]
FILE_SIZES_THOROUGH = FILE_SIZES_QUICK + [4097, 65535, 65536, 65537, 70001]
CONTENT_KINDS = ["empty", "plain", "nl", "nl", "nlnl", "lead", "trail", "ws", "multi", "unicode", "unibig", "unibig", "shell", "json", "big"]
BUFFER_SIZES = [64, 128, 1024, 65536, 65536]
GLOB_KINDS = ["star", "star", "sub", "ext", "prefix", "q", "cls", "literal", "literal", "literal-sub", "dstar", "neg", "nomatch", "dot", "star-slash"]
FILE_MODES = [0o644, 0o755, 0o600, 0o700, 0o444, 0o666, 0o777, 0o640]


def _tree(alpha: str, thorough: bool):
    nm = names(alpha)
    par = st.integers(0, 63)
    sizes = st.one_of(st.sampled_from(FILE_SIZES_THOROUGH if thorough else FILE_SIZES_QUICK), st.integers(0, 300))
    d = st.fixed_dictionaries({"k": st.just("d"), "n": nm, "p": par})
    f = st.fixed_dictionaries({"k": st.just("f"), "n": nm, "p": par, "size": sizes, "seed": st.integers(0, 999),
                               "c": st.sampled_from(["text", "textnl", "textnl"]), "x": st.sampled_from([0, 0, 1, 2, 3])})
    link = st.fixed_dictionaries({"k": st.just("l"), "n": nm, "p": par, "t": st.integers(0, 63),
                                  "dangling": st.sampled_from([False] * 4 + [True])})
    hard = st.fixed_dictionaries({"n": nm, "p": par, "t": st.integers(0, 63)})
    return st.fixed_dictionaries({"alpha": st.just(alpha), "dangling": st.just(True),
                                  "entries": st.lists(st.one_of(d, d, f, f, f, link), max_size=10 if thorough else 8),
                                  # extra hard-linked names of regular files of the tree (applied after the entries)
                                  "hard": st.lists(hard, max_size=2)})


def _target(nm, new: float, want: str = "any"):
    """``n`` None = an existing entry, else ``<existing directory>/n[/n2]``. (Not ``one_of(none, nm)``:
    Hypothesis flattens nested ``one_of``s, which would make ``None`` one alternative among ~200.)"""
    k = int(round(new * 10))
    n = st.tuples(st.integers(0, 9), nm).map(lambda t: t[1] if t[0] < k else None)
    return st.fixed_dictionaries({"p": st.integers(0, 63), "n": n, "want": st.just(want)})


def _ops(alpha: str, thorough: bool):
    nm = names(alpha)
    content = st.fixed_dictionaries({"k": st.sampled_from(CONTENT_KINDS), "seed": st.integers(0, 99),
                                     "len": st.one_of(st.integers(0, 40), st.sampled_from([0, 1, 100, 5000] + ([65536, 70000] if thorough else [])))})
    # NB: st.one_of drops repeated *identical* strategy objects, so weights are expressed with distinct objects
    def query(op):
        return st.fixed_dictionaries({"op": st.just(op), "t": _target(nm, 0.2)})

    def mkdir():
        return st.fixed_dictionaries({
            "op": st.just("mkdir"), "t": _target(nm, 0.6, "dir"), "n2": st.tuples(st.integers(0, 3), fs.plain_names()).map(lambda t: t[1] if t[0] == 0 else None),
            "mode": st.sampled_from([0o777, 0o777, 0o777, 0o777, 0o755, 0o700]),
            # the callers' forms (exist_ok / parents+exist_ok) dominate
            "pe": st.sampled_from([[False, True]] * 3 + [[True, True]] * 3 + [[False, False], [True, False]])}).map(
                lambda d: {**{k: v for k, v in d.items() if k != "pe"}, "parents": d["pe"][0], "exist_ok": d["pe"][1]})

    def write():
        return st.fixed_dictionaries({"op": st.just("write_text"), "t": _target(nm, 0.6, "file"), "content": content})

    def read():
        return st.fixed_dictionaries({"op": st.just("read_text"), "t": _target(nm, 0.1, "file"),
                                      "n": st.sampled_from([-1, -1, -1, 65536, 65536, 1, 3, 7])})

    def globop():
        return st.fixed_dictionaries({"op": st.just("glob"), "t": _target(nm, 0.0, "dir"),
                                      "pat": st.sampled_from(GLOB_KINDS), "i": st.integers(0, 63)})

    def walk():
        return st.fixed_dictionaries({"op": st.just("walk"), "t": _target(nm, 0.0, "dir"),
                                      "top_down": st.sampled_from([True, True, True, False]),
                                      "follow": st.sampled_from([True, True, True, False]),
                                      "all": st.sampled_from([False, False, True])})

    rmtree = st.fixed_dictionaries({"op": st.just("rmtree"), "t": _target(nm, 0.15)})
    symlink = st.fixed_dictionaries({"op": st.just("symlink_to"), "t": _target(nm, 0.85), "to": _target(nm, 0.2),
                                     "rel": st.booleans()})
    hardlink = st.fixed_dictionaries({"op": st.just("hardlink_to"), "t": _target(nm, 0.85), "to": _target(nm, 0.1, "file")})
    chmod = st.fixed_dictionaries({"op": st.just("chmod"), "t": _target(nm, 0.1), "mode": st.integers(0, len(FILE_MODES) - 1)})
    size_dir = st.fixed_dictionaries({"op": st.just("size"), "t": _target(nm, 0.0, "dir")})
    usage = st.fixed_dictionaries({"op": st.just("usage"), "t": _target(nm, 0.0, "dir"),
                                   "more": st.lists(_target(nm, 0.1), max_size=2)})
    one = st.one_of(*[query(o) for o in QUERY_OPS], size_dir, usage, mkdir(), mkdir(), write(), write(), read(), read(), globop(), globop(),
                    walk(), walk(), rmtree, symlink, hardlink, chmod)
    return st.lists(one, min_size=1, max_size=25 if thorough else 15)


def _machines(thorough: bool):
    def both(alpha):
        return st.fixed_dictionaries({"alpha": st.just(alpha), "tree": _tree(alpha, thorough), "ops": _ops(alpha, thorough),
                                      "buf": st.sampled_from(BUFFER_SIZES)})

    return st.one_of(both("plain"), both("hostile"), both("hostile"))


def _tier_strategy():
    """The runner calls ``sub.strategy()`` from ``_run_given(sub, state, seed, n, tier)``: read the tier there."""
    import sys

    tier = "quick"
    try:
        f = sys._getframe(1)
        for _ in range(4):
            if f is None:
                break
            if "tier" in f.f_locals and f.f_locals["tier"] in ("quick", "thorough"):
                tier = f.f_locals["tier"]
                break
            f = f.f_back
    except Exception:  # noqa: BLE001
        pass
    return _machines(tier == "thorough")


# =================================================================================================
# contents


def make_content(desc: dict) -> str:
    k, seed, n = desc["k"], desc["seed"], desc["len"]
    base = fs.content(max(1, min(n, 200)), seed, "text").decode("ascii").replace("\n", " ").strip() or "x"
    if k == "empty":
        return ""
    if k == "plain":
        return base
    if k == "nl":
        return base + "\n"
    if k == "nlnl":
        return base + "\n\n"
    if k == "lead":
        return "  " + base
    if k == "trail":
        return base + " \t"
    if k == "ws":
        return [" ", "\n", " \n ", "\t"][seed % 4]
    if k == "multi":
        return f"{base}\n\n{base[::-1]}\nlast"
    if k == "unicode":
        return "héllo 日本 \U0001f600 " + base + ["", "\n"][seed % 2]
    if k == "unibig":
        # 2-, 3- and 4-byte code points only: the encoded length (11 bytes per 4 characters) exceeds any small
        # transfer buffer several times while the character count stays well below the byte count
        return "\u00e9\u65e5\u672c\U0001f600" * max(8, n) + ["", "\n"][seed % 2]
    if k == "shell":
        return "$HOME `id` 'q' \"d\" \\ * ; # " + base + ["", "\n"][seed % 2]
    if k == "json":
        return '{"out": {"class": "File", "path": "%s"}}\n' % base[:10].replace('"', "").replace("\\", "")
    # big
    return fs.content(max(n, 3000), seed, "textnl").decode("ascii")


# =================================================================================================
# tree helpers (harness side, plain os calls)


def listing(root: str) -> list[tuple[str, str]]:
    """Sorted ``(relpath, 'd'|'f'|'l')`` of everything below ``root`` (links not followed)."""
    out: list[tuple[str, str]] = []

    def visit(p: str, rel: str) -> None:
        try:
            ns = sorted(os.listdir(p))
        except OSError:
            return
        for name in ns:
            q = os.path.join(p, name)
            r = f"{rel}/{name}" if rel else name
            try:
                m = os.lstat(q).st_mode
            except OSError:
                continue
            kind = "l" if stat.S_ISLNK(m) else "d" if stat.S_ISDIR(m) else "f"
            out.append((r, kind))
            if kind == "d":
                visit(q, r)

    visit(root, "")
    return out


def snap(root: str) -> dict:
    """``{relpath: (type, perm bits, sha1 | link text | None[, hard-link group])}``; absolute link texts
    below ``root`` are rewritten to ``<ROOT>/…``."""
    out: dict[str, tuple] = {}
    inodes: dict[tuple, list[str]] = {}

    def visit(p: str, rel: str) -> None:
        try:
            st_ = os.lstat(p)
        except OSError as e:
            out[rel] = ("error", type(e).__name__)
            return
        m = st_.st_mode
        if stat.S_ISLNK(m):
            t = os.readlink(p)
            if t == root or t.startswith(root + "/"):
                t = "<ROOT>" + t[len(root):]
            out[rel] = ("l", t)
        elif stat.S_ISDIR(m):
            out[rel] = ("d", m & 0o7777)
            try:
                ns = sorted(os.listdir(p))
            except OSError as e:
                out[rel] = ("d", m & 0o7777, type(e).__name__)
                return
            for name in ns:
                visit(os.path.join(p, name), name if rel == "." else f"{rel}/{name}")
        elif stat.S_ISREG(m):
            out[rel] = ("f", m & 0o7777, fs.sha1_file(p))
            if st_.st_nlink > 1:
                inodes.setdefault((st_.st_dev, st_.st_ino), []).append(rel)
        else:
            out[rel] = ("other", stat.S_IFMT(m))

    visit(root, ".")
    for group in inodes.values():
        if len(group) > 1:
            for rel in group:
                out[rel] = out[rel] + (tuple(sorted(group)),)
    return out


def snap_diff(a: dict, b: dict) -> dict:
    return {k: (a.get(k), b.get(k)) for k in sorted(set(a) | set(b)) if a.get(k) != b.get(k)}


def clone(src: str, dst: str) -> None:
    """Make ``dst`` an exact copy of ``src`` (modes, link texts with the root rewritten, hard links)."""
    if os.path.lexists(dst):
        _force_rmtree(dst)
    seen: dict[tuple, str] = {}
    dirs: list[tuple[str, int]] = []

    def copy(s: str, d: str) -> None:
        st_ = os.lstat(s)
        m = st_.st_mode
        if stat.S_ISLNK(m):
            t = os.readlink(s)
            if t == src or t.startswith(src + "/"):
                t = dst + t[len(src):]
            os.symlink(t, d)
        elif stat.S_ISDIR(m):
            os.mkdir(d, 0o700)
            dirs.append((d, m & 0o7777))
            for name in sorted(os.listdir(s)):
                copy(os.path.join(s, name), os.path.join(d, name))
        else:
            key = (st_.st_dev, st_.st_ino)
            if st_.st_nlink > 1 and key in seen:
                os.link(seen[key], d)
            else:
                shutil.copyfile(s, d, follow_symlinks=False)
                os.chmod(d, m & 0o7777)
                seen[key] = d

    copy(src, dst)
    for d, m in reversed(dirs):
        os.chmod(d, m)


def _force_rmtree(path: str) -> None:
    if os.path.islink(path) or not os.path.isdir(path):
        os.unlink(path)
        return
    for dirpath, dirnames, _ in os.walk(path):
        for d in dirnames:
            p = os.path.join(dirpath, d)
            if not os.path.islink(p):
                os.chmod(p, 0o700)
    os.chmod(path, 0o700)
    shutil.rmtree(path)


def _add_hard_links(root: str, hard: list) -> None:
    for h in hard:
        ents = listing(root)
        files = [r for r, k in ents if k == "f"]
        dirs = [""] + [r for r, k in ents if k == "d"]
        if not files:
            return
        src = os.path.join(root, files[h["t"] % len(files)])
        parent = dirs[h["p"] % len(dirs)]
        dst = os.path.join(root, parent, h["n"]) if parent else os.path.join(root, h["n"])
        if not os.path.lexists(dst):
            try:
                os.link(src, dst)
            except OSError:
                pass


def has_link_below(path: str) -> bool:
    if os.path.islink(path):
        return True
    if os.path.isdir(path):
        for dirpath, dirnames, filenames in os.walk(path):
            for n in dirnames + filenames:
                if os.path.islink(os.path.join(dirpath, n)):
                    return True
    return False


# =================================================================================================
# the reference: LocalStreamFlowPath-style semantics with the plain filesystem API


class _Ref:
    """Every method takes absolute path strings and returns the value the operation must return."""

    @staticmethod
    def exists(p):
        return os.path.exists(p)

    @staticmethod
    def is_file(p):
        return os.path.isfile(p)

    @staticmethod
    def is_dir(p):
        return os.path.isdir(p)

    @staticmethod
    def is_symlink(p):
        return os.path.islink(p)

    @staticmethod
    def mkdir(p, mode, parents, exist_ok):
        pathlib.Path(p).mkdir(mode=mode, parents=parents, exist_ok=exist_ok)

    @staticmethod
    def write_text(p, data):
        with open(p, "w", encoding="utf-8", newline="") as fh:
            fh.write(data)
        return len(data)

    @staticmethod
    def read_text(p, n):
        with open(p, encoding="utf-8") as fh:
            return fh.read(n)

    @staticmethod
    def size(p):
        # a regular file: its size (0 when reached through a link); anything else: the regular files below,
        # links neither counted nor followed
        if os.path.isfile(p):
            return 0 if os.path.islink(p) else os.stat(p).st_size
        total = 0
        for dirpath, dirnames, filenames in os.walk(p):
            for f in filenames + [d for d in dirnames if os.path.islink(os.path.join(dirpath, d))]:
                q = os.path.join(dirpath, f)
                if not os.path.islink(q):
                    total += os.lstat(q).st_size
        return total

    @staticmethod
    def checksum(p):
        if not os.path.isfile(p):
            return None
        return fs.sha1_file(p)

    @staticmethod
    def glob(p, pattern):
        return list(_glob.glob(os.path.join(p, pattern)))

    @staticmethod
    def walk(p, top_down, follow):
        return [(str(d), list(ds), list(fs_)) for d, ds, fs_ in pathlib.Path(p).walk(top_down=top_down, follow_symlinks=follow)]

    @staticmethod
    def resolve(p):
        return os.path.realpath(p) if os.path.exists(p) else None

    @staticmethod
    def rmtree(p):
        if os.path.exists(p):
            if os.path.islink(p):
                os.unlink(p)
            elif os.path.isdir(p):
                shutil.rmtree(p)
            else:
                os.unlink(p)

    @staticmethod
    def symlink_to(p, target):
        os.symlink(target, p)

    @staticmethod
    def hardlink_to(p, target):
        os.link(target, p)

    @staticmethod
    def chmod(p, mode):
        os.chmod(p, mode)


# =================================================================================================
# per-shard environment: sandbox box, persistent event loop, one context + deployed connector


class _Env:
    def __init__(self) -> None:
        # import the code under test *before* entering the box (asyncssh probes libraries through gcc + /tmp)
        import streamflow.data.remotepath  # noqa: F401
        import vf.engine.harness  # noqa: F401
        import vf.fakes.shellremote  # noqa: F401
        from vf.confine_c24 import Box

        # worker threads for asyncio.to_thread (LocalStreamFlowPath.checksum of files > 2 KiB) must exist before
        # the box is entered: a thread created inside would share the main thread's fs_struct and make leaving
        # the mount namespace (setns) impossible
        self.executor = _prestarted_executor(2)
        self.box = Box()
        self.loop = asyncio.new_event_loop()
        self.loop.set_default_executor(self.executor)
        self.ctx = None
        self.conn = None
        self.loc = None
        self.local_loc = None
        self.commands_left = 10**9
        try:
            self.loop.run_until_complete(self._deploy())
        except BaseException:
            self.close()
            raise

    async def _deploy(self) -> None:
        from vf.engine.harness import make_context
        from vf.fakes.shellremote import deploy_all, deployment_config, get_location, local_config

        self.ctx = make_context(workdir=self.box.base)
        conns = await deploy_all(self.ctx, [local_config(), deployment_config("C24", "vf-shell", locations=1)])
        self.conn = conns["C24"]
        self.loc = await get_location(self.conn)
        self.local_loc = await get_location(conns["__LOCAL__"])
        # instance wrapper (no repository hook): count the remote commands of the operation in flight
        inner_run = self.conn.run
        env = self

        async def counted_run(*args, **kwargs):
            env.commands_left -= 1
            if env.commands_left < 0:
                raise _Runaway()
            return await inner_run(*args, **kwargs)

        self.conn.run = counted_run
        if self.loc.local or not self.local_loc.local:
            raise HarnessError("location kinds are not what the check needs")

    def close(self) -> None:
        try:
            if self.ctx is not None:
                async def down():
                    from vf.confine_c24 import kill_shells
                    try:
                        await asyncio.wait_for(self.ctx.deployment_manager.undeploy_all(), 20)
                    except Exception:  # noqa: BLE001
                        kill_shells(self.conn, self.loc)
                    await self.ctx.close()

                self.loop.run_until_complete(down())
        finally:
            try:
                self.loop.run_until_complete(self.loop.shutdown_asyncgens())
                self.loop.close()
            finally:
                self.box.close()
                self.executor.shutdown(wait=False)


def _prestarted_executor(n: int):
    import threading
    from concurrent.futures import ThreadPoolExecutor

    ex = ThreadPoolExecutor(max_workers=n, thread_name_prefix="c24-io")
    barrier = threading.Barrier(n + 1)
    futures = [ex.submit(barrier.wait) for _ in range(n)]
    barrier.wait()
    for f in futures:
        f.result()
    return ex


_ENV: list[_Env] = []
_DEBUG = int(os.environ.get("C24_DEBUG", "0") or 0)


def _setup() -> None:
    if not _ENV:
        _ENV.append(_Env())
        import atexit

        atexit.register(_shutdown)
    else:
        _ENV[0].box.resume()


def _teardown() -> None:
    """Shard processes (one sub-check each) are done: close everything. In the runner's own process (inline
    runs, the replay tier: one setup/teardown per replay) only step out of the box and keep the environment."""
    import multiprocessing

    if multiprocessing.current_process().name != "MainProcess":
        _shutdown()
    elif _ENV:
        _ENV[0].box.suspend()


def _shutdown() -> None:
    while _ENV:
        env = _ENV.pop()
        env.box.resume()
        env.close()


def _env() -> _Env:
    if not _ENV or not _ENV[0].box.inside:
        _setup()
    return _ENV[0]


# =================================================================================================
# running one operation on the system under test


class _Hang(Exception):
    pass


class _Runaway(Exception):
    """The operation issued more remote commands than any correct implementation needs (structural bound)."""


OP_SAFETY_NET = float(os.environ.get('C24_SAFETY_NET', '600'))  # seconds; expiry is a harness error (inconclusive), never a verdict


async def _guard(env: _Env, coro, remote: bool, what=None):
    """Await ``coro``; for remote operations watch the persistent shell: if it can provably make no progress
    (see ``confine_c24.shell_stuck``) the operation hangs -> ``_Hang`` after cleaning up."""
    from vf.confine_c24 import kill_shells, shell_stuck

    task = asyncio.ensure_future(coro)
    if not remote:
        return await task
    t0 = time.monotonic()
    stuck = 0
    delay = 0.005
    while True:
        done, _ = await asyncio.wait({task}, timeout=delay)
        if done:
            return task.result()
        if shell_stuck(env.conn, env.loc):
            stuck += 1
        else:
            stuck = 0
        if stuck >= 3:
            task.cancel()
            await asyncio.gather(task, return_exceptions=True)
            await _reset_shells(env)
            raise _Hang()
        delay = min(delay * 1.5, 0.1)
        if time.monotonic() - t0 > OP_SAFETY_NET:
            task.cancel()
            await asyncio.gather(task, return_exceptions=True)
            kill_shells(env.conn, env.loc)
            raise HarnessError(f"remote operation exceeded the safety net without the shell being provably stuck (inconclusive): {_short(what)}")


async def _reset_shells(env: _Env) -> None:
    from vf.confine_c24 import kill_shells, shell_procs

    procs = shell_procs(env.conn, env.loc)
    kill_shells(env.conn, env.loc)
    for p in procs:
        try:
            await asyncio.wait_for(p.wait(), 10)
        except Exception:  # noqa: BLE001
            pass
    env.conn._shells.get(env.loc.name, {}).clear()


async def _quiesce(env: _Env) -> None:
    """Wait until no process other than the persistent shells lives in the box (commands put in the
    background by an unquoted ``&`` must have finished before the trees are compared). A process belongs to
    the box if its working directory is inside it or its command line mentions it; two consecutive clean
    scans are required (a job forked by the shell may not have been scheduled yet)."""
    from vf.confine_c24 import shell_procs

    keep = {p.pid for p in shell_procs(env.conn, env.loc)} | {os.getpid()}
    base = env.box.base.encode()
    t0 = time.monotonic()
    clean = 0
    while True:
        busy = None
        for name in os.listdir("/proc"):
            if not name.isdigit() or int(name) in keep:
                continue
            try:
                cwd = os.readlink(f"/proc/{name}/cwd")
            except OSError:
                cwd = ""
            try:
                with open(f"/proc/{name}/cmdline", "rb") as fh:
                    cmd = fh.read(4096)
            except OSError:
                cmd = b""
            if cwd == env.box.cwd or cwd.startswith(env.box.base + "/") or base in cmd:
                busy = (name, cwd, cmd[:80])
                break
        if _DEBUG > 2:
            print(f"[c24] quiesce scan busy={busy}", flush=True)
        if busy is None:
            clean += 1
            if clean >= 2:
                return
        else:
            clean = 0
        if time.monotonic() - t0 > 30:
            raise HarnessError(f"stray processes keep running in the sandbox (inconclusive): {busy}")
        await asyncio.sleep(0.01)


def _rel(path, root: str):
    s = str(path)
    if s == root:
        return "<ROOT>"
    if s.startswith(root + "/"):
        return "<ROOT>" + s[len(root):]
    return s


async def _sut(env: _Env, driver: str, root: str, c: dict):
    """Perform the concrete operation ``c`` through a StreamFlowPath on ``root``; returns the normalised value."""
    from streamflow.data.remotepath import StreamFlowPath

    loc = env.loc if driver == "remote" else env.local_loc

    def P(rel: str):
        return StreamFlowPath(root if rel == "" else f"{root}/{rel}", context=env.ctx, location=loc)

    op = c["op"]
    p = P(c["rel"])
    if op in ("exists", "is_file", "is_dir", "is_symlink"):
        return await getattr(p, op)()
    if op == "mkdir":
        return await p.mkdir(mode=c["mode"], parents=c["parents"], exist_ok=c["exist_ok"])
    if op == "write_text":
        return await p.write_text(c["data"])
    if op == "read_text":
        return await (p.read_text() if c["n"] < 0 else p.read_text(n=c["n"]))
    if op == "size":
        return await p.size()
    if op == "usage":
        from streamflow.core.scheduling import Hardware, Storage
        from streamflow.data.remotepath import get_storage_usages

        hw = Hardware(cores=1.0, memory=1.0, storage={"k": Storage(mount_point=root, size=1.0, paths={root if r == "" else f"{root}/{r}" for r in c["rels"]})})
        return dict(await get_storage_usages(env.ctx, loc, hw))
    if op == "checksum":
        return await p.checksum()
    if op == "resolve":
        r = await p.resolve()
        return None if r is None else _rel(r, root)
    if op == "rmtree":
        return await p.rmtree()
    if op == "chmod":
        return await p.chmod(c["mode"])
    if op == "symlink_to":
        return await p.symlink_to(c["target"].replace("<ROOT>", root))
    if op == "hardlink_to":
        return await p.hardlink_to(c["target"].replace("<ROOT>", root))
    if op == "glob":
        return sorted([_rel(q, root) async for q in p.glob(c["pattern"])])
    if op == "walk":
        out = []
        async for d, ds, fs_ in p.walk(top_down=c["top_down"], follow_symlinks=c["follow"]):
            out.append([_rel(d, root), sorted(ds), sorted(fs_)])
            if not c["all"] or len(out) > c["bound"]:
                break
        return out
    raise HarnessError(f"unknown op {op}")


def _ref(root: str, c: dict):
    def A(rel: str):
        return root if rel == "" else f"{root}/{rel}"

    op = c["op"]
    p = A(c["rel"])
    if op in ("exists", "is_file", "is_dir", "is_symlink", "size", "checksum", "rmtree"):
        return getattr(_Ref, op)(p)
    if op == "usage":
        return {"k": sum(_Ref.size(A(r)) for r in c["rels"])}
    if op == "mkdir":
        return _Ref.mkdir(p, c["mode"], c["parents"], c["exist_ok"])
    if op == "write_text":
        return _Ref.write_text(p, c["data"])
    if op == "read_text":
        return _Ref.read_text(p, c["n"])
    if op == "resolve":
        r = _Ref.resolve(p)
        return None if r is None else _rel(r, root)
    if op == "chmod":
        return _Ref.chmod(p, c["mode"])
    if op == "symlink_to":
        return _Ref.symlink_to(p, c["target"].replace("<ROOT>", root))
    if op == "hardlink_to":
        return _Ref.hardlink_to(p, c["target"].replace("<ROOT>", root))
    if op == "glob":
        return sorted(_rel(q, root) for q in _Ref.glob(p, c["pattern"]))
    if op == "walk":
        out = [[_rel(d, root), sorted(ds), sorted(fs_)] for d, ds, fs_ in _Ref.walk(p, c["top_down"], c["follow"])]
        return out if c["all"] else out[:1]
    raise HarnessError(f"unknown op {op}")


# =================================================================================================
# interpretation of an operation record against the reference tree


def _safe_target(rel: str) -> bool:
    """Only the final component may contain shell syntax."""
    return all(inert(part) for part in rel.split("/")[:-1])


def _safe_parent(rel: str) -> bool:
    return rel == "" or all(inert(part) for part in rel.split("/"))


def _pick(t: dict, root: str, entries, *, allow_root: bool) -> str | None:
    """Concrete relpath for target record ``t`` (None = nothing eligible)."""
    if t["n"] is None:
        want = t.get("want", "any")
        cands = [r for r, _ in entries if _safe_target(r)]
        if want == "file":
            pref = [r for r in cands if os.path.isfile(os.path.join(root, r))]
        elif want == "dir":
            pref = [r for r in cands if os.path.isdir(os.path.join(root, r))]
            if allow_root:
                pref = [""] + pref
        else:
            pref = []
        if want == "any" and allow_root:
            cands = [""] + cands
        cands = pref or cands
        if not cands:
            return "" if allow_root else None
        return cands[t["p"] % len(cands)]
    parents = [""] + [r for r, _ in entries if _safe_parent(r) and os.path.isdir(os.path.join(root, r))]
    parent = parents[t["p"] % len(parents)]
    return f"{parent}/{t['n']}" if parent else t["n"]


def _deref_dir_ok(root: str, target_rel: str, link_parent_rel: str) -> bool:
    """May a new link in ``link_parent_rel`` point at ``target_rel`` without creating a cycle in the
    dereferenced tree? (conservative: a directory target must not contain links to directories and must not
    contain / equal / lie above the link's own directory)"""
    tp = os.path.join(root, target_rel) if target_rel else root
    if not os.path.isdir(tp):
        return True
    real_t = os.path.realpath(tp)
    real_p = os.path.realpath(os.path.join(root, link_parent_rel) if link_parent_rel else root)
    if real_p == real_t or real_p.startswith(real_t + "/") or real_t.startswith(real_p + "/"):
        return False
    for dirpath, dirnames, filenames in os.walk(real_t):
        for n in dirnames + filenames:
            q = os.path.join(dirpath, n)
            if os.path.islink(q) and os.path.isdir(q):
                return False
    return True


def _cyclic(root: str) -> bool:
    """Does following links below ``root`` ever revisit a directory (or leave the tree)?"""
    seen: set[str] = set()

    def visit(p: str, depth: int) -> bool:
        rp = os.path.realpath(p)
        if depth > 30:
            return True
        for name in os.listdir(rp) if os.path.isdir(rp) else []:
            q = os.path.join(rp, name)
            if os.path.isdir(q):
                if os.path.islink(q):
                    t = os.path.realpath(q)
                    if t in seen or p.startswith(t):
                        return True
                    seen.add(t)
                if visit(q, depth + 1):
                    return True
        return False

    try:
        return visit(root, 0)
    except OSError:
        return True


def _pattern(kind: str, i: int, root: str, base_rel: str) -> str:
    base = os.path.join(root, base_rel) if base_rel else root
    try:
        kids = sorted(os.listdir(base))
    except OSError:
        kids = []
    kid = kids[i % len(kids)] if kids else "a.txt"
    first = kid[0] if kid[0] in fs.PLAIN_CHARS and kid[0] not in ".-" else None
    if kind == "star":
        return "*"
    if kind == "sub":
        return "*/*"
    if kind == "ext":
        tail = kid.rsplit(".", 1)[-1] if "." in kid[1:] else kid[-1]
        return "*" + ("." if "." in kid[1:] else "") + tail if inert(tail) else "*"
    if kind == "prefix":
        return first + "*" if first else "*"
    if kind == "q":
        return "?" * min(len(kid), 3) + "*"
    if kind == "cls":
        return f"[{first}]*" if first else "[a-z]*"
    if kind == "literal":
        return kid
    if kind == "literal-sub":
        sub = os.path.join(base, kid)
        if inert(kid) and os.path.isdir(sub):
            try:
                g = sorted(os.listdir(sub))
            except OSError:
                g = []
            if g:
                return f"{kid}/{g[i % len(g)]}"
        return kid
    if kind == "dstar":
        return "**"
    if kind == "neg":
        return f"[!{first}]*" if first else "[!a]*"
    if kind == "nomatch":
        return "zz-nomatch*"
    if kind == "dot":
        return ".*"
    if kind == "star-slash":
        return "*/"
    return "*"


def _concretise(rec: dict, root: str, entries) -> dict | None:
    """Turn an operation record into concrete arguments (paths relative to the tree root)."""
    op = rec["op"]
    t = rec["t"]
    mutating_target = op in ("rmtree", "chmod", "write_text", "symlink_to", "hardlink_to", "mkdir")
    rel = _pick(t, root, entries, allow_root=not mutating_target)
    if rel is None:
        return None
    c: dict = {"op": op, "rel": rel, "names": [rel.rsplit("/", 1)[-1]] if rel else []}
    if op == "mkdir":
        n2 = rec.get("n2")
        if n2 and inert(rel.rsplit("/", 1)[-1]):
            c["rel"] = rel = f"{rel}/{n2}"
        c.update(mode=rec["mode"], parents=rec["parents"], exist_ok=rec["exist_ok"])
    elif op == "write_text":
        c["data"] = make_content(rec["content"])
    elif op == "read_text":
        c["n"] = rec["n"]
    elif op == "chmod":
        mode = FILE_MODES[rec["mode"] % len(FILE_MODES)]
        if os.path.isdir(os.path.join(root, rel)):
            mode |= 0o700
        c["mode"] = mode
    elif op == "glob":
        c["pattern"] = _pattern(rec["pat"], rec["i"], root, rel)
        c["pat_kind"] = rec["pat"]
        if not _safe_target(c["pattern"]):
            c["pattern"] = "*"
        c["pattern_literal"] = rec["pat"] in ("literal", "literal-sub")
    elif op == "walk":
        c.update(top_down=rec["top_down"], follow=rec["follow"], all=rec["all"])
    elif op == "usage":
        rels = [rel]
        for t in rec.get("more", []):
            r = _pick(t, root, entries, allow_root=False)
            if r is not None and r not in rels:
                rels.append(r)
        # symlinks are counted differently by design of the two implementations (known finding of size()):
        # storage usage is only compared over link-free paths
        if any(has_link_below(os.path.join(root, r) if r else root) for r in rels):
            return None
        c["rels"] = rels
        c["names"] = [r.rsplit("/", 1)[-1] for r in rels if r]
    elif op in ("symlink_to", "hardlink_to"):
        to = _pick(rec["to"], root, entries, allow_root=False)
        if to is None:
            to = "missing-target"
        parent = rel.rsplit("/", 1)[0] if "/" in rel else ""
        if op == "symlink_to" and not _deref_dir_ok(root, to, parent):
            to = f"{to}.nope" if inert(to.rsplit('/', 1)[-1]) else "missing-target"
        c["to"] = to
        c["names"] = c["names"] + [to.rsplit("/", 1)[-1]]
        if op == "symlink_to" and rec.get("rel"):
            text = os.path.relpath(os.path.join("/R", to), os.path.join("/R", parent))
            # a relative text with ".." is only used when nothing in it is shell syntax
            if ".." in text.split("/") and not all(inert(x) or x == ".." for x in text.split("/")):
                text = f"<ROOT>/{to}"
            c["target"] = text
        else:
            c["target"] = f"<ROOT>/{to}"
    return c


# =================================================================================================
# diagnosis: (operation, what was observed) -> stable kind

UNQUOTED = {"mkdir", "rmtree", "read_text", "chmod", "symlink_to", "hardlink_to", "write_text"}


COARSE = {"newline": "shell-syntax", "quote": "shell-syntax", "dollar": "shell-syntax", "metachar": "shell-syntax",
          "backslash": "shell-syntax", "space": "space", "glob": "glob"}


def _first_trigger(c: dict, table=triggers) -> str | None:
    """Coarse trigger class of the names pasted into the command: shell-syntax > space > glob."""
    found = {COARSE[t] for n in c["names"] for t in table(n)}
    for k in ("shell-syntax", "space", "glob"):
        if k in found:
            return k
    return None


def diagnose(c: dict, ref, got, sdiff: dict, pre: dict, remote: bool = True) -> str:
    """``ref`` / ``got`` = ("ok", value) | ("err", type name) | ("hang", None) | ("crash", type name)."""
    op = c["op"]
    if not remote:  # LocalStreamFlowPath involves no shell: nothing is explained by shell syntax
        what = "outcome" if ref[0] != got[0] else "value" if ref[0] == "ok" and ref[1] != got[1] else "state"
        return f"disagrees-with-reference-{what}"
    trig = _first_trigger(c)
    if op == "glob" and c.get("pattern_literal"):
        # a literal pattern (a file name used as a CWL glob) is pasted unquoted behind the quoted directory
        ptrig = _first_trigger({"names": [c["pattern"].replace("*", "").replace("?", "").replace("[", "").replace("]", "")]})
        if ptrig and (ref != got or sdiff):
            return ("literal-pattern-hangs-unquoted-" if got[0] == "hang" else "literal-pattern-unquoted-") + ptrig
    if op == "size" and got[0] == "hang" and _first_trigger(c, dq_triggers):
        return "hangs-double-quoted-shell-syntax"
    if got[0] == "hang":
        return f"hangs-unquoted-{trig}" if trig else "hangs"
    if got[0] == "runaway":
        return "never-descends" if op == "walk" else "runaway"
    if got[0] == "crash":
        if op == "walk" and got[1] == "ValueError" and (pre.get("newline_below") or "\n" in c["rel"]):
            return "strips-blank-or-splits-newline-names"
        return f"crash-{got[1]}" + (f"-{trig}" if trig else "")
    both_ok = ref[0] == "ok" and got[0] == "ok"
    same_value = both_ok and ref[1] == got[1]
    same_outcome = ref[0] == got[0]

    # ---- explanations that do not involve shell syntax in names (exact conditions) ----
    if op == "mkdir":
        if both_ok and len(sdiff) == 1 and all(v and v[0] == "d" and len(v) == 2 for v in next(iter(sdiff.values()))):
            return "mode-not-masked-by-umask"
        mode_only = all(a and b and a[0] == b[0] == "d" for a, b in sdiff.values())
        if ref[0] == "err" and got[0] == "ok" and not c["parents"] and c["exist_ok"] and pre["parent_missing"]:
            return "exist-ok-creates-parents"
        if ref[0] == "err" and got[0] == "ok" and c["parents"] and not c["exist_ok"] and pre["isdir"] and mode_only:
            return "parents-implies-exist-ok"
    if op == "read_text" and both_ok and not same_value and not sdiff:
        if got[1] == ref[1].strip():
            return "strips-whitespace"
        if c["n"] >= 0 and any(ord(ch) > 127 for ch in pre.get("content", "")):
            return "n-counts-bytes-not-characters"
    if op == "write_text" and ref[0] == "err" and got[0] == "ok" and not sdiff:
        return "failure-not-reported"
    if op == "checksum" and both_ok and ref[1] is None and got[1] == "" and not sdiff:
        return "non-file-returns-empty-string"
    if op == "checksum" and both_ok and isinstance(ref[1], str) and got[1] == "\\" + ref[1] and not sdiff:
        return "sha1sum-escape-marker-kept"
    if op == "size" and both_ok and not same_value and not sdiff and pre["links_below"]:
        return "symlinks-followed-or-counted"
    if op == "rmtree" and same_outcome and pre["kind"] == "l" and pre["dangling"] and set(sdiff) <= {c["rel"]}:
        return "dangling-symlink-removed-only-remotely"
    if op in ("symlink_to", "hardlink_to") and pre["kind"] is not None and ref[0] == "err" and got[0] == "ok":
        return "replaces-existing-destination"
    if op == "walk" and both_ok and not sdiff:
        k = _diagnose_walk(c, ref[1], got[1], pre)
        if k:
            return k
    if op == "glob" and both_ok and not sdiff:
        k = _diagnose_glob(c, ref[1], got[1], pre)
        if k:
            return k
    if op == "resolve" and both_ok and not sdiff and isinstance(ref[1], str) and isinstance(got[1], str) and ref[1].strip() != ref[1] and got[1] in (ref[1].strip(), ref[1].strip().rstrip("/")):
        return "strips-whitespace"

    # ---- shell syntax in a name pasted into an unquoted (or double-quoted) command ----
    if op in UNQUOTED and trig:
        return f"unquoted-{trig}"
    if op in ("symlink_to", "hardlink_to") and c["target"].startswith("-"):
        return "target-leading-dash-parsed-as-option"
    if op == "size":
        t = _first_trigger(c, dq_triggers)
        if t:
            return "double-quoted-shell-syntax"
    what = "outcome" if not same_outcome else "value" if not same_value else "state"
    return f"unexplained-{what}" + (f"-{trig}" if trig else "")


def _diagnose_walk(c, ref, got, pre) -> str | None:
    """Explain every difference between the two sets of (directory, dirnames, filenames), directory by
    directory, from facts about the reference tree; None if anything stays unexplained."""
    root = pre["root"]
    top = "<ROOT>" + (f"/{c['rel']}" if c["rel"] else "")
    if c["all"] and len(got) > 1 and all(t[0] == top for t in got) and got[0] == got[1]:
        return "never-descends"
    if not ref:
        return None

    def facts(d: str):
        p = root + d[len("<ROOT>"):]
        kinds, dangling, loop = {}, {}, False
        try:
            ns = os.listdir(p)
        except OSError:
            ns = []
        for n in ns:
            q = os.path.join(p, n)
            kinds[n] = "l" if os.path.islink(q) else "d" if os.path.isdir(q) else "f"
            dangling[n] = kinds[n] == "l" and not os.path.exists(q)
            loop = loop or (kinds[n] == "l" and _is_loop(q))
        return kinds, dangling, loop

    def blanky(n: str) -> bool:
        return n != n.strip() or "\n" in n

    rd = {t[0]: t for t in ref}
    gd = {t[0]: t for t in got}
    why: set[str] = set()
    if not c["follow"] and pre["kind"] == "l" and all(not t[1] and not t[2] for t in got):
        return "nofollow-symlinked-top-lists-nothing"
    for d, rt in rd.items():
        gt = gd.get(d)
        kinds, dangling, loop = facts(d)
        if gt is None:
            if c["follow"] and loop:
                why.add("looping-symlink-drops-whole-listing")  # `find -L` exits 1, the error is swallowed
                continue
            if not c["all"]:
                return None  # the single tuple compared is not the same directory
            # the directory was never visited: its name was mangled in the parent's listing, or the parent's
            # listing was dropped / never contained it (explained at the parent)
            if blanky(d.rsplit("/", 1)[-1]) or any(blanky(x) for x in d.split("/")):
                why.add("strips-blank-or-splits-newline-names")
                continue
            parent = d.rsplit("/", 1)[0]
            if parent in rd and parent not in gd or parent in gd and d.rsplit("/", 1)[-1] not in gd[parent][1]:
                continue  # follows from the parent's (separately explained) difference
            return None
        r_all, g_all = set(rt[1]) | set(rt[2]), set(gt[1]) | set(gt[2])
        missing, extra = r_all - g_all, g_all - r_all
        moved = (set(rt[1]) ^ set(gt[1])) - missing - extra
        if moved:
            return None
        if c["follow"] and loop and not g_all and r_all:
            why.add("looping-symlink-drops-whole-listing")
            continue
        for n in missing:
            if blanky(n):
                why.add("strips-blank-or-splits-newline-names")
            elif kinds.get(n) == "l" and not c["follow"]:
                why.add("nofollow-omits-symlinks")
            elif kinds.get(n) == "l" and c["follow"] and dangling.get(n):
                why.add("follow-omits-dangling-symlinks")
            else:
                return None
        if extra:
            if any(blanky(n) for n in r_all):
                why.add("strips-blank-or-splits-newline-names")
            else:
                return None
    for d in gd:
        if d not in rd:
            # a directory visited only remotely: a mangled name that happens to exist
            if "strips-blank-or-splits-newline-names" in why:
                continue
            return None
    for k in ("looping-symlink-drops-whole-listing", "follow-omits-dangling-symlinks", "nofollow-omits-symlinks",
              "strips-blank-or-splits-newline-names"):
        if k in why:
            return k
    return None


def _sim_glob_output(matches: list[str]) -> list[str]:
    """What the (fixed) remote implementation makes of the matches the shell prints one per line: the
    connector strips the captured output, str.splitlines() cuts at every line boundary, PurePath normalises."""
    import pathlib as _pl

    text = "\n".join(sorted(matches, key=lambda m: m.encode())).strip()
    return sorted(str(_pl.PurePosixPath(x)) for x in text.splitlines()) if text else []


def _diagnose_glob(c, ref, got, pre) -> str | None:
    pat = c["pattern"]
    top = "<ROOT>" + (f"/{c['rel']}" if c["rel"] else "")
    if any(ch in c["rel"] for ch in "*?["):
        return "local-expands-magic-in-base-path"
    if ref and not got and pre.get("first_match_dangling"):
        return "dangling-first-match-hides-all"
    if ref and _sim_glob_output(ref) == got:
        return "newline-or-edge-blank-in-match-mangled"
    if pat == ".*":
        # sh also expands ".*" to "." and ".." (normalised by PurePath to the directory and "<dir>/..")
        if _sim_glob_output(list(ref) + [top + "/.", top + "/.."]) == got:
            return "dot-star-matches-dot-and-dotdot"
    ws = [m for m in ref if any(ch in m for ch in " \t\n")]
    tokens = {y for m in ws for x in m.split() for y in (x, x.rstrip("/"))}
    clean = {m for m in ref if m not in ws}
    extras = [g for g in got if g not in clean and g not in tokens]
    missing = [m for m in clean if m not in got]
    if (extras or missing) and ("?" in pat or "[" in pat) and all(any(ord(ch) > 127 for ch in n.rsplit("/", 1)[-1]) for n in extras + missing):
        # sh (dash, busybox ash) matches `?` and bracket expressions against bytes, glob.glob against characters
        return "question-mark-matches-bytes-not-characters"
    if any(ch in pat for ch in "*?[") and got == [f"{top}/{pat}"] and got[0] not in ref:
        return "unmatched-pattern-taken-literally"
    if (ws or any(ch in c["rel"] for ch in " \t")) and not missing and all(g in clean or g in tokens or any(g in m.split() or g in [x.rstrip("/") for x in m.split()] for m in ref) for g in got):
        return "splits-on-whitespace"  # (fixed by e228d19: would be a regression)
    if pat.endswith("/"):
        return "trailing-slash-pattern"
    return None


# =================================================================================================
# the machine


_KNOWN: list[set[str]] = []


def _known_kinds() -> set[str]:
    """Kinds listed as known findings (read once per process; only used to choose *which* mismatch of a
    machine is reported first - every mismatch is reported as a violation either way)."""
    if not _KNOWN:
        try:
            from vf.runner import load_known

            _KNOWN.append({f["kind"] for f in load_known("C24")})
        except Exception:  # noqa: BLE001
            _KNOWN.append(set())
    return _KNOWN[0]


def _outcome(fn):
    try:
        return ("ok", fn())
    except (OSError, ValueError, UnicodeError) as e:
        return ("err", type(e).__name__)


async def _sut_outcome(env: _Env, driver: str, root: str, c: dict):
    from streamflow.core.exception import WorkflowExecutionException

    # a correct walk needs two listings per directory it yields; every other operation a handful of commands
    env.commands_left = 2 * c.get("bound", 20) + 4
    try:
        return ("ok", await _guard(env, _sut(env, driver, root, c), driver == "remote", c))
    except _Hang:
        return ("hang", None)
    except _Runaway:
        return ("runaway", None)
    except (WorkflowExecutionException, OSError) as e:
        return ("err", type(e).__name__)
    except HarnessError:
        raise
    except (ValueError, UnicodeError, TypeError, AttributeError, IndexError, KeyError) as e:
        return ("crash", type(e).__name__)


def _is_loop(path: str) -> bool:
    import errno

    try:
        os.stat(path)
    except OSError as e:
        return e.errno == errno.ELOOP
    return False


def _pre_state(root: str, c: dict) -> dict:
    """Facts about the reference tree *before* the operation that the diagnosis needs."""
    p = os.path.join(root, c["rel"]) if c["rel"] else root
    kind = None
    if os.path.lexists(p):
        kind = "l" if os.path.islink(p) else "d" if os.path.isdir(p) else "f"
    pre = {"root": root, "kind": kind, "isdir": os.path.isdir(p), "dangling": kind == "l" and not os.path.exists(p),
           "parent_missing": not os.path.isdir(os.path.dirname(p)), "links_below": False}
    op = c["op"]
    if op == "size":
        pre["links_below"] = has_link_below(p)
    if op == "read_text" and os.path.isfile(p):
        try:
            with open(p, encoding="utf-8") as fh:
                pre["content"] = fh.read(70000)
        except (OSError, UnicodeError):
            pre["content"] = ""
    if op == "walk":
        ck, cd = {}, {}
        if os.path.isdir(p):
            for n in os.listdir(p):
                q = os.path.join(p, n)
                ck[n] = "l" if os.path.islink(q) else "d" if os.path.isdir(q) else "f"
                cd[n] = ck[n] == "l" and not os.path.exists(q)
        pre["child_kinds"], pre["child_dangling"] = ck, cd
        pre["child_loop"] = any(_is_loop(os.path.join(p, n)) for n, k in ck.items() if k == "l")
        pre["newline_below"] = any("\n" in r for r, _ in listing(p)) if os.path.isdir(p) else False
    if op == "glob":
        ms = sorted(_glob.glob(os.path.join(p, c["pattern"])), key=lambda s: s.encode())
        pre["first_match_dangling"] = bool(ms) and os.path.islink(ms[0]) and not os.path.exists(ms[0])
    return pre


async def _machine(case: dict, rec, driver: str) -> None:
    env = _env()
    remote = driver == "remote"
    case_dir = env.box.new_case_dir()
    L, S = os.path.join(case_dir, "l"), os.path.join(case_dir, "r" if remote else "m")
    mismatches: list[tuple[str, str]] = []
    try:
        desc = case["tree"]
        fs.materialize(desc, L)
        os.chmod(L, 0o755)
        _add_hard_links(L, desc.get("hard", []))
        if remote:
            env.conn.transferBufferSize = int(case.get("buf", 65536))
        rec.label(f"buf:{case.get('buf', 65536)}")
        clone(L, S)
        if snap(L) != snap(S):
            raise HarnessError("clone() did not reproduce the tree")
        alpha = case["alpha"]
        rec.label(f"alpha:{alpha}", f"driver:{driver}")
        mutated = False
        mut_then_query = False
        hostile_touch = False
        executed = 0
        for i, orec in enumerate(case["ops"]):
            entries = listing(L)
            c = _concretise(orec, L, entries)
            if c is None:
                rec.label("skip:no-target")
                continue
            op = c["op"]
            if op in ("walk", "size") and _cyclic(L):
                rec.label("skip:cyclic")
                continue
            if op == "walk":
                # structural bound for the remote walk: it may yield one tuple per directory of the reference walk
                try:
                    c["bound"] = len(_Ref.walk(os.path.join(L, c["rel"]) if c["rel"] else L, True, c["follow"])) + 1
                except OSError:
                    c["bound"] = 2
            if alpha == "plain" and not all(inert(n) for n in c["names"]):
                raise HarnessError(f"plain machine produced a non-plain name: {c['names']!r}")
            pre = _pre_state(L, c)
            before = snap(L)
            ref = _outcome(lambda: _ref(L, c))
            after = snap(L)
            if _DEBUG > 1:
                print(f"[c24] step {i} {driver} {c!r}", flush=True)
            got = await _sut_outcome(env, driver, S, c)
            if _DEBUG > 1:
                print(f"[c24]   ref={_short(ref, 200)} got={_short(got, 200)}", flush=True)
            hostile = any(name_class(n) not in ("plain", "inert-punct", "unicode", "dash") for n in c["names"])
            # only an unquoted "&" can leave a command running behind the shell's back (everything else is waited for)
            if remote and (got[0] in ("hang", "runaway") or any("&" in n for n in c["names"] + [c.get("pattern", "")])):
                await _quiesce(env)
            sdiff = snap_diff(after, snap(S))
            executed += 1
            # ---- classification ----
            rec.label(f"op:{op}", f"ref:{ref[0]}")
            for n in c["names"]:
                rec.label(f"name:{name_class(n)}")
            if op == "read_text" and ref[0] == "ok" and ref[1] != ref[1].strip():
                rec.label("content:whitespace-sensitive")
                hostile_touch = True
            if op == "walk":
                rec.label("walk:all" if c["all"] else "walk:first", "walk:follow" if c["follow"] else "walk:nofollow")
            if op == "glob":
                rec.label(f"glob:{c['pat_kind']}", "glob:match" if ref[0] == "ok" and ref[1] else "glob:nomatch")
            if op == "mkdir":
                rec.label("mkdir:caller-domain" if c["mode"] == 0o777 and c["exist_ok"] else "mkdir:api-domain")
            if any(name_class(n) not in ("plain",) for n in c["names"]):
                hostile_touch = True
            changed = before != after
            if changed:
                mutated = True
            elif mutated and op in QUERY_OPS + ["read_text", "glob", "walk", "usage"]:
                mut_then_query = True
            # ---- verdict for this step ----
            strays = env.box.strays() if remote else []
            ok = ref[0] == got[0] and (ref[0] != "ok" or ref[1] == got[1]) and not sdiff and not strays
            if not ok:
                kind = f"C24:{'local:' if not remote else ''}{op}:{diagnose(c, ref, got, sdiff, pre, remote)}"
                detail = (f"step {i}: {op} {c!r}\n reference: {_short(ref)}\n {driver}:    {_short(got)}\n"
                          f" tree differences (reference, {driver}): {_short(sdiff)}\n stray files in the shell's cwd/home: {strays}")
                mismatches.append((kind, detail))
                if _DEBUG:
                    print(f"[c24] MISMATCH {kind}\n{detail}", flush=True)
                    if os.environ.get("C24_DUMP") and os.environ["C24_DUMP"] in kind:
                        import json

                        print("[c24] CASE " + json.dumps(case), flush=True)
                rec.label(f"mismatch:{kind.split(':', 1)[1]}")
                if remote:
                    env.box.scrub()
                clone(L, S)
        rec.label(f"executed:{min(executed, 15) // 5 * 5}+")
        rec.nontrivial(executed > 0 and (hostile_touch or mut_then_query))
    finally:
        if remote:
            env.box.scrub()
        from vf.confine_c24 import _chmod_tree

        _chmod_tree(case_dir)
        shutil.rmtree(case_dir, ignore_errors=True)
    if mismatches:
        known = _known_kinds()
        first_new = next((m for m in mismatches if m[0] not in known), mismatches[0])
        others = sorted({k for k, _ in mismatches if k != first_new[0]})
        raise Violation(first_new[0], first_new[1] + (f"\n other mismatch kinds in this machine: {others}" if others else ""))


def _short(x, limit: int = 700) -> str:
    s = repr(x)
    return s if len(s) <= limit else s[:limit] + "…"


def _run(case: dict, rec, driver: str) -> None:
    env = _env()
    try:
        env.loop.run_until_complete(asyncio.wait_for(_machine(case, rec, driver), 900))
    except asyncio.TimeoutError as e:
        raise HarnessError("machine exceeded the 900 s safety net (inconclusive)") from e


@prop.given("remote", _tier_strategy, quick=160, thorough=6000, shrink=False, setup=_setup, teardown=_teardown)
def remote(case, rec):
    _run(case, rec, "remote")


@prop.given("local", _tier_strategy, quick=120, thorough=6000, shrink=False, setup=_setup, teardown=_teardown)
def local(case, rec):
    _run(case, rec, "local")
