"""C02 Combinators emit exactly the right combinations, whatever the arrival order.

Sub-checks
* ``direct``      a real ``CombinatorStep`` (Dot / Cart / the two nested shapes the CWL translator builds) fed
                  through its input ports in two drawn total arrival orders (``feed`` on the deterministic loop,
                  terminations interleaved wherever a real producer could put them); oracle = the plain-Python
                  reference model below + the metamorphic relation between the two orders.
* ``engine``      real ``ScatterStep`` producers upstream of the combinator step, run by ``StreamFlowExecutor``
                  under a drawn chaos schedule (validates that the tag streams of the direct tier are the ones
                  real producers emit, R1a).
* ``permutations-exhaustive``  every arrival permutation of every stream assignment from a small tag universe
                  (<= 3 ports, <= 3 tokens per port, total tokens capped per tier), driven through
                  ``Combinator.combine`` directly.
"""
from __future__ import annotations

import itertools
from collections import Counter

from hypothesis import strategies as st

from vf.core import HarnessError, Prop, Violation

prop = Prop(
    "C02",
    level="exploration",
    technique=(
        "Hypothesis PBT of a real CombinatorStep on a deterministic loop against an independent reference model of "
        "dot/cartesian/nested combination, metamorphic relation between two arrival permutations, plus bounded-exhaustive "
        "enumeration of all permutations over a small tag universe"
    ),
    rule=(
        "combinator trees Dot(items), Cart(items, depth=1), Dot[Cart(..), r..], Dot[Dot(..), r..] with 1..3 leaves per "
        "combinator; per-port streams of 0..4(6) tokens: antichains of one depth (1..3) for dot products (parent/child "
        "mixes across ports = broadcast), T.i for 1..2 groups T of equal depth for cartesian/scattered leaves, T or a "
        "parent of T on residual ports; arrival = a drawn total order of all tokens and terminations (a port's "
        "termination after its own tokens). Non-trivial = >= 2 leaf ports, >= 1 expected combination and a measured "
        "arrival order of the data tokens that is not the canonical port-by-port order; distinct by the whole case. "
        "Engine tier: list tokens through real ScatterSteps into the combinator step under a drawn chaos schedule, "
        "non-trivial = >= 2 leaf ports and >= 2 expected combinations. "
        "Enumerated: every arrival permutation of every assignment of streams (<= 3 tokens per port, <= 3 ports, tags from a "
        "universe containing 0.1 / 0.10 siblings and 3 depths) to Dot(2..3), Cart(2..3), Dot[Cart(a,b),r], Dot[Dot(a,b),r] "
        "with at most 5 (quick) / 7 (thorough) tokens in total."
    ),
    level_text=(
        "Random search over trees, streams and arrival orders, exhaustive over all permutations inside the small universe; "
        "the oracle is a reference model that shares no code with StreamFlow, compared as multisets in both directions."
    ),
    level_note=(
        "CartesianProductCombinator(depth >= 2) is never built by the translator and is outside the generated domain. "
        "Per-port tags are unique and of one depth (what scatter steps and tag-preserving steps emit); streams that put "
        "comparable tags on one port are not generated."
    ),
    assumptions=[
        "termination tokens are the last tokens a producer puts on a port (R1a)",
        "tags on one port are pairwise different and of one depth; cartesian leaves carry T.i for groups T of equal depth",
    ],
)
prop.engine = "detloop"

# ------------------------------------------------------------------------------------------------
# reference model (plain Python, no StreamFlow code)


def comps(tag: str) -> list[str]:
    return tag.split(".")


def is_prefix(p: str, t: str) -> bool:
    a, b = comps(p), comps(t)
    return b[: len(a)] == a


def leaves(tree) -> list[str]:
    out: list[str] = []
    for ch in tree[1:]:
        out.extend([ch] if isinstance(ch, str) else leaves(ch))
    return out


def val(port: str, tag: str) -> str:
    return f"{port}@{tag}"


def model(tree, streams, stats: dict | None = None) -> list[tuple[str, dict]]:
    """list of (tag, {port: (source tag)}) combinations the tree must emit for these per-port tag streams"""
    if isinstance(tree, str):
        tags = streams[tree]
        if len(set(tags)) != len(tags):
            raise HarnessError(f"generator produced duplicate tags on port {tree}: {tags}")
        return [(t, {tree: t}) for t in tags]
    kind, children = tree[0], [model(ch, streams, stats) for ch in tree[1:]]
    out: list[tuple[str, dict]] = []
    if kind == "dot":
        union = []
        for ch in children:
            for t, _ in ch:
                if t not in union:
                    union.append(t)
        for T in union:
            combo: dict = {}
            picked: list[str] = []
            for ch in children:
                m = [c for c in ch if is_prefix(c[0], T)]
                if len(m) > 1:
                    raise HarnessError(f"generator produced comparable tags in one stream: {[c[0] for c in m]}")
                if not m:
                    break
                picked.append(m[0][0])
                combo.update(m[0][1])
            else:
                out.append((T, combo))
                if stats is not None and any(t != T for t in picked):
                    stats["broadcast"] = stats.get("broadcast", 0) + 1
        return out
    if kind == "cart":
        groups = []
        for ch in children:
            for t, _ in ch:
                g = ".".join(comps(t)[:-1])
                if g not in groups:
                    groups.append(g)
        if len({len(comps(g)) for g in groups}) > 1:
            raise HarnessError(f"cartesian groups of different depth: {groups}")
        for g in groups:
            per = [[c for c in ch if ".".join(comps(c[0])[:-1]) == g] for ch in children]
            for tup in itertools.product(*per):
                combo = {}
                for c in tup:
                    combo.update(c[1])
                out.append((".".join([g, *[comps(c[0])[-1] for c in tup]]), combo))
        return out
    raise HarnessError(f"unknown combinator kind {kind}")


def canon(combos) -> Counter:
    """multiset of (tag, ((port, value), ...))"""
    return Counter((t, tuple(sorted((p, val(p, src)) for p, src in c.items()))) for t, c in combos)


def compare(got: Counter, exp: Counter, where: str) -> None:
    if got == exp:
        return
    missing, extra = exp - got, got - exp
    show = f"{where}: missing {sorted(missing.elements())[:4]} extra {sorted(extra.elements())[:4]} (expected {sum(exp.values())}, got {sum(got.values())})"
    if missing and extra:
        raise Violation("C02:wrong-combination", show)
    if missing:
        raise Violation("C02:missing-combination", show)
    if all(e in exp for e in extra):
        raise Violation("C02:duplicate-combination", show)
    raise Violation("C02:extra-combination", show)


def build_combinator(tree, wf, name: str):
    from streamflow.workflow.combinator import CartesianProductCombinator, DotProductCombinator

    c = (DotProductCombinator if tree[0] == "dot" else CartesianProductCombinator)(name=name, workflow=wf)
    for i, ch in enumerate(tree[1:]):
        if isinstance(ch, str):
            c.add_item(ch)
        else:
            inner = build_combinator(ch, wf, f"{name}-inner{i}")
            c.add_combinator(inner, inner.get_items(recursive=True))
    return c


# ------------------------------------------------------------------------------------------------
# generators

COMP = st.sampled_from([0, 0, 1, 1, 2, 10, 11])
PAIR = st.tuples(COMP, COMP)
RANKS = st.one_of(
    st.just([]),
    st.lists(st.integers(0, 40), min_size=3, max_size=14),
    *[st.lists(st.integers(0, 40), min_size=5, max_size=14, unique=True)] * 5,
)
TERMS = st.one_of(st.just([]), st.just([]), st.lists(st.integers(0, 12), min_size=1, max_size=4))
ORDER = st.fixed_dictionaries({"ranks": RANKS, "terms": TERMS})


def _dedupe(xs):
    out = []
    for x in xs:
        if x not in out:
            out.append(x)
    return out


def _tag(cs) -> str:
    return ".".join(["0", *[str(c) for c in cs]])


# antichain of one depth per port, correlated through a shared universe of deep tags so that ports meet
_port_desc = st.fixed_dictionaries(
    {
        "d": st.sampled_from([1, 2, 2, 3, 3]),
        "pick": st.one_of(st.lists(st.integers(0, 3), max_size=4), st.lists(st.integers(0, 3), min_size=2, max_size=4), st.just([0, 1, 2, 3])),
        "extra": st.lists(PAIR, max_size=1),
    }
)


def _antichain(universe, desc):
    d = desc["d"]
    tags = [_tag(universe[i % len(universe)][: d - 1]) for i in desc["pick"]] + [_tag(e[: d - 1]) for e in desc["extra"]]
    return _dedupe(tags)[:4]


GROUPS = st.sampled_from([["0"], ["0"], ["0.0", "0.1"], ["0.3", "0.11"], ["0.1", "0.10"], ["0.2"], ["0.0.2", "0.1.0"]])
IDX = st.one_of(
    st.integers(0, 3).map(lambda n: list(range(n))),
    st.integers(0, 3).map(lambda n: list(range(n))),
    st.sampled_from([[9, 10, 11], [0, 10], [1], [2, 11], [0, 1, 2, 3]]),
)


def _scattered(groups, idxs):
    """what scatter steps emit: T.i for each group T"""
    return [f"{g}.{i}" for g, ix in zip(groups, idxs) for i in ix]


def _residual(groups, desc):
    if desc["mode"] == "parent":
        par = ".".join(comps(groups[0])[:-1]) or "0"
        if all(is_prefix(par, g) for g in groups):
            return [par] if desc["mask"][0] else []
    return [g for g, m in zip(groups, desc["mask"]) if m]


_res_desc = st.fixed_dictionaries(
    {"mode": st.sampled_from(["same", "same", "parent"]), "mask": st.lists(st.sampled_from([True] * 7 + [False]), min_size=2, max_size=2)}
)


@st.composite
def direct_case(draw):
    shape = draw(st.sampled_from(["dot", "dot", "dot-scatter", "cart", "cart", "dot-cart", "dot-cart", "dot-dot", "dot-dot-generic"]))
    names = ["a", "b", "c"]
    streams: dict[str, list[str]] = {}
    if shape in ("dot", "dot-dot-generic"):
        universe = draw(st.lists(PAIR, min_size=1, max_size=4))
        if shape == "dot":
            ports = names[: draw(st.sampled_from([1, 2, 2, 2, 3, 3]))]
            tree = ["dot", *ports]
        else:
            inner = names[: draw(st.sampled_from([2, 2, 3]))]
            res = ["r", "s"][: draw(st.sampled_from([1, 1, 2]))]
            ports = inner + res
            tree = ["dot", ["dot", *inner], *res]
        for p in ports:
            streams[p] = _antichain(universe, draw(_port_desc))
    else:
        groups = draw(GROUPS)
        n_in = draw(st.sampled_from([2, 2, 3])) if shape != "dot-scatter" else 1
        inner = names[:n_in]
        base = [draw(IDX) for _ in groups]
        for p in inner:
            # dot products of scattered ports: mostly lists of equal length (what CWL requires), sometimes not
            same = shape == "dot-dot" and draw(st.sampled_from([True, True, False]))
            streams[p] = _scattered(groups, base if same else [draw(IDX) for _ in groups])
        if shape == "cart":
            tree = ["cart", *inner]
        else:
            res = ["r", "s"][: draw(st.sampled_from([1, 1, 2]))]
            for p in res:
                streams[p] = _residual(groups, draw(_res_desc))
            if shape == "dot-scatter":
                tree = ["dot", *inner, *res]
            else:
                tree = ["dot", ["cart" if shape == "dot-cart" else "dot", *inner], *res]
    return {"shape": shape, "tree": tree, "streams": streams, "orders": [draw(ORDER), draw(ORDER)]}


def arrival(tree, streams, order) -> list[list]:
    """total order of events [port, tag] / [port, None] (= termination) described by ``order``"""
    ports = leaves(tree)
    data = [[p, t] for p in ports for t in streams[p]]
    ranks = order["ranks"]
    if ranks:
        idx = sorted(range(len(data)), key=lambda i: (ranks[i % len(ranks)], i))
        data = [data[i] for i in idx]
    terms = order["terms"]
    slots: dict[int, list] = {}
    for j, p in enumerate(ports):
        own = [i for i, e in enumerate(data) if e[0] == p]
        lo = own[-1] + 1 if own else 0
        pos = lo + (terms[j % len(terms)] % (len(data) - lo + 1)) if terms else len(data)
        slots.setdefault(pos, []).append([p, None])
    events = []
    for s in range(len(data) + 1):
        events.extend(slots.get(s, []))
        if s < len(data):
            events.append(data[s])
    return events


def read_outputs(ports, out_ports, where: str) -> Counter:
    """combinations on the output ports (k-th token of every port = k-th emitted combination)"""
    from streamflow.workflow.token import TerminationToken

    cols = {}
    for p in ports:
        hist = out_ports[p].token_list
        if not hist or not isinstance(hist[-1], TerminationToken) or sum(isinstance(t, TerminationToken) for t in hist) != 1:
            raise Violation("C02:termination", f"{where}: output port {p} history {[type(t).__name__ for t in hist]}")
        cols[p] = hist[:-1]
    if len({len(c) for c in cols.values()}) > 1:
        raise Violation("C02:ragged-output", f"{where}: output ports carry {[(p, len(c)) for p, c in cols.items()]} tokens")
    got: Counter = Counter()
    for k in range(len(next(iter(cols.values())))):
        tags = {cols[p][k].tag for p in ports}
        if len(tags) != 1:
            raise Violation("C02:combination-tags-differ", f"{where}: combination {k} carries tags {sorted(tags)}")
        got[(tags.pop(), tuple(sorted((p, cols[p][k].value) for p in ports)))] += 1
    return got


def classify(rec, case, exp, orders) -> None:
    tree, streams = case["tree"], case["streams"]
    ports = leaves(tree)
    rec.label(f"shape={case['shape']}")
    if any(not streams[p] for p in ports):
        rec.label("empty-port")
    rec.label("expect-nothing" if not exp else "expect>=4" if len(exp) >= 4 else "expect=1..3")
    stats: dict = {}
    model(tree, streams, stats)
    if stats.get("broadcast"):
        rec.label("broadcast")
    if any(not isinstance(ch, str) for ch in tree[1:]):
        rec.label("nested")
    for sub in [tree, *[ch for ch in tree[1:] if not isinstance(ch, str)]]:
        if sub[0] == "cart":
            gs = Counter()
            for p in sub[1:]:
                for t in streams[p]:
                    gs[(p, ".".join(comps(t)[:-1]))] += 1
            for g in sorted({g for _, g in gs}):
                if all(gs[(p, g)] >= 2 for p in sub[1:]):
                    rec.label("cartesian>=2x2")
                    break
    if any(len(c) >= 2 for p in ports for t in streams[p] for c in comps(t)):
        rec.label("component>=10")
    canonical = [[p, t] for p in ports for t in streams[p]]
    datas = [[e for e in o if e[1] is not None] for o in orders]
    if any(e[1] is None and any(x[1] is not None for x in o[i:]) for o in orders for i, e in enumerate(o)):
        rec.label("termination-before-other-data")
    if datas[0] != datas[1]:
        rec.label("two-different-orders")
    rec.nontrivial(len(ports) >= 2 and len(exp) >= 1 and any(d != canonical for d in datas))


# ------------------------------------------------------------------------------------------------
# direct tier


async def run_step(ctx, idx: int, tree, events):
    import asyncio

    from streamflow.core.workflow import Token, Workflow
    from streamflow.workflow.step import CombinatorStep
    from streamflow.workflow.token import TerminationToken
    from vf.engine.detloop import settle
    from vf.engine.harness import feed

    wf = Workflow(context=ctx, name=f"w{idx}", config={})
    ports = leaves(tree)
    step = wf.create_step(CombinatorStep, name="/s-scatter-combinator", combinator=build_combinator(tree, wf, "/s-scatter-combinator"))
    ins, outs = {}, {}
    for p in ports:
        ins[p], outs[p] = wf.create_port(), wf.create_port()
        step.add_input_port(p, ins[p])
        step.add_output_port(p, outs[p])
    await wf.save(ctx.database)
    task = asyncio.create_task(step.run())
    await settle()
    await feed(ctx, [(ins[p], TerminationToken() if t is None else Token(value=val(p, t), tag=t)) for p, t in events])
    if not task.done():
        task.cancel()
        raise Violation("C02:step-hang", f"order {idx}: CombinatorStep.run did not finish after every input terminated")
    task.result()
    return ports, outs


@prop.given("direct", direct_case(), quick=3000, thorough=100000)
async def check_direct(case, rec):
    from vf.engine.detloop import pending_tasks
    from vf.engine.harness import make_context

    tree, streams = case["tree"], case["streams"]
    exp_list = model(tree, streams)
    exp = canon(exp_list)
    if any(n != 1 for n in exp.values()):
        raise HarnessError(f"model produced a duplicate combination: {exp}")
    orders = [arrival(tree, streams, o) for o in case["orders"]]
    ctx = make_context()
    try:
        gots = []
        for k, events in enumerate(orders):
            ports, outs = await run_step(ctx, k, tree, events)
            gots.append(read_outputs(ports, outs, f"order {k}"))
        if pending_tasks():
            raise Violation("C02:pending-tasks", f"{len(pending_tasks())} tasks pending after the run")
        for k, got in enumerate(gots):
            compare(got, exp, f"order {k} {[(p, t) for p, t in orders[k]]}")
        if gots[0] != gots[1]:  # implied by the two comparisons above; kept as the explicit metamorphic relation
            raise Violation("C02:order-dependent", f"orders {orders} give {gots}")
        classify(rec, case, exp_list, orders)
    finally:
        await ctx.close()


# ------------------------------------------------------------------------------------------------
# engine tier: real scatter steps upstream, StreamFlowExecutor, chaos schedule


@st.composite
def engine_case(draw):
    shape = draw(st.sampled_from(["dot-scatter", "dot2", "cart", "dot-cart", "dot-dot"]))
    groups = draw(GROUPS)
    n_in = 1 if shape == "dot-scatter" else draw(st.sampled_from([2, 2, 3]))
    inner = ["a", "b", "c"][:n_in]
    lens = {p: [draw(st.sampled_from([0, 1, 2, 2, 3, 3, 11] if n_in < 3 else [0, 1, 2, 2, 3])) for _ in groups] for p in inner}
    if shape in ("dot2", "cart"):
        tree, res = ["dot" if shape == "dot2" else "cart", *inner], {}
    else:
        rs = ["r", "s"][: draw(st.sampled_from([1, 1, 2]))]
        res = {p: _residual(groups, draw(_res_desc)) for p in rs}
        tree = ["dot", *inner, *rs] if shape == "dot-scatter" else ["dot", ["cart" if shape == "dot-cart" else "dot", *inner], *rs]
    return {"shape": shape, "tree": tree, "groups": groups, "lens": lens, "residual": res, "schedule": draw(st.lists(st.integers(0, 4), max_size=12))}


@prop.given("engine", engine_case(), quick=700, thorough=5000, max_shards=4)
async def check_engine(case, rec):
    from streamflow.core.workflow import Token, Workflow
    from streamflow.workflow.executor import StreamFlowExecutor
    from streamflow.workflow.step import CombinatorStep, ScatterStep
    from streamflow.workflow.token import ListToken, TerminationToken
    from vf.engine.detloop import Chaos, pending_tasks, settle
    from vf.engine.harness import make_context, put_persisted

    tree, groups = case["tree"], case["groups"]
    ports = leaves(tree)
    streams = {p: _scattered(groups, [range(n) for n in ns]) for p, ns in case["lens"].items()} | dict(case["residual"])
    exp_list = model(tree, streams)
    exp = canon(exp_list)
    # (the deterministic loop orders the sets returned by asyncio.wait by task creation and rotates simultaneously
    # finished tasks by the schedule, so the order in which CombinatorStep.run visits them is a function of the case)
    chaos = Chaos(case["schedule"])
    ctx = make_context(chaos)
    try:
        wf = Workflow(context=ctx, name="w", config={})
        step = wf.create_step(CombinatorStep, name="/s-scatter-combinator", combinator=build_combinator(tree, wf, "/s-scatter-combinator"))
        sources, comb_in, outs = {}, {}, {}
        for p in ports:
            sources[p] = wf.create_port()
            comb_in[p] = sources[p]
            if p in case["lens"]:
                sc = wf.create_step(ScatterStep, name=f"/s/{p}-scatter")
                sc.add_input_port(p, sources[p])
                comb_in[p] = wf.create_port()
                sc.add_output_port(p, comb_in[p])
            outs[p] = wf.create_port()
            step.add_input_port(p, comb_in[p])
            step.add_output_port(p, outs[p])
            wf.output_ports[p] = outs[p].name
        await wf.save(ctx.database)
        for p in ports:
            if p in case["lens"]:
                for g, n in zip(groups, case["lens"][p]):
                    # the value of element i is what the direct tier uses for tag g.i
                    lt = ListToken(value=[Token(value=val(p, f"{g}.{i}"), tag=g) for i in range(n)], tag=g)
                    await put_persisted(ctx, sources[p], lt)
            else:
                for t in case["residual"][p]:
                    await put_persisted(ctx, sources[p], Token(value=val(p, t), tag=t))
            sources[p].put(TerminationToken())
        await StreamFlowExecutor(wf).run()
        await settle()
        if pending_tasks():
            raise Violation("C02:pending-tasks", f"{len(pending_tasks())} tasks pending after the run")
        # the producers really emitted the streams the model was given (R1a cross-check of the direct tier's domain)
        for p in ports:
            seen = [t.tag for t in comb_in[p].token_list if not isinstance(t, TerminationToken)]
            if sorted(seen) != sorted(streams[p]):
                raise HarnessError(f"port {p}: producers emitted {seen}, the generator assumed {streams[p]}")
        compare(read_outputs(ports, outs, "engine"), exp, "engine")
        rec.label(f"shape={case['shape']}", "expect-nothing" if not exp else "expect>=4" if len(exp) >= 4 else "expect=1..3")
        if chaos.s:
            rec.label("non-default-schedule")
        if any(n >= 10 for ns in case["lens"].values() for n in ns):
            rec.label("component>=10")
        rec.nontrivial(len(ports) >= 2 and len(exp) >= 2)
    finally:
        await ctx.close()


# ------------------------------------------------------------------------------------------------
# bounded-exhaustive tier: all permutations over a small universe, through Combinator.combine


def _subsets(universe, kmax=3):
    return [list(s) for k in range(0, kmax + 1) for s in itertools.combinations(universe, k)]


_D2 = ["0.0", "0.1", "0.10"]
_D3 = ["0.0.0", "0.1.0", "0.1.1", "0.10.0"]
DOT_STREAMS = [[], ["0"], *_subsets(_D2)[1:], *_subsets(_D3)[1:]]
SCATTER_STREAMS = {
    "one": _subsets(["0.0", "0.1", "0.10"]),
    "two": _subsets(["0.1.0", "0.1.1", "0.10.0", "0.10.1"]),
}
RESIDUALS = {"one": [[], ["0"]], "two": [[], ["0.1"], ["0.10"], ["0.1", "0.10"], ["0"]]}


def gen_blocks(tier):
    cap = 5 if tier == "quick" else 7
    blocks = []
    for n in (2, 3):
        names = ["a", "b", "c"][:n]
        for ss in itertools.product(DOT_STREAMS, repeat=n):
            blocks.append({"tree": ["dot", *names], "streams": dict(zip(names, ss))})
    for grp in ("one", "two"):
        for n in (2, 3):
            names = ["a", "b", "c"][:n]
            for ss in itertools.product(SCATTER_STREAMS[grp], repeat=n):
                blocks.append({"tree": ["cart", *names], "streams": dict(zip(names, ss))})
        for inner in ("cart", "dot"):
            for sa, sb in itertools.product(SCATTER_STREAMS[grp], repeat=2):
                for r in RESIDUALS[grp]:
                    blocks.append({"tree": ["dot", [inner, "a", "b"], "r"], "streams": {"a": sa, "b": sb, "r": r}})
    blocks = [b for b in blocks if sum(len(s) for s in b["streams"].values()) <= cap]
    blocks.sort(key=lambda b: sum(len(s) for s in b["streams"].values()))  # small first
    yield from blocks


def _run_sync(coro):
    try:
        coro.send(None)
    except StopIteration as e:
        return e.value
    coro.close()
    raise HarnessError("Combinator.combine suspended: the exhaustive tier expects it to be synchronous")


async def _drive(tree, events, tokens):
    comb = build_combinator(tree, None, "/s-scatter-combinator")
    got: Counter = Counter()
    for p, t in events:
        async for schema in comb.combine(p, tokens[(p, t)]):
            tags = {x["token"].tag for x in schema.values()}
            if len(tags) != 1:
                raise Violation("C02:combination-tags-differ", f"combination carries tags {sorted(tags)}")
            got[(tags.pop(), tuple(sorted((k, x["token"].value) for k, x in schema.items())))] += 1
    return got


@prop.enumerated("permutations-exhaustive", gen_blocks, max_shards=8)
def check_block(case, rec):
    from streamflow.core.workflow import Token

    tree, streams = case["tree"], case["streams"]
    ports = leaves(tree)
    exp_list = model(tree, streams)
    exp = canon(exp_list)
    data = [(p, t) for p in ports for t in streams[p]]
    tokens = {(p, t): Token(value=val(p, t), tag=t) for p, t in data}
    n = 0
    for perm in itertools.permutations(data):
        n += 1
        got = _run_sync(_drive(tree, perm, tokens))
        compare(got, exp, f"arrival {list(perm)}")
    rec.label(f"tree={tree[0]}" + ("-" + tree[1][0] if not isinstance(tree[1], str) else ""), f"tokens={len(data)}")
    rec.label("expect-nothing" if not exp else "expect>=1")
    rec.bulk(evaluations=n, nontrivial=(n - 1) if (len(ports) >= 2 and exp) else 0)
