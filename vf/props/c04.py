"""C04 Every well-formed workflow terminates, and failures terminate every step."""
from __future__ import annotations

from hypothesis import strategies as st

from vf.core import Prop, Violation
from vf.engine import progs

prop = Prop(
    "C04",
    level="exploration",
    technique="Hypothesis PBT over generated workflow programs x chaos schedules x injected faults on a deterministic loop with an exact deadlock detector; oracle = termination/status invariants + reference interpreter",
    rule=(
        "programs as in C05 (source/map/zip/scatter/gather/cross-product/cond/loop/schedule+execute, <= 12 blocks) run by StreamFlowExecutor "
        "under a drawn schedule; sub-check no-failure: no fault, optionally some leaf streams left unconnected to any workflow "
        "output (dangling steps); sub-check with-failure: 1..2 faults (a job's command fails or raises, a transformer raises, a "
        "conditional raises, a loop body raises at a drawn iteration) with the default (non-recovering) failure manager. Non-trivial = >= 3 steps and a non-empty "
        "schedule (no-failure), resp. a fault that the reference run reaches (with-failure); distinct by the whole case."
    ),
    level_text="Random search; a hang is decided exactly by the deterministic loop (quiescent loop with unfinished executor), never by a timeout.",
    level_note="Liveness is decided only up to quiescence of finite generated runs under delays at external waits. Loop bodies are fixed harness transformers.",
    assumptions=["every leaf stream is a workflow output unless the case says otherwise (dangling sub-domain)"],
)
prop.engine = "detloop"

ALL_OPS = ("map", "zip", "scatter", "gather", "cond", "loop", "exec", "cross", "shuffle", "join")

nofail_case = st.fixed_dictionaries(
    {
        "prog": progs.program_strategy(ops=ALL_OPS),
        "schedule": progs.schedule_strategy,
        # indices (mod #leaf streams) of leaf streams NOT registered as workflow outputs; [] in 2/3 of the cases
        "dangling": st.one_of(st.just([]), st.just([]), st.lists(st.integers(0, 7), min_size=1, max_size=2)),
        "durations": progs.durations_strategy,
    }
)


def _producers(r):
    """port name -> number of steps having it as output port"""
    cnt: dict[str, int] = {}
    for s in r.wf.steps.values():
        for p in s.output_ports.values():
            cnt[p] = cnt.get(p, 0) + 1
    return cnt


def check_clean_termination(r, pid="C04"):
    from streamflow.workflow.token import TerminationToken

    bad = {n: s for n, s in r.statuses.items() if s not in ("COMPLETED", "SKIPPED")}
    if bad:
        raise Violation(f"{pid}:step-status-after-success", f"executor returned but steps ended {bad}; blocks={r.blocks}")
    check_all_terminated(r, pid)
    prod = _producers(r)
    for name, port in r.wf.ports.items():
        n = sum(isinstance(t, TerminationToken) for t in port.token_list)
        if name in prod and n != prod[name]:
            raise Violation(f"{pid}:termination-token-count", f"port fed by {prod[name]} step(s) carries {n} termination tokens; blocks={r.blocks}")
        if name in prod and port.token_list and not isinstance(port.token_list[-1], TerminationToken):
            raise Violation(f"{pid}:token-after-termination", f"port history does not end with a termination token; blocks={r.blocks}")


def check_all_terminated(r, pid="C04"):
    not_term = [n for n, t in r.terminated.items() if not t]
    if not_term:
        raise Violation(f"{pid}:step-not-terminated", f"steps not terminated: {not_term}; blocks={r.blocks}")
    if r.pending:
        raise Violation(f"{pid}:pending-tasks", f"{r.pending} tasks still pending at quiescence after the executor finished; blocks={r.blocks}")


@prop.given("no-failure", nofail_case, quick=1200, thorough=60000)
async def check_nofail(case, rec):
    from vf.engine.runprog import classify, compare_with_reference, outputs_of, run_program

    _, streams = progs.analyse(case["prog"])
    leaves = outputs_of(streams)
    dangling = sorted({leaves[i % len(leaves)] for i in case["dangling"]})
    if len(dangling) >= len(leaves):
        dangling = dangling[:-1]  # a workflow keeps at least one output
    r = await run_program(case["prog"], case["schedule"], dangling=dangling, durations=case.get("durations"))
    if r.outcome != "returned":
        kind = "C04:valid-workflow-raised"
        if dangling:
            cancelled = [n for n, s in r.statuses.items() if s == "CANCELLED"]
            if cancelled:
                kind = "C04:dangling-step-cancelled-by-executor-close"
        raise Violation(kind, f"{r.exception!r}; statuses={ {n: s for n, s in r.statuses.items() if s not in ('COMPLETED', 'SKIPPED')} }; dangling={dangling}; blocks={r.blocks}")
    check_clean_termination(r)
    compare_with_reference(r, "C04")
    classify(r, rec)
    if dangling:
        rec.label("dangling")
    nsteps = len(r.statuses)
    rec.label("steps>=10" if nsteps >= 10 else "steps<10")
    rec.nontrivial(nsteps >= 3 and any(case["schedule"]))


# faults: (block position modulo #fault-able blocks, tag position modulo #tags, kind)
fault = st.tuples(st.integers(0, 30), st.integers(0, 30), st.sampled_from(["status", "raise"]))
fail_case = st.fixed_dictionaries(
    {
        "prog": progs.program_strategy(ops=ALL_OPS),
        "schedule": progs.schedule_strategy,
        "faults": st.lists(fault, min_size=1, max_size=2),
        "durations": progs.durations_strategy,
    }
)


@prop.given("with-failure", fail_case, quick=1000, thorough=50000)
async def check_fail(case, rec):
    from streamflow.core.exception import WorkflowExecutionException
    from vf.engine.runprog import classify, run_program

    blocks, streams = progs.analyse(case["prog"])
    ref = progs.interpret(blocks)
    cands = [n for n, b in enumerate(blocks) if b["op"] in ("map", "zip", "join", "cond", "exec", "loop")]
    faults: dict[str, list[str]] = {}
    fail_plan: dict[str, dict[str, int]] = {}
    mode = "status"
    reached = []
    for bi, ti, kind in case["faults"]:
        if not cands:
            break
        n = cands[bi % len(cands)]
        b = blocks[n]
        # the tags the block processes in a failure-free run = tags of its output stream
        # (loop: the body processes tag <instance>.<i> for every iteration i below the instance's bound)
        if b["op"] == "loop":
            tags = [f"{t}.{i}" for t, v in sorted(ref[b["src"]].items(), key=lambda kv: progs.tag_key(kv[0])) for i in range(progs.loop_bound(v, b["m"]))]
        else:
            tags = sorted(ref[b["out"]], key=progs.tag_key)
        if not tags:
            continue
        tag = tags[ti % len(tags)]
        reached.append((n, b["op"], tag))
        if b["op"] == "exec":
            fail_plan.setdefault(str(n), {})[tag] = 1
            mode = kind
        else:
            faults.setdefault(str(n), []).append(tag)
    r = await run_program(case["prog"], case["schedule"], faults=faults, fail_plan=fail_plan, fail_mode=mode, durations=case.get("durations"))
    if reached:
        if r.outcome != "raised":
            raise Violation("C04:failure-not-raised", f"faults {reached} were injected but the executor returned {r.result}; blocks={blocks}")
        if not isinstance(r.exception, WorkflowExecutionException):
            raise Violation("C04:failure-wrong-exception", f"{r.exception!r}; blocks={blocks}")
        check_all_terminated(r)
        rec.label(*{f"fault-in-{op}" for _, op, _ in reached})
        if any(len(streams[blocks[n]["out"]].stack) >= 1 for n, _, _ in reached):
            rec.label("fault-inside-scatter")
    else:
        if r.outcome != "returned":
            raise Violation("C04:valid-workflow-raised", f"{r.exception!r}; blocks={blocks}")
        check_clean_termination(r)
        rec.label("no-fault-reached")
    classify(r, rec)
    rec.nontrivial(bool(reached))
