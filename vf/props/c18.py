"""C18 Recovery re-runs only failed jobs and producers of lost data."""
from __future__ import annotations

from vf.core import Prop, Violation

prop = Prop(
    "C18",
    level="fault_enumeration",
    technique=(
        "fault injection on a deterministic event loop; oracle = prediction of every job's execution count from the failure "
        "plan, the reference provenance DAG of the shape and the data availability recorded by the harness at every "
        "failure (which output instances are on disk), counted from the harness execution log"
    ),
    rule=(
        "scenario = C16 shape with unrelated jobs (scatter siblings, parallel branches, upstream steps, several volatile "
        "deployments) + failure plan + schedule. Non-trivial = measured: some job was re-executed while another job of "
        "the same run (sibling, parallel branch or ancestor) was executed exactly once; distinct by the whole case."
    ),
    level_text=(
        "Soft-failure plans: the execution count of every job is predicted exactly. Fail-stop plans: every extra execution "
        "must be justified by an own execute-phase failure or by a failure event of a descendant during which an output "
        "instance of the job was unavailable (at most one extra execution per such event)."
    ),
    level_note=(
        "Availability is what the harness observes on disk (every output instance of every completed execution) at the "
        "entry of FailureManager.recover and at deletions while a recovery is open; StreamFlow's own availability check "
        "happens inside that window. Recovery follows the provenance of the token instances the failed job consumed, so a "
        "producer whose *old* instance is lost is legitimately re-executed even if a newer instance exists (the domino "
        "effect documented by tests/test_recovery.py): the bound is 'once per failure event of a descendant', not 'once'."
    ),
    assumptions=["schedules are delays at external waits", "harness commands/steps follow tests/utils/workflow.py with in-memory failure counters"],
)
prop.engine = "detloop"


def _survey(fn):
    from vf import recovery_kit as K

    return K.survey(fn)


def _soft():
    from vf import recovery_kit as K

    return K.st_case(fail_kinds=("soft",), min_points=1, kinds=("pipeline", "scatter", "diamond", "loop"))


def _any():
    from vf import recovery_kit as K

    return K.st_case(min_points=1, kinds=("pipeline", "scatter", "diamond"), fail_kinds=("soft", "stop", "lose"))


async def _run(case):
    from vf import recovery_kit as K

    shape = K.Shape(case["shape"])
    plan = K.resolve_plan(shape, case["plan"])
    await K.baseline(case["shape"])
    res = await K.run_scenario(case["shape"], plan, max_retries=K.safe_retries(shape, plan), schedule=case["schedule"],
                               wait_order=case.get("wait_order", 0))
    view = K.View(res)
    return K, shape, plan, res, view


def _precondition(K, rec, res, view):
    """C18 speaks about runs that recover; a run that hangs or raises is C16/C19 matter and is reported
    under its own kind so that the search continues behind it"""
    K.classify(rec, res, view)
    if res.deadlock is not None:
        raise Violation(f"C18:deadlock:{view.deadlock_kind()}", f"plan {res.plan}\n{res.deadlock}")
    if res.raised is not None:
        raise Violation("C18:" + ("raised:loop-recovery" if res.shape.kind == "loop" else view.raised_kind()), f"{res.raised_msg}; plan {res.plan}; versions {res.versions}")
    if res.output != res.shape.reference_output():
        raise Violation("C18:" + view.output_kind(res.output, res.shape.reference_output()), f"{res.output!r} != {res.shape.reference_output()!r}; plan {res.plan}")


def _nontrivial(rec, shape, view):
    rerun = [j for j in shape.jobs() if view.starts.get(j, 0) >= 2]
    once = [j for j in shape.jobs() if view.starts.get(j, 0) == 1]
    import posixpath

    sib = any(posixpath.dirname(a) == posixpath.dirname(b) for a in rerun for b in once)
    anc = any(b in shape.ancestors(a) for a in rerun for b in once)
    par = any(b not in shape.ancestors(a) and a not in shape.ancestors(b) and posixpath.dirname(a) != posixpath.dirname(b) for a in rerun for b in once)
    if sib:
        rec.label("sibling-not-rerun")
    if anc:
        rec.label("ancestor-not-rerun")
    if par:
        rec.label("parallel-branch-not-rerun")
    rec.nontrivial(bool(rerun) and bool(once))


@prop.given("soft-exact", _soft, quick=600, thorough=20000)
@_survey
async def check_soft(case, rec):
    K, shape, plan, res, view = await _run(case)
    _precondition(K, rec, res, view)
    if view.deletes:
        raise Violation("C18:harness", "deletion in a soft-only plan")
    for job in shape.jobs():
        exp = 1 + view.planned_exec.get(job, 0)
        got = view.starts.get(job, 0)
        if got != exp:
            kind = "C18:soft-failure:unrelated-job-re-executed" if job not in view.planned_total else "C18:soft-failure:wrong-execution-count"
            raise Violation(kind, f"{job} started {got} times, predicted {exp}; plan {plan}; starts {view.starts}")
        if view.own_any.get(job, 0) != view.planned_total.get(job, 0):
            raise Violation("C18:soft-failure:unplanned-failure", f"{job}: {view.own_any.get(job, 0)} recoveries, {view.planned_total.get(job, 0)} failures planned")
    extra = set(view.starts) - set(shape.jobs())
    if extra:
        raise Violation("C18:unknown-job", f"jobs not in the reference DAG were executed: {sorted(extra)}")
    _nontrivial(rec, shape, view)


@prop.given("fail-stop-provenance", _any, quick=900, thorough=30000)
@_survey
async def check_stop(case, rec):
    K, shape, plan, res, view = await _run(case)
    _precondition(K, rec, res, view)
    jobs = shape.jobs()
    extra = set(view.starts) - set(jobs)
    if extra:
        raise Violation("C18:unknown-job", f"jobs not in the reference DAG were executed: {sorted(extra)}")
    anc = {j: shape.ancestors(j) for j in jobs}
    # every execution inside a recovery workflow is attributed to the failure that built that workflow:
    # the job must be the failed job itself or one of its provenance ancestors with unavailable data
    by_rid = {e["rid"]: e for e in view.recoveries}
    for e in res.run.events:
        if e["ev"] != "start" or e["wf"] == res.wf.persistent_id:
            continue
        rid = res.run.wf_rid.get(e["wf"])
        if rid is None or rid not in by_rid:
            raise Violation("C18:harness", f"start of {e['job']} in workflow {e['wf']} that no recover() call built")
        failed = by_rid[rid]["job"]
        if e["job"] == failed:
            continue
        if e["job"] not in anc.get(failed, set()):
            raise Violation(
                "C18:re-executed-job-is-not-an-ancestor-of-the-failed-job",
                f"{e['job']} was executed by the recovery of {failed} (failed step {by_rid[rid]['step']}); plan {plan}; starts {view.starts}",
            )
        if e["job"] not in view.unavailable(rid):
            raise Violation(
                "C18:re-executed-although-outputs-available",
                f"{e['job']} was executed by the recovery of {failed} although all its output instances were on disk during that recovery; plan {plan}",
            )
    for job in jobs:
        got = view.starts.get(job, 0)
        if got < 1:
            raise Violation("C18:job-never-executed", f"{job}; starts {view.starts}")
        own = view.own_exec.get(job, 0)
        justified = [
            e["rid"] for e in view.recoveries if e["job"] != job and job in anc.get(e["job"], set()) and job in view.unavailable(e["rid"])
        ]
        if got - 1 > own + len(justified):
            descendants_failed = [e["job"] for e in view.recoveries if job in anc.get(e["job"], set())]
            if not descendants_failed and own == 0:
                kind = "C18:re-executed-without-failed-descendant"
            elif not shape.produces_files(job) or not any(job in view.unavailable(e["rid"]) for e in view.recoveries):
                kind = "C18:re-executed-although-outputs-available"
            else:
                kind = "C18:re-executed-more-than-once-per-failure-event"
            raise Violation(
                kind,
                f"{job} started {got} times: own execute-phase failures {own}, failure events of descendants with an unavailable "
                f"output of {job}: {len(justified)}; plan {plan}; starts {view.starts}; recoveries "
                f"{[(e['rid'], e['job'], e['step'], sorted(view.unavailable(e['rid']))) for e in view.recoveries]}",
            )
    if view.has_stop:
        rec.label("some-output-stayed-available" if any(shape.produces_files(j) and not any(j in view.unavailable(e["rid"]) for e in view.recoveries) for j in jobs) else "all-file-outputs-lost")
    _nontrivial(rec, shape, view)


# ---- selective loss: the output directory of chosen jobs vanishes, exact prediction -------------


def _selective():
    from hypothesis import strategies as st

    from vf import recovery_kit as K

    scatter = st.fixed_dictionaries(
        {
            "kind": st.just("scatter"), "width": st.sampled_from([2, 3, 5, 11, 12, 13, 13]), "pre": st.sampled_from([0, 1, 1]),
            "inner": st.integers(1, 2), "post": st.just(1), "token": st.just("file"), "ndep": st.sampled_from([1, 1, 2]),
        }
    )
    diamond = st.fixed_dictionaries(
        {"kind": st.just("diamond"), "branches": st.lists(st.integers(1, 2), min_size=2, max_size=4), "token": st.sampled_from(["file", "list"]), "ndep": st.sampled_from([1, 2])}
    )
    pipeline = st.fixed_dictionaries({"kind": st.just("pipeline"), "n": st.integers(2, 5), "token": st.sampled_from(["file", "object"]), "ndep": st.just(1)})
    return st.fixed_dictionaries(
        {
            "shape": st.one_of(scatter, scatter, scatter, diamond, pipeline),
            "phase": st.sampled_from(["execute", "execute", "transfer"]),
            # victims as [step index, tag index]; low tag indices and the last ones are both frequent
            # -1 = the first step (producer of everything), -2 = the first scattered step / second step;
            # element indices whose tags are string prefixes of others (1 vs 10..12) are frequent
            "victims": st.lists(
                st.one_of(
                    st.tuples(st.integers(0, 9), st.one_of(st.integers(0, 3), st.integers(0, 12))),
                    st.tuples(st.just(-1), st.just(0)),
                    st.tuples(st.just(-2), st.sampled_from([1, 1, 1, 0, 2, 9, 10, 11, 12, 12])),
                ).map(list),
                min_size=1, max_size=6,
            ),
            "schedule": K.st_schedule(),
            "wait_order": st.sampled_from([0, 0, 1, 2, 3]),
        }
    )


@prop.given("selective-loss", _selective, quick=300, thorough=15000)
@_survey
async def check_selective(case, rec):
    """the last job of the shape fails once while the latest output directories of some earlier jobs
    vanish; everything else stays on disk and nothing runs concurrently, so the prediction is exact:
    a job runs again iff it is the failed job (execute phase) or it lost its output and one of its
    consumers runs again"""
    from vf import recovery_kit as K

    shape = K.Shape(case["shape"])
    last = len(shape.steps) - 1
    first_scattered = next((i for i, st_ in enumerate(shape.steps) if st_["scattered"]), min(1, last))
    vs = [[0 if si == -1 else first_scattered if si == -2 else si, ti] for si, ti in case["victims"]]
    plan = K.resolve_plan(shape, [[last, 0, case["phase"], "lose", 1, 0, vs]])
    await K.baseline(case["shape"])
    res = await K.run_scenario(case["shape"], plan, max_retries=K.safe_retries(shape, plan), schedule=case["schedule"], wait_order=case.get("wait_order", 0))
    view = K.View(res)
    K.classify(rec, res, view)
    if res.deadlock is not None:
        raise Violation(f"C18:deadlock:{view.deadlock_kind()}", f"plan {res.plan}\n{res.deadlock}")
    if res.raised is not None:
        raise Violation("C18:" + view.raised_kind(), f"{res.raised_msg}; plan {res.plan}; versions {res.versions}")
    failed = plan[0]["job"]
    victims = [v for v in plan[0].get("victims", []) if shape.produces_files(v)] if plan[0]["kind"] == "lose" else []
    jobs = shape.jobs()
    children = {j: [c for c in jobs if j in shape.parents_of(c)] for j in jobs}
    rerun = {failed}
    changed = True
    while changed:
        changed = False
        for v in victims:
            if v not in rerun and any(c in rerun for c in children[v]):
                rerun.add(v)
                changed = True
    for job in jobs:
        exp = 1 + (1 if job in rerun and (job != failed or case["phase"] == "execute") else 0)
        got = view.starts.get(job, 0)
        if got != exp:
            if got > exp and job not in victims and job != failed:
                kind = "C18:selective-loss:job-with-available-outputs-re-executed"
            elif got > exp:
                kind = "C18:selective-loss:lost-output-regenerated-although-not-needed"
            else:
                kind = "C18:selective-loss:job-not-re-executed"
            raise Violation(kind, f"{job} started {got} times, predicted {exp}; failed {failed} ({case['phase']}), lost outputs of {victims}; starts {view.starts}")
    if res.output != shape.reference_output():  # (after the counts: they are the more specific verdict)
        raise Violation("C18:" + view.output_kind(res.output, shape.reference_output()), f"{res.output!r} != {shape.reference_output()!r}; plan {res.plan}")
    rec.label(f"victims={len(victims)}", f"rerun={min(len(rerun), 5)}")
    if any(posixpath_tag(v) >= 10 for v in victims):
        rec.label("lost-element-index>=10")
    if any(posixpath_tag(j) >= 10 for j in jobs):
        rec.label("elements>=11")
    rec.nontrivial(len(rerun) >= 2 and any(j not in rerun for j in jobs))


def posixpath_tag(job: str) -> int:
    tag = job.rsplit("/", 1)[1]
    return int(tag.split(".")[-1]) if "." in tag else 0
