"""C14 Hardware arithmetic is consistent."""
from __future__ import annotations

import copy
import math

from hypothesis import strategies as st

from vf.core import Prop, Violation

prop = Prop(
    "C14",
    level="exploration",
    technique="Hypothesis PBT of algebraic laws against a dict-based reference model",
    rule=(
        "Hardware values with 0..4 storages over 1..3 mount points, keys equal to mount points or aliasing keys, "
        "cores/memory/sizes dyadic (exact laws) or arbitrary finite non-negative floats (1e-9 relative tolerance). "
        "Non-trivial = some operand has >= 2 storages sharing a mount point under different keys, or the operands "
        "span >= 2 mount points; distinct by the whole case."
    ),
    level_text="Random search over the documented value domain with an independent per-mount-point model; laws are those the scheduler relies on.",
    level_note="Floats: equality up to 1e-9 relative; dyadic values: exact. The numeric meaning of the merge operator `|` is not in the statement; only structural facts are checked for it.",
    assumptions=["sizes, cores, memory are finite and non-negative (Storage rejects negative sizes by design)"],
)

MOUNTS = ["/", "/data", "/mnt/scratch"]
dyadic = st.integers(0, 4096).map(lambda n: n / 8)
anyfloat = st.floats(min_value=0, max_value=1e12, allow_nan=False, allow_infinity=False)


def storage_strategy(num):
    # (key_kind, mount index, size, paths)
    return st.lists(
        st.tuples(st.sampled_from(["mount", "alias1", "alias2"]), st.integers(0, 2), num,
                  st.lists(st.sampled_from(["/a", "/data/x", "/mnt/scratch/y", "/tmp/z"]), max_size=2)),
        min_size=0,
        max_size=4,
    )


def hw_strategy(num):
    return st.fixed_dictionaries({"cores": num, "memory": num, "storage": storage_strategy(num)})


case_strategy = st.one_of(
    st.fixed_dictionaries({"exact": st.just(True), "a": hw_strategy(dyadic), "b": hw_strategy(dyadic)}),
    st.fixed_dictionaries({"exact": st.just(False), "a": hw_strategy(anyfloat), "b": hw_strategy(anyfloat)}),
)


def build(desc):
    from streamflow.core.scheduling import Hardware, Storage

    storage = {}
    for kind, mi, size, paths in desc["storage"]:
        mp = MOUNTS[mi]
        key = mp if kind == "mount" else f"{kind}:{mp}"
        if key in storage:  # same key, same mount point: aggregate in the description itself
            storage[key] = Storage(mp, storage[key].size + size, set(storage[key].paths) | set(paths))
        else:
            storage[key] = Storage(mp, size, set(paths))
    return Hardware(desc["cores"], desc["memory"], storage or None)


def model(desc):
    """reference: (cores, memory, {mount: size}); a Hardware built without storages has '/' with 0"""
    m = {}
    for _, mi, size, _ in desc["storage"]:
        m[MOUNTS[mi]] = m.get(MOUNTS[mi], 0.0) + size
    if not desc["storage"]:
        m = {"/": 0.0}
    return desc["cores"], desc["memory"], m


def observe(hw):
    m = {}
    for s in hw.storage.values():
        m[s.mount_point] = m.get(s.mount_point, 0.0) + s.size
    return hw.cores, hw.memory, m


def snapshot(hw):
    return (hw.cores, hw.memory, sorted((k, s.mount_point, s.size, tuple(sorted(s.paths)), s.bind) for k, s in hw.storage.items()))


def close(x, y, exact):
    if exact:
        return x == y
    return math.isclose(x, y, rel_tol=1e-9, abs_tol=1e-9 * max(1.0, abs(x), abs(y)))


def eq_model(obs, exp, exact, missing_zero=True):
    if not close(obs[0], exp[0], exact) or not close(obs[1], exp[1], exact):
        return False
    keys = set(obs[2]) | set(exp[2])
    for k in keys:
        if not missing_zero and (k not in obs[2] or k not in exp[2]):
            return False
        if not close(obs[2].get(k, 0.0), exp[2].get(k, 0.0), exact):
            return False
    return True


@prop.given("laws", case_strategy, quick=6000, thorough=300000)
def check_laws(case, rec):
    from streamflow.core.exception import WorkflowExecutionException

    exact = case["exact"]
    a, b = build(case["a"]), build(case["b"])
    ma, mb = model(case["a"]), model(case["b"])
    sa, sb = snapshot(a), snapshot(b)
    # the harness' own reading of the constructed objects must agree with the model
    if not eq_model(observe(a), ma, exact) or not eq_model(observe(b), mb, exact):
        raise AssertionError("harness: build() and model() disagree")

    # --- add then subtract restores the original amounts per mount point (missing = 0)
    s = a + b
    exp_sum = (ma[0] + mb[0], ma[1] + mb[1], {k: ma[2].get(k, 0.0) + mb[2].get(k, 0.0) for k in set(ma[2]) | set(mb[2])})
    if not eq_model(observe(s), exp_sum, exact):
        raise Violation("C14:add", f"a+b = {s}, expected {exp_sum}; a={a} b={b}")
    if not s.is_normalized():
        raise Violation("C14:add-not-normalized", f"{s}")
    # with floats (x+y)-y may differ from x by rounding of the *sum*: tolerance relative to the sum
    d = s - b
    od = observe(d)
    ok = True
    for got, orig, other in [(od[0], ma[0], mb[0]), (od[1], ma[1], mb[1])] + [
        (od[2].get(k, 0.0), ma[2].get(k, 0.0), mb[2].get(k, 0.0)) for k in set(od[2]) | set(ma[2])
    ]:
        if exact:
            ok = ok and got == orig
        else:
            ok = ok and abs(got - orig) <= 1e-9 * max(1.0, abs(orig) + abs(other))
    if not ok:
        raise Violation("C14:add-sub-roundtrip", f"(a+b)-b = {d}, a = {a}, b = {b}")

    # --- normalisation: idempotent, is_normalized, per-mount totals preserved
    n = a.normalized()
    if not n.is_normalized():
        raise Violation("C14:normalized-not-normalized", f"{n}")
    if not eq_model(observe(n), ma, exact, missing_zero=False):
        raise Violation("C14:normalized-totals", f"{a} -> {n}")
    nn = n.normalized()
    if snapshot(nn) != snapshot(n):
        raise Violation("C14:normalized-idempotent", f"{n} -> {nn}")
    if set(n.storage) != set(ma[2]):
        raise Violation("C14:normalized-keys", f"{n} keys vs mounts {set(ma[2])}")

    # --- satisfies <=> componentwise >= on cores, memory and every mount of the requirement
    missing = set(mb[2]) - set(ma[2])
    try:
        got = a.satisfies(b)
    except WorkflowExecutionException:
        got = "raise"
    base = ma[0] >= mb[0] and ma[1] >= mb[1]
    if missing:
        # outside the law's domain: the documented exception, or False when cores/memory already fail
        if not (got == "raise" or (got is False and not base)):
            raise Violation("C14:satisfies-missing-mount", f"a={a} b={b} -> {got}")
        rec.label("satisfies:missing-mount")
    else:
        exp = base and all(ma[2][k] >= v for k, v in mb[2].items())
        # inexact (float) values: a per-mount total is a sum whose rounding depends on the summation
        # order, so a comparison of totals that differ by less than the tolerance is not asserted
        near = (not exact) and any(
            abs(ma[2][k] - v) <= 1e-9 * max(1.0, abs(v)) for k, v in mb[2].items()
        )
        if got != exp and not near:
            raise Violation("C14:satisfies", f"a={a} b={b} -> {got}, expected {exp}")
        rec.label("satisfies:within-rounding" if near else f"satisfies:{exp}")
    # a capacity always satisfies itself and a+b satisfies b
    if a.satisfies(a) is not True:
        raise Violation("C14:satisfies-reflexive", f"{a}")
    if exact and s.satisfies(b) is not True:
        raise Violation("C14:sum-satisfies-part", f"{s} vs {b}")

    # --- merge operator: structural facts only
    same_key_conflict = any(
        k in b.storage and b.storage[k].mount_point != v.mount_point for k, v in a.storage.items()
    )
    try:
        m = a | b
    except ArithmeticError:
        if not same_key_conflict:
            raise Violation("C14:or-raises", f"a={a} b={b}") from None
        m = None
    if m is not None:
        if same_key_conflict:
            raise Violation("C14:or-accepts-mismatch", f"a={a} b={b} -> {m}")
        if set(m.storage) != set(a.storage) | set(b.storage):
            raise Violation("C14:or-keys", f"a={a} b={b} -> {m}")

    # --- operands are never mutated
    if snapshot(a) != sa or snapshot(b) != sb:
        raise Violation("C14:operand-mutated", f"before {sa} {sb}; after {snapshot(a)} {snapshot(b)}")
    def aliasing(desc):
        seen = {}
        for kind, mi, *_ in desc["storage"]:
            seen.setdefault(mi, set()).add(kind)
        return any(len(v) >= 2 for v in seen.values())

    al = aliasing(case["a"]) or aliasing(case["b"])
    mm = len(set(ma[2]) | set(mb[2])) >= 2
    rec.label("exact" if exact else "float")
    if al:
        rec.label("aliasing-keys")
    if mm:
        rec.label(">=2-mounts")
    rec.nontrivial(al or mm)
