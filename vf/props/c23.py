"""C23 Tar-stream copies are exact or fail, however the stream is chunked.

Everything runs in-process on the deterministic loop: the byte stream is a harness ``StreamWrapper`` over a
``bytes`` object whose ``read(n)`` hands out chunks by a drawn policy, counts calls, and raises
``HangDetected`` when it is asked again and again after end-of-stream (the only "hang" verdict; no clock).
The code under test is used exactly as ``copy_remote_to_local`` / ``copy_local_to_remote`` use it:

    async with aiotarstream.open(stream=reader, mode="r", copybufsize=buf) as tar:
        await extract_tar_stream(tar, src, dst, buf)

    async with aiotarstream.open(stream=writer, format=tarfile.GNU_FORMAT, mode="w", dereference=True, copybufsize=buf) as tar:
        await tar.add(src, arcname=dst)

Archives are produced (synchronously, outside the loop) by GNU ``tar chf - -C dir name`` in gnu / pax / ustar
format, by Python ``tarfile`` in the three formats, and by the async writer. Symbolic-link members are not
generated: every reader command in the repository is ``tar chf`` (dereferencing), so they cannot reach
``extract_tar_stream``; hard-link members can (``tar chf`` keeps them) and are generated.

Sub-checks
* ``chunking``  (Hypothesis): one archive, four chunk policies (full reads, one of 511/512/513/4096, random <= n, one
  tiny fixed size), each must reproduce the source snapshot exactly.
* ``writer``    (Hypothesis): archives written by the async writer list and extract identically with ``tarfile``
  and GNU tar (``tar xpf - -C /`` as the connector does), and equal the dereferenced source tree.
* ``faults``    (bounded-exhaustive per archive): truncation at every boundary class of every raw tar entry and
  of the end-of-archive blocks; one flipped byte per header-field class and in member data. Outcome must be
  "raises TarError/OSError/EOFError", or "exactly the full tree" (only padding was lost / the flip is immaterial),
  or - for flips in data bytes, which tar cannot detect - exactly the flipped content.
* ``fuzz``      (thorough tier only): ``vf/fuzz/fuzz_tar_read.py`` under atheris, 16 jobs x 125k executions (seeded and
  empty corpus), differential against ``tarfile`` on member list and contents, in memory.
"""
from __future__ import annotations

import bisect
import hashlib
import io
import os
import posixpath
import subprocess
import tarfile

from hypothesis import strategies as st

from vf import fs
from vf.core import HarnessError, Prop, Violation

prop = Prop(
    "C23",
    level="fault_enumeration",
    technique="PBT round trip over chunk policies (metamorphic: all policies agree with the source snapshot) + bounded-exhaustive fault injection per archive (truncation at every boundary class, one flipped byte per header-field class) against extract_tar_stream on an in-process fake stream; writer checked differentially against tarfile and GNU tar",
    rule=(
        "chunking: archive of a generated tree (plain/hostile/long names, hard links, files up to 64 KiB quick / 1 MiB thorough) "
        "written by GNU tar, tarfile or the async writer in gnu/pax/ustar format, read under 4 chunk policies; non-trivial = "
        ">= 2 members and some chunk boundary strictly inside a header block and one strictly inside file data (measured from "
        "the fake stream's read log), distinct by the whole case. faults: for each of the fixed archives every (raw entry, boundary "
        "class) truncation and every (raw entry, header-field class | data) single-byte flip; non-trivial = the fault falls "
        "before the end-of-archive blocks (something is really lost or altered)."
    ),
    level_text="Every boundary class and header-field class of every entry of the enumerated archives is exercised; random search over trees, producers and chunk policies for the fault-free round trip.",
    level_note="Exhaustive per archive over fault *classes* (one representative offset per class), not over all byte offsets; archives are a fixed deterministic set (20 quick / 1000 thorough) x producers. Hang = more than 100000 reads after end-of-stream, counted by the fake stream.",
    assumptions=[
        "the remote reader command is `tar chf` (symbolic links dereferenced), as in every connector of the repository",
        "a StreamWrapper.read(n) may return any non-empty prefix of the available data (asyncio.StreamReader semantics), b'' only at end of stream",
    ],
)
prop.engine = "detloop"

PRODUCERS = ["gnutar-gnu", "gnutar-pax", "gnutar-ustar", "tarfile-gnu", "tarfile-pax", "tarfile-ustar", "aio-gnu"]
MID_POLICIES = [511, 512, 513, 4096]
TINY_POLICIES = [1, 7, 100]
EOF_READ_BUDGET = 100_000
ACCEPTED = (tarfile.TarError, OSError, EOFError)


class HangDetected(Exception):
    """The code under test keeps reading after end-of-stream (read-call budget exceeded)."""


# ------------------------------------------------------------------------------------------------
# fake streams


def _fake_reader_class():
    from streamflow.core.data import StreamWrapper

    class FakeReader(StreamWrapper):
        def __init__(self, data: bytes, policy: dict):
            super().__init__(None)
            self.data = data
            self.pos = 0
            self.policy = policy
            self.calls = 0
            self.eof_reads = 0
            self.cuts: list[int] = []  # absolute offsets where one returned chunk ended
            self.closed = False

        def _k(self, n: int) -> int:
            kind = self.policy["kind"]
            if kind == "n":
                return n
            if kind == "fixed":
                return min(n, self.policy["k"])
            # random <= n, derived from (seed, call index)
            h = hashlib.blake2b(b"%d:%d" % (self.policy["seed"], self.calls), digest_size=8).digest()
            r = int.from_bytes(h, "big")
            cap = min(n, self.policy.get("cap", n))
            return 1 + r % cap if r % 5 else cap

        async def read(self, size: int | None = None) -> bytes:
            self.calls += 1
            remaining = len(self.data) - self.pos
            if remaining <= 0:
                self.eof_reads += 1
                if self.eof_reads > EOF_READ_BUDGET:
                    raise HangDetected(f"{self.eof_reads} reads after end of stream")
                return b""
            n = remaining if size is None or size < 0 else min(size, remaining)
            if n == 0:
                return b""
            k = max(1, min(n, self._k(n)))
            chunk = self.data[self.pos : self.pos + k]
            self.pos += k
            self.cuts.append(self.pos)
            return chunk

        async def write(self, data):
            raise NotImplementedError

        async def close(self) -> None:
            self.closed = True

    class FakeWriter(StreamWrapper):
        def __init__(self):
            super().__init__(None)
            self.buf = bytearray()
            self.closed = False

        async def read(self, size=None):
            raise NotImplementedError

        async def write(self, data) -> None:
            self.buf += data

        async def close(self) -> None:
            self.closed = True

    return FakeReader, FakeWriter


# ------------------------------------------------------------------------------------------------
# sources and archives (plain os / tarfile / GNU tar; nothing from StreamFlow except the aio writer)


def build_source(source: dict, top: str, root: str) -> tuple[str, list]:
    """Create the source below ``root``; returns (path, expanded entries)."""
    os.makedirs(root, exist_ok=True)
    path = os.path.join(root, top)
    entries: list = []
    if source["kind"] == "dir":
        entries = fs.materialize(source["tree"], path)
        files = [e["path"] for e in entries if e["type"] == "file"]
        dirs = [""] + [e["path"] for e in entries if e["type"] == "dir"]
        for n, (i, j) in enumerate(source.get("hard", [])):
            if not files:
                break
            target = os.path.join(path, files[i % len(files)])
            link = os.path.join(path, dirs[j % len(dirs)], f"hl{n}")
            if not os.path.lexists(link):
                os.link(target, link)
    else:
        f = source["file"]
        with open(path, "wb") as fh:
            fh.write(fs.content(f["size"], f["seed"], f["c"]))
        os.chmod(path, fs.MODES[f["x"] % 4])
    # fixed timestamps: archives become a function of the description
    for dirpath, dirnames, filenames in os.walk(path):
        for n in dirnames + filenames:
            p = os.path.join(dirpath, n)
            if not os.path.islink(p):
                os.utime(p, (1_000_000_000, 1_000_000_000))
    os.utime(path, (1_000_000_000, 1_000_000_000))
    return path, entries


def make_archive(producer: str, src_path: str) -> bytes | None:
    """Archive ``src_path`` as ``<basename>/...`` the way a remote `tar chf - -C dirname basename` does.
    None = the producer itself refuses (ustar name limits)."""
    tool, fmt = producer.split("-")
    parent, base = os.path.split(src_path)
    if tool == "gnutar":
        p = subprocess.run(
            ["tar", "chf", "-", "--no-unquote", f"--format={fmt}", *(["--pax-option=delete=atime,delete=ctime"] if fmt == "pax" else []), "-C", parent, "--", base],
            stdout=subprocess.PIPE, stderr=subprocess.PIPE, stdin=subprocess.DEVNULL,
        )
        if p.returncode != 0:
            if fmt == "ustar" and (b"too long" in p.stderr or b"cannot be split" in p.stderr):
                return None
            raise HarnessError(f"GNU tar failed ({p.returncode}): {p.stderr[-500:]!r}")
        return p.stdout
    if tool == "tarfile":
        has_link = any(os.path.islink(os.path.join(d, n)) for d, ds, fns in os.walk(src_path) for n in ds + fns)
        out = io.BytesIO()
        try:
            with tarfile.open(fileobj=out, mode="w", format={"gnu": tarfile.GNU_FORMAT, "pax": tarfile.PAX_FORMAT, "ustar": tarfile.USTAR_FORMAT}[fmt],
                              dereference=has_link) as tf:
                tf.add(src_path, arcname=base)
        except ValueError:
            if fmt == "ustar":
                return None
            raise
        return out.getvalue()
    raise ValueError(producer)


async def aio_write(src_path: str, arcname: str, bufsize: int) -> bytes:
    from streamflow.deployment import aiotarstream

    _, FakeWriter = _fake_reader_class()
    writer = FakeWriter()
    async with aiotarstream.open(stream=writer, format=tarfile.GNU_FORMAT, mode="w", dereference=True, copybufsize=bufsize) as tar:
        await tar.add(src_path, arcname=arcname)
    return bytes(writer.buf)


def raw_entries(data: bytes) -> tuple[list[dict], int]:
    """Independent walk over the 512-byte blocks: every raw entry (extension headers included) with its
    offsets; returns (entries, offset of the first end-of-archive block)."""
    out = []
    pos = 0
    while pos + 512 <= len(data):
        hdr = data[pos : pos + 512]
        if hdr == b"\0" * 512:
            break
        f = hdr[124:136]
        if f[0] in (0x80, 0xFF):
            size = int.from_bytes(f[1:], "big") if f[0] == 0x80 else -1
        else:
            s = f.split(b"\0", 1)[0].strip()
            size = int(s, 8) if s else 0
        typeflag = chr(hdr[156]) if hdr[156] else "0"
        if typeflag in {"1", "2", "3", "4", "5", "6"}:  # links, devices, dirs, fifos carry no data
            dsize = 0
        else:
            dsize = size
        blocks = (dsize + 511) // 512
        out.append({"hdr": pos, "data": pos + 512, "size": dsize, "end": pos + 512 + dsize, "padded": pos + 512 + blocks * 512,
                    "type": typeflag, "name": hdr[:100].split(b"\0", 1)[0]})
        pos += 512 + blocks * 512
    return out, pos


# ------------------------------------------------------------------------------------------------
# running the code under test


async def extract_with(data: bytes, policy: dict, src: str, dst: str, bufsize: int, reader=None):
    """Exactly the body of connector.base.copy_remote_to_local, on a fake stream. Returns the reader."""
    from streamflow.deployment import aiotarstream
    from streamflow.deployment.connector.base import extract_tar_stream

    if reader is None:
        FakeReader, _ = _fake_reader_class()
        reader = FakeReader(data, policy)
    async with aiotarstream.open(stream=reader, mode="r", copybufsize=bufsize) as tar:
        await extract_tar_stream(tar, src, dst, bufsize)
    return reader


def relocate(snap: dict, prefix: str) -> dict:
    return {(prefix if k == "." else f"{prefix}/{k}"): tuple(v) for k, v in snap.items()}


def prepare_dst(mode: str, out_root: str, base: str) -> tuple[str, str, dict]:
    """mode 'absent': dst = out/dst (does not exist); 'into-dir' (file sources only): dst = out/dst exists,
    the file must land at out/dst/<base>. Returns (dst, final rel path below out_root, expected skeleton)."""
    os.makedirs(out_root)
    dst = os.path.join(out_root, "dst")
    skeleton = {".": ("d", 0, None)}
    if mode == "into-dir":
        os.mkdir(dst)
        skeleton["dst"] = ("d", 0, None)
        return dst, f"dst/{base}", skeleton
    return dst, "dst", skeleton


# ------------------------------------------------------------------------------------------------
# chunking sub-check


def _source_strategy(max_size: int):
    def tree(alpha):
        return fs.trees(alpha, max_size=max_size, dangling=False, max_entries=30 if max_size <= 70000 else 16, min_entries=2)

    hard = st.lists(st.tuples(st.integers(0, 63), st.integers(0, 63)), max_size=3)
    fd = st.fixed_dictionaries({"size": fs.sizes(max_size), "seed": st.integers(0, 999),
                                "c": st.sampled_from(["bin", "text", "textnl"]), "x": st.sampled_from([0, 1, 1, 2, 3])})
    return st.one_of(
        st.fixed_dictionaries({"kind": st.just("dir"), "tree": tree("plain"), "hard": hard}),
        st.fixed_dictionaries({"kind": st.just("dir"), "tree": tree("hostile"), "hard": hard}),
        st.fixed_dictionaries({"kind": st.just("dir"), "tree": tree("plain"), "hard": hard}),
        st.fixed_dictionaries({"kind": st.just("file"), "file": fd}),
    )


def _decode_chunking(args):
    r, source, top = args
    h = hashlib.sha256(b"c23:%d" % r).digest()
    mode = "absent"
    if source["kind"] == "file" and h[1] % 2:
        mode = "into-dir"
    return {
        "source": source,
        "top": top,
        "producer": PRODUCERS[h[0] % len(PRODUCERS)],
        "mode": mode,
        "buf": [64, 1000, 4096, 65536][h[2] % 4],
        "mid": MID_POLICIES[h[3] % 4],
        "tiny": TINY_POLICIES[h[4] % 3],
        "rseed": h[5],
    }


def _max_size() -> int:
    return 65537 if fs.current_tier() == "quick" else 1048576


def chunking_cases(max_size: int | None = None):
    max_size = max_size or _max_size()
    top = st.one_of(fs.plain_names(), fs.plain_names(), fs.names("hostile", long_names=True), fs.names("plain", long_names=True))
    return st.tuples(st.integers(0, 2**32 - 1), _source_strategy(max_size), top).map(_decode_chunking)


def _classify_archive(rec, ents, data, entries, case):
    types = {e["type"] for e in ents}
    rec.label(f"producer:{case['producer']}", f"mode:{case['mode']}", f"src:{case['source']['kind']}", f"buf:{case['buf']}")
    if "L" in types or "K" in types:
        rec.label("ext:gnu-longname")
    if "x" in types or "g" in types:
        rec.label("ext:pax-header")
    if "1" in types:
        rec.label("member:hardlink")
    if any(e["type"] in "05" and len(e["name"]) > 99 for e in ents):
        rec.label("name:100-byte-field-full")
    if any(e["size"] >= 65536 for e in ents):
        rec.label("member:>=64KiB")
    if any(e["size"] and e["size"] % 512 == 0 for e in ents):
        rec.label("member:512-multiple")
    if case["source"]["kind"] == "dir":
        rec.label(*sorted(fs.tree_features(entries)))
    rec.label("archive:" + ("<=10KiB" if len(data) <= 10240 else "<=100KiB" if len(data) <= 102400 else ">100KiB"))


@prop.given("chunking", chunking_cases, quick=160, thorough=5000, shrink=False)
async def check_chunking(case, rec):
    import shutil
    import tempfile

    sandbox = os.path.realpath(tempfile.mkdtemp(prefix="vf-c23-"))
    try:
        src_path, entries = build_source(case["source"], case["top"], os.path.join(sandbox, "src"))
        base = os.path.basename(src_path)
        if case["producer"] == "aio-gnu":
            data = await aio_write(src_path, base, case["buf"])
        else:
            data = make_archive(case["producer"], src_path)
        if data is None:
            # ustar cannot represent this tree (name limits): the same tool writes its gnu format instead
            rec.label("ustar-name-limit:fell-back-to-gnu")
            data = make_archive(case["producer"].split("-")[0] + "-gnu", src_path)
        ents, eoa = raw_entries(data)
        _classify_archive(rec, ents, data, entries, case)
        want_obj = fs.snapshot(src_path, deref=True)
        tiny = max(case["tiny"], len(data) // 30000)
        policies = [
            {"kind": "n"},
            {"kind": "fixed", "k": case["mid"]},
            {"kind": "random", "seed": case["rseed"], "cap": 1 << 20},
            {"kind": "fixed", "k": tiny},
        ]
        members = [e for e in ents if e["type"] in {"0", "1", "5", "7"}]
        seen = {"header": False, "data": False}
        FakeReader, _ = _fake_reader_class()

        def measure(reader) -> None:
            """non-triviality is measured from the read log, also when the verdict is a (known) violation"""
            cuts = reader.cuts  # ascending
            for e in ents:
                i1 = bisect.bisect_right(cuts, e["hdr"])
                if i1 < len(cuts) and cuts[i1] < e["hdr"] + 512:
                    seen["header"] = True
                if e["size"] > 1:
                    i2 = bisect.bisect_right(cuts, e["data"])
                    if i2 < len(cuts) and cuts[i2] < e["end"]:
                        seen["data"] = True
            rec.nontrivial(len(members) >= 2 and seen["header"] and seen["data"])

        rec.label("policy:mid=%d" % case["mid"], "policy:tiny=%d" % tiny if tiny <= 100 else "policy:tiny>100")
        for i, policy in enumerate(policies):
            out_root = os.path.join(sandbox, f"out{i}")
            dst, final_rel, expected = prepare_dst(case["mode"], out_root, base)
            expected.update(relocate(want_obj, final_rel))
            tag = "short-reads" if policy["kind"] != "n" and (policy.get("k", 0) < 511) else "reads>=511"
            reader = FakeReader(data, policy)
            try:
                await extract_with(data, policy, src_path, dst, case["buf"], reader=reader)
            except HangDetected as e:
                measure(reader)
                raise Violation(f"C23:chunking:{tag}:hang", f"policy {policy}: {e}") from None
            except ACCEPTED as e:
                measure(reader)
                raise Violation(f"C23:chunking:{tag}:raises:{type(e).__name__}", f"policy {policy} on an intact archive ({case['producer']}, {len(data)} bytes): {e}") from None
            measure(reader)
            got = fs.snapshot(out_root)
            if got != expected:
                missing = sorted(set(expected) - set(got))
                extra = sorted(set(got) - set(expected))
                sym = "members-missing" if missing and not extra else "extra" if extra and not missing else "content" if not missing and not extra else "structure"
                raise Violation(
                    f"C23:chunking:{tag}:{sym}",
                    f"policy {policy}, producer {case['producer']}, mode {case['mode']}, {len(ents)} raw entries, {len(data)} bytes, "
                    f"{reader.calls} reads: extract_tar_stream returned normally\n" + fs.diff_snapshots(expected, got),
                )
            shutil.rmtree(out_root, ignore_errors=True)
    finally:
        shutil.rmtree(sandbox, ignore_errors=True)


# ------------------------------------------------------------------------------------------------
# writer sub-check


def _decode_writer(args):
    r, source, top = args
    h = hashlib.sha256(b"c23w:%d" % r).digest()
    return {"source": source, "top": top, "buf": [64, 1000, 4096, 65536, None][h[0] % 5], "arc": ["abs", "rel", "renamed"][h[1] % 3]}


def writer_cases(max_size: int | None = None):
    max_size = max_size or _max_size()
    top = st.one_of(fs.plain_names(), fs.names("hostile", long_names=True), fs.names("plain", long_names=True))
    return st.tuples(st.integers(0, 2**32 - 1), _source_strategy(max_size), top).map(_decode_writer)


@prop.given("writer", writer_cases, quick=80, thorough=3000, shrink=False)
async def check_writer(case, rec):
    """copy_local_to_remote's half: the async writer's archive is what GNU tar and tarfile understand."""
    import shutil
    import tempfile

    sandbox = os.path.realpath(tempfile.mkdtemp(prefix="vf-c23w-"))
    try:
        src_path, entries = build_source(case["source"], case["top"], os.path.join(sandbox, "src"))
        base = os.path.basename(src_path)
        out_gnu, out_py = os.path.join(sandbox, "gnu"), os.path.join(sandbox, "py")
        os.makedirs(out_gnu)
        os.makedirs(out_py)
        # the connector passes the absolute destination path as arcname and extracts with `tar xpf - -C /`
        name = base if case["arc"] != "renamed" else "renamed"
        if case["arc"] == "rel":
            arc_gnu, arc_py = posixpath.join("d", name), posixpath.join("d", name)
            cgnu, cpy = out_gnu, out_py
        else:
            arc_gnu, arc_py = os.path.join(out_gnu, "d", name), os.path.join(out_gnu, "d", name)
            cgnu, cpy = "/", None
        try:
            data = await aio_write(src_path, arc_gnu, case["buf"])
        except ACCEPTED as e:
            raise Violation(f"C23:writer:raises:{type(e).__name__}", str(e)) from None
        rec.label(f"arcname:{case['arc']}", f"src:{case['source']['kind']}", f"buf:{case['buf']}",
                  *(sorted(fs.tree_features(entries)) if case["source"]["kind"] == "dir" else []))
        if len(data) % tarfile.RECORDSIZE:
            raise Violation("C23:writer:record-padding", f"archive length {len(data)} is not a multiple of {tarfile.RECORDSIZE}")
        want = fs.snapshot(src_path, deref=True)
        ents, _ = raw_entries(data)
        if any(e["type"] in "LK" for e in ents):
            rec.label("ext:gnu-longname")
        # (1) GNU tar, as on the remote side
        p = subprocess.run(["tar", "xpf", "-", "-C", cgnu], input=data, stdout=subprocess.PIPE, stderr=subprocess.PIPE)
        if p.returncode != 0 or p.stderr.replace(b"tar: Removing leading `/' from member names\n", b"").strip():
            raise Violation("C23:writer:gnu-tar-rejects", f"tar xpf exit {p.returncode}: {p.stderr[-600:]!r}")
        got = fs.snapshot(os.path.join(out_gnu, "d", name))
        if got != {k: tuple(v) for k, v in want.items()}:
            raise Violation("C23:writer:gnu-tar-differs", fs.diff_snapshots(want, got))
        lst = subprocess.run(["tar", "tf", "-"], input=data, stdout=subprocess.PIPE, stderr=subprocess.PIPE)
        if lst.returncode != 0:
            raise Violation("C23:writer:gnu-tar-rejects", f"tar tf exit {lst.returncode}: {lst.stderr[-600:]!r}")
        # (2) tarfile (reference reader): same content
        with tarfile.open(fileobj=io.BytesIO(data), mode="r:") as tf:
            tf.extractall(out_py, filter="fully_trusted")
        got = fs.snapshot(os.path.join(out_py, arc_py.lstrip("/")))
        if got != {k: tuple(v) for k, v in want.items()}:
            raise Violation("C23:writer:tarfile-differs", fs.diff_snapshots(want, got))
        rec.nontrivial(len(ents) >= 2 and any(e["type"] == "0" and e["size"] > 0 for e in ents)
                       or (case["source"]["kind"] == "file" and case["source"]["file"]["size"] > 0))
    finally:
        shutil.rmtree(sandbox, ignore_errors=True)


# ------------------------------------------------------------------------------------------------
# fault tier (bounded-exhaustive per archive)


def _rng(seed: int):
    state = {"i": 0}

    def nxt(mod: int) -> int:
        state["i"] += 1
        return int.from_bytes(hashlib.blake2b(b"c23-arch:%d:%d" % (seed, state["i"]), digest_size=8).digest(), "big") % mod

    return nxt


FIXED_SOURCES = [
    {"kind": "file", "file": {"size": 1300, "seed": 1, "c": "bin", "x": 1}},
    {"kind": "file", "file": {"size": 512, "seed": 2, "c": "text", "x": 0}},
    {"kind": "dir", "tree": {"alpha": "plain", "dangling": False, "entries": [
        {"k": "f", "n": "a.bin", "p": 0, "size": 700, "seed": 3, "c": "bin", "x": 0},
        {"k": "d", "n": "sub", "p": 0},
        {"k": "f", "n": "b.txt", "p": 1, "size": 1024, "seed": 4, "c": "textnl", "x": 1},
        {"k": "f", "n": "empty", "p": 1, "size": 0, "seed": 0, "c": "bin", "x": 0},
        {"k": "f", "n": "c.bin", "p": 0, "size": 5000, "seed": 5, "c": "bin", "x": 2}]}, "hard": [[0, 1]]},
    {"kind": "dir", "tree": {"alpha": "plain", "dangling": False, "entries": [
        {"k": "f", "n": "L" * 130, "p": 0, "size": 300, "seed": 6, "c": "bin", "x": 0},
        {"k": "d", "n": "d" * 101, "p": 0},
        {"k": "f", "n": "x" * 120, "p": 1, "size": 513, "seed": 7, "c": "bin", "x": 1}]}, "hard": []},
]


def fault_source(i: int) -> dict:
    """Deterministic archive number ``i`` (the first ones are hand-written: single file, file of one block,
    small tree with nested dir / empty file / hard link, long names)."""
    if i < len(FIXED_SOURCES):
        return FIXED_SOURCES[i]
    nxt = _rng(i)
    entries = []
    for n in range(2 + nxt(7)):
        kind = nxt(10)
        nm = "".join("abcdefghijklmnopqrstuvwxyz0123456789"[nxt(36)] for _ in range(1 + nxt(8)))
        if nxt(6) == 0:
            nm += "N" * (100 + nxt(60))
        if nxt(7) == 0:
            nm = nm[:3] + [" ", "é", "'", "$x", "-"][nxt(5)] + nm[3:]
        if kind < 3:
            entries.append({"k": "d", "n": nm, "p": nxt(64)})
        else:
            size = [0, 1, 100, 511, 512, 513, 1024, 3000, 10240, 20000][nxt(10)]
            entries.append({"k": "f", "n": nm, "p": nxt(64), "size": size, "seed": nxt(1000), "c": ["bin", "text", "textnl"][nxt(3)], "x": nxt(4)})
    return {"kind": "dir", "tree": {"alpha": "hostile", "dangling": False, "entries": entries}, "hard": [[nxt(64), nxt(64)]] if nxt(3) == 0 else []}


_ARCH_CACHE: dict = {}


def _build_fault_source(i: int, sandbox: str):
    source = fault_source(i)
    src_path, _ = build_source(source, "top", os.path.join(sandbox, "src"))
    return source, src_path


def fault_archive(i: int, producer: str):
    """(archive bytes | None, source snapshot, source kind) - cached per process. Synchronous variant for the
    enumeration (no loop is running there; the async writer is driven on a private deterministic loop)."""
    key = (i, producer)
    if key not in _ARCH_CACHE:
        import shutil
        import tempfile

        sandbox = os.path.realpath(tempfile.mkdtemp(prefix="vf-c23f-"))
        try:
            source, src_path = _build_fault_source(i, sandbox)
            if producer == "aio-gnu":
                from vf.engine import detloop

                data = detloop.run(aio_write(src_path, "top", 4096))
            else:
                data = make_archive(producer, src_path)
            _ARCH_CACHE[key] = (data, fs.snapshot(src_path, deref=True), source["kind"])
        finally:
            shutil.rmtree(sandbox, ignore_errors=True)
    return _ARCH_CACHE[key]


async def fault_archive_async(i: int, producer: str):
    """Same, callable from inside a check (used by --replay, where the enumeration did not run)."""
    key = (i, producer)
    if key not in _ARCH_CACHE:
        if producer != "aio-gnu":
            return fault_archive(i, producer)
        import shutil
        import tempfile

        sandbox = os.path.realpath(tempfile.mkdtemp(prefix="vf-c23f-"))
        try:
            source, src_path = _build_fault_source(i, sandbox)
            data = await aio_write(src_path, "top", 4096)
            _ARCH_CACHE[key] = (data, fs.snapshot(src_path, deref=True), source["kind"])
        finally:
            shutil.rmtree(sandbox, ignore_errors=True)
    return _ARCH_CACHE[key]


HEADER_FIELDS = {"name": 0, "mode": 101, "size": 134, "chksum": 150, "typeflag": 156, "magic": 258, "mtime": 140}


def gen_faults(tier):
    scale = float(os.environ.get("VERIF_BUDGET", "1"))
    n_arch = max(len(FIXED_SOURCES) + 2, int((20 if tier == "quick" else 1000) * scale))
    producers = PRODUCERS if tier == "quick" else PRODUCERS
    for i in range(n_arch):
        # quick: every archive with two producers (rotating), the hand-written ones with all
        prods = producers if (i < len(FIXED_SOURCES) or tier != "quick") else [producers[i % len(producers)], producers[(i * 3 + 1) % len(producers)]]
        if tier != "quick" and i >= 40:
            prods = [producers[i % len(producers)]]
        for producer in dict.fromkeys(prods):
            data, snap, kind = fault_archive(i, producer)
            if data is None:
                continue
            ents, eoa = raw_entries(data)
            modes = ["absent", "into-dir"] if kind == "file" else ["absent"]
            for mode in modes:
                base = {"arch": i, "producer": producer, "mode": mode}
                for k in range(len(ents)):
                    for cls in ("header-start", "mid-header", "data-start", "mid-data", "data-end", "mid-pad"):
                        yield dict(base, fault="trunc", entry=k, cls=cls)
                    for field in HEADER_FIELDS:
                        yield dict(base, fault="flip", entry=k, cls=field)
                    yield dict(base, fault="flip", entry=k, cls="data")
                for cls in ("eoa-start", "eoa-mid-first", "eoa-one-block", "eoa-mid-second", "eoa-both", "record-pad"):
                    yield dict(base, fault="trunc", entry=-1, cls=cls)


def _fault_offset(case, ents, eoa, data) -> int | None:
    cls, k = case["cls"], case["entry"]
    if k >= 0:
        e = ents[k]
        if case["fault"] == "trunc":
            pad = e["padded"] - e["end"]
            return {
                "header-start": e["hdr"],
                "mid-header": e["hdr"] + 257,
                "data-start": e["data"] if e["size"] > 0 else None,
                "mid-data": e["data"] + e["size"] // 2 if e["size"] >= 2 else None,
                "data-end": e["end"] if pad > 0 and e["size"] > 0 else None,
                "mid-pad": e["end"] + pad // 2 if pad >= 2 else None,
            }[cls]
        if cls == "data":
            return e["data"] + e["size"] // 2 if e["size"] > 0 else None
        return e["hdr"] + HEADER_FIELDS[cls]
    return {
        "eoa-start": eoa, "eoa-mid-first": eoa + 256, "eoa-one-block": eoa + 512, "eoa-mid-second": eoa + 768,
        "eoa-both": eoa + 1024 if eoa + 1024 < len(data) else None,
        "record-pad": eoa + 1024 + (len(data) - eoa - 1024) // 2 if len(data) - eoa - 1024 >= 2 else None,
    }[cls]


@prop.enumerated("faults", gen_faults)
async def check_faults(case, rec):
    import shutil
    import tempfile

    data, snap, kind = await fault_archive_async(case["arch"], case["producer"])
    ents, eoa = raw_entries(data)
    off = _fault_offset(case, ents, eoa, data)
    rec.label(f"{case['fault']}:{case['cls']}", f"producer:{case['producer']}", f"mode:{case['mode']}")
    if off is None:
        rec.label("fault:not-applicable")
        return
    e = ents[case["entry"]] if case["entry"] >= 0 else None
    etype = "ext" if e is not None and e["type"] in "LKxg" else "member" if e is not None else "eoa"
    rec.label(f"entry:{etype}")
    want = {k: tuple(v) for k, v in snap.items()}
    alt = None  # second acceptable outcome: the data flip, faithfully copied
    if case["fault"] == "trunc":
        faulty = data[:off]
    else:
        b = bytearray(data)
        b[off] ^= 0x01
        faulty = bytes(b)
        if case["cls"] == "data":
            if etype == "member":
                # which file is it? the reference reader tells the name; the flipped content is computed here
                with tarfile.open(fileobj=io.BytesIO(data), mode="r:") as tf:
                    m = next((m for m in tf.getmembers() if m.offset_data == e["data"]), None)
                if m is not None and m.isreg():
                    rel = posixpath.relpath(m.name, "top")
                    body = bytearray(data[e["data"] : e["end"]])
                    body[off - e["data"]] ^= 0x01
                    sha = hashlib.sha1(bytes(body), usedforsecurity=False).hexdigest()
                    alt = {k: ((v[0], v[1], sha) if k == rel and v[0] == "f" else v) for k, v in want.items()}
                    # hard links to the flipped member share its new content
                    with tarfile.open(fileobj=io.BytesIO(data), mode="r:") as tf:
                        for lm in tf.getmembers():
                            if lm.islnk() and lm.linkname == m.name:
                                r2 = posixpath.relpath(lm.name, "top")
                                alt[r2] = (alt[r2][0], alt[r2][1], sha)
            else:
                # payload of a long-name / pax extension entry: tar cannot detect it and what it now *means* is
                # whatever a reference reader says
                alt = "reference"
    sandbox = os.path.realpath(tempfile.mkdtemp(prefix="vf-c23f-"))
    try:
        out_root = os.path.join(sandbox, "out")
        dst, final_rel, skeleton = prepare_dst(case["mode"], out_root, "top")
        expected = dict(skeleton)
        expected.update(relocate(want, final_rel))
        rec.nontrivial(e is not None)
        group = _fault_group(case, e)
        try:
            await extract_with(faulty, {"kind": "n"}, "/remote/top", dst, 4096)
        except HangDetected as h:
            raise Violation(f"C23:{group}:hang", f"{case}: offset {off} of {len(data)}: {h}") from None
        except ACCEPTED:
            rec.label("outcome:raises")
            return
        except LookupError as err:
            # a flipped byte in the payload of a GNU long-link / pax entry renames a hard link's target: the
            # reader fails with tarfile's own KeyError("linkname ... not found") - the copy fails, which is all
            # the statement asks for an undetectable payload corruption
            if alt == "reference":
                rec.label(f"outcome:raises:{type(err).__name__}")
                return
            raise
        got = fs.snapshot(out_root)
        if got == expected:
            rec.label("outcome:exact")
            return
        if isinstance(alt, dict):
            exp2 = dict(skeleton)
            exp2.update(relocate(alt, final_rel))
            if got == exp2:
                rec.label("outcome:data-flip-copied")
                return
        if alt == "reference":
            ref = reference_snapshot(faulty, final_rel)
            if ref is None:
                rec.label("outcome:ext-payload-flip:reference-rejects")
                return
            exp2 = dict(skeleton)
            exp2.update(ref)
            if got == exp2:
                rec.label("outcome:ext-payload-flip:as-reference")
                return
            expected = exp2
        missing = sorted(set(expected) - set(got))
        changed = sorted(k for k in set(expected) & set(got) if tuple(expected[k]) != tuple(got[k]))
        extra = sorted(set(got) - set(expected))
        sym = "partial-file" if changed else "members-missing" if missing and not extra else "differs"
        raise Violation(
            f"C23:{group}:silent-{sym}",
            f"{case}: offset {off} of {len(data)} bytes ({len(ents)} raw entries): extract_tar_stream returned normally\n" + fs.diff_snapshots(expected, got),
        )
    finally:
        shutil.rmtree(sandbox, ignore_errors=True)


def reference_snapshot(archive: bytes, final_rel: str) -> dict | None:
    """What the archive *says*, according to CPython's tarfile, placed the way extract_tar_stream places
    members (path relative to the first component "top"). None = the reference reader rejects it."""
    snap: dict = {}
    try:
        with tarfile.open(fileobj=io.BytesIO(archive), mode="r:") as tf:
            members = tf.getmembers()
            by_name = {m.name: m for m in members}
            for m in members:
                rel = posixpath.normpath(posixpath.join(final_rel, posixpath.relpath(m.name, "top")))
                parts = rel.split("/")
                for d in range(1, len(parts)):
                    snap.setdefault("/".join(parts[:d]), ("d", 0, None))
                if m.isdir():
                    snap[rel] = ("d", 0, None)
                elif m.isreg() or m.islnk():
                    src = m if m.isreg() else by_name.get(m.linkname)
                    if src is None:
                        return None
                    body = tf.extractfile(src).read()
                    snap[rel] = ("f", src.mode & 0o111, hashlib.sha1(body, usedforsecurity=False).hexdigest())
    except (tarfile.TarError, OSError, EOFError, ValueError):
        return None
    return snap


def _fault_group(case, e) -> str:
    """Root-cause bucket of a fault position."""
    if case["fault"] == "flip":
        if case["cls"] == "data":
            return "flip:data" if e["type"] not in "LKxg" else "flip:ext-payload"
        return "flip:first-header" if e["hdr"] == 0 else "flip:later-header"
    cls = case["cls"]
    if cls in ("data-start", "mid-data"):
        return "truncated:in-data" if e["type"] not in "LKxg" else "truncated:in-ext-payload"
    if cls == "mid-header":
        return "truncated:in-first-header" if e["hdr"] == 0 else "truncated:in-later-header"
    if cls in ("data-end", "mid-pad"):
        return "truncated:at-entry-boundary"  # data complete, padding (partly) lost: the next header read finds nothing
    if cls == "header-start":
        return "truncated:empty-stream" if e["hdr"] == 0 else "truncated:at-entry-boundary"
    return "truncated:end-of-archive"


# ------------------------------------------------------------------------------------------------
# coverage-guided fuzzing (thorough tier only; atheris from /verif/.deps)


def gen_fuzz(tier):
    if tier != "thorough":
        return
    scale = float(os.environ.get("VERIF_BUDGET", "1"))
    seed = int(os.environ.get("VERIF_SEED", "1") or "1")
    runs = max(2000, int(125_000 * scale))
    for j in range(16):  # 16 x 125k = 2e6 executions, half of the jobs start from an empty corpus
        yield {"corpus": "seeded" if j % 2 == 0 else "empty", "runs": runs, "seed": seed * 100 + j}


@prop.enumerated("fuzz", gen_fuzz, exhaustive=False)
def check_fuzz(case, rec):
    """vf/fuzz/fuzz_tar_read.py: bytes -> chunked stream -> AioTarStream, differential against tarfile."""
    import json
    import shutil
    import sys
    import tempfile

    verif = os.path.dirname(os.path.dirname(os.path.dirname(os.path.abspath(__file__))))
    repo = os.environ.get("VERIF_REPO", "/repo")
    d = tempfile.mkdtemp(prefix="vf-c23fuzz-")
    try:
        corpus = os.path.join(d, "corpus")
        os.makedirs(corpus)
        cmd = [sys.executable, "-m", "vf.fuzz.fuzz_tar_read", "--stats", os.path.join(d, "stats.json")]
        if case["corpus"] == "seeded":
            cmd += ["--seed-corpus", corpus]
        cmd += [f"-runs={case['runs']}", f"-seed={case['seed']}", "-max_len=20000", f"-artifact_prefix={d}/", corpus]
        env = dict(os.environ, PYTHONPATH=f"{verif}/.deps:{repo}:{verif}")
        p = subprocess.run(cmd, cwd=d, env=env, stdout=subprocess.PIPE, stderr=subprocess.STDOUT)
        out = p.stdout.decode("utf-8", "replace")
        if "No module named 'atheris'" in out or "cannot import name" in out and "atheris" in out:
            rec.label("fuzz:atheris-unavailable")
            raise HarnessError("atheris is not importable from /verif/.deps: " + out[-400:])
        stats = {}
        if os.path.exists(os.path.join(d, "stats.json")):
            stats = json.load(open(os.path.join(d, "stats.json")))
        rec.label(f"fuzz:corpus-{case['corpus']}")
        rec.bulk(evaluations=stats.get("executions", 0), nontrivial=stats.get("multi_member", 0))
        if p.returncode != 0:
            kind = "unknown"
            for line in out.splitlines():
                if line.startswith("C23-FUZZ-VIOLATION"):
                    kind = line.split()[1]
            crash = [f for f in os.listdir(d) if f.startswith(("crash-", "timeout-", "oom-"))]
            blob = open(os.path.join(d, crash[0]), "rb").read().hex() if crash else ""
            if kind == "unknown" and "Uncaught Python exception" not in out:
                raise HarnessError("fuzzer failed: " + out[-1500:])
            raise Violation(f"C23:fuzz:{kind}", out[-1200:] + "\ninput(hex, first byte = policy): " + blob[:4000])
    finally:
        shutil.rmtree(d, ignore_errors=True)
