"""C32 Remapping CWL File/Directory values between directories is lossless.

The *case is the CWL value itself* (plus the two directories), so a replay file shows exactly what was
passed to ``remap_token_value``. Oracle (independent of the implementation):

* forward: every ``path`` / plain ``location`` under ``old_dir`` becomes ``new_dir`` + the *same* relative
  name (string surgery on the prefix, no normalisation needed because generated paths are normalised);
  a ``file://`` location must *denote* the moved path (compared after decoding: which characters the
  intermediate URL escapes is not promised by the property); other schemes, non-file values and the
  structure are unchanged;
* round trip: ``remap(remap(v, old, new), new, old) == v`` exactly (this is where a file:// location that
  was decoded but not encoded again shows up).

Each root cause has its own violation kind; a mismatch is attributed to a root cause only if that
hypothesis predicts the observed string exactly, everything else is a generic mismatch.
"""
from __future__ import annotations

import copy
import itertools
import posixpath
import re
from urllib.parse import quote, unquote

from hypothesis import strategies as st

from vf.core import HarnessError, Prop, Violation

prop = Prop(
    "C32",
    level="exploration",
    technique="Hypothesis PBT with a prefix-substitution reference and a round trip, plus an enumerated name alphabet",
    rule=(
        "values: nesting depth <= 4 of arrays / records / File / Directory (path and/or location; location plain, "
        "file:// percent-encoded, or http/https/s3/ftp), secondaryFiles, listing with children under the directory or - "
        "class 'assembled-directory-listing' - Directory literals whose listing entries (Files, nested Directories, with "
        "secondaryFiles) live elsewhere below old_dir, "
        "non-file leaves of every JSON type incl. path-looking strings; names over letters, digits, space, % (lone, "
        "%zz, %20, %41, %2F, %25, %C3%A9), # ? & + = ' \" : ; ~ \\ unicode; old/new directories absolute, distinct, not "
        "nested, some with spaces / unicode / percent. Non-trivial = >= 1 File/Directory nested under an array or record "
        "whose name has a character outside [A-Za-z0-9._-]; distinct by the whole case. names-exhaustive: every name of "
        "length 1..3 over a 13-character alphabet x {path, plain location, file:// location} x {top level, in a "
        "directory whose name ends with ':'}; non-trivial = the name is not plain."
    ),
    level_text="Random search plus an exhaustive small name space; forward result compared with the reference in both directions, then the round trip.",
    level_note="Paths are normalised absolute paths strictly below old_dir, as produced by the callers (CWL runtime values); posixpath processor.",
    assumptions=[
        "paths are normalised (no '.', '..', '//' or trailing '/') and strictly below old_dir",
        "file:// locations are percent-encoded the way the repository encodes them (urllib.parse.quote)",
    ],
)

PLAIN_NAME = re.compile(r"^[A-Za-z0-9._-]+$")
URL_SCHEME = re.compile(r"^[A-Za-z][A-Za-z0-9+.-]*://")

K_COLON = "C32:plain-path-containing-colon-slash-left-unmapped"
K_DECODED = "C32:plain-path-percent-decoded"
K_REQUOTE = "C32:file-url-not-re-encoded"


# ---- reference ----------------------------------------------------------------------------------


def _move(path: str, old: str, new: str) -> str:
    if not path.startswith(old + "/"):
        raise HarnessError(f"generator: {path!r} is not strictly below {old!r}")
    return new + path[len(old):]


def exp_string(s: str, old: str, new: str) -> str:
    if s.startswith("file://"):
        return "file://" + quote(_move(unquote(s[7:]), old, new))
    if URL_SCHEME.match(s):
        return s
    return _move(s, old, new)


def expected(value, old, new):
    if isinstance(value, list):
        return [expected(v, old, new) for v in value]
    if isinstance(value, dict):
        if value.get("class") in ("File", "Directory"):
            out = dict(value)
            for k in ("path", "location"):
                if k in out:
                    out[k] = exp_string(out[k], old, new)
            for k in ("secondaryFiles", "listing"):
                if k in out:
                    out[k] = [expected(v, old, new) for v in out[k]]
            return out
        return {k: expected(v, old, new) for k, v in value.items()}
    return value


def _attribute(orig: str, got, old: str, new: str):
    """root cause whose prediction equals the observed string, else None"""
    if not isinstance(got, str):
        return None
    if orig.startswith("file://"):
        try:
            moved = _move(unquote(orig[7:]), old, new)
        except HarnessError:
            return None
        if got == "file://" + moved and quote(moved) != moved:
            return K_REQUOTE
        return None
    if URL_SCHEME.match(orig):
        return None
    if ":/" in orig and got == orig:
        return K_COLON
    if unquote(orig) != orig and ":/" not in orig:
        if got == posixpath.join(new, *posixpath.relpath(unquote(orig), old).split("/")):
            return K_DECODED
    return None


def same_file_url(exp: str, got) -> bool:
    """both are file:// URLs denoting the same path (they may differ in which characters are escaped)"""
    return (isinstance(got, str) and exp.startswith("file://") and got.startswith("file://")
            and unquote(got[7:]) == unquote(exp[7:]))


def diffs(orig, exp, got, old, new, where="$", exact_urls=True):
    """yield (kind or None, message) for every place where got differs from exp"""
    if isinstance(exp, list):
        if not isinstance(got, list) or len(got) != len(exp):
            yield None, f"{where}: expected a list of {len(exp)}, got {got!r}"
            return
        for i, (o, e, g) in enumerate(zip(orig, exp, got)):
            yield from diffs(o, e, g, old, new, f"{where}[{i}]", exact_urls)
    elif isinstance(exp, dict):
        if not isinstance(got, dict) or list(got.keys()) != list(exp.keys()):
            if not isinstance(got, dict) or set(got.keys()) != set(exp.keys()):
                yield None, f"{where}: keys {list(exp)} expected, got {got!r}"
                return
        is_file = exp.get("class") in ("File", "Directory")
        for k in exp:
            if is_file and k in ("path", "location"):
                if got[k] != exp[k] and (exact_urls or not same_file_url(exp[k], got[k])):
                    yield _attribute(orig[k], got[k], old, new), (
                        f"{where}.{k}: {orig[k]!r} -> {got[k]!r}, expected {exp[k]!r} (old_dir {old!r}, new_dir {new!r})")
            else:
                yield from diffs(orig[k], exp[k], got[k], old, new, f"{where}.{k}", exact_urls)
    else:
        if type(got) is not type(exp) or got != exp:
            yield None, f"{where}: {orig!r} -> {got!r}, expected unchanged"


def judge(problems, generic_kind):
    """unattributed mismatches first (they are never known findings), then the root causes in a fixed order"""
    if not problems:
        return
    for kind, msg in problems:
        if kind is None:
            raise Violation(generic_kind, msg)
    for k in (K_COLON, K_DECODED, K_REQUOTE):
        for kind, msg in problems:
            if kind == k:
                raise Violation(kind, msg)


def files_of(value, nested=False):
    """(file dict, nested under array/record) for every File/Directory in the value"""
    if isinstance(value, list):
        for v in value:
            yield from files_of(v, True)
    elif isinstance(value, dict):
        if value.get("class") in ("File", "Directory"):
            yield value, nested
            for k in ("secondaryFiles", "listing"):
                for v in value.get(k, []):
                    yield from files_of(v, True)
        else:
            for v in value.values():
                yield from files_of(v, True)


def run(case, rec):
    from streamflow.cwl.utils import remap_token_value

    old, new, value = case["old"], case["new"], case["value"]
    exp = expected(value, old, new)
    fwd = remap_token_value(posixpath, old, new, copy.deepcopy(value))
    # classification, before any verdict
    labels = set()
    hostile_nested = False
    for f, nested in files_of(value):
        strings = [f[k] for k in ("path", "location") if k in f]
        for s in strings:
            if s.startswith("file://"):
                labels.add("file-url")
                name = posixpath.basename(unquote(s[7:]))
            elif URL_SCHEME.match(s):
                labels.add("other-scheme")
                continue
            else:
                labels.add("plain")
                name = posixpath.basename(s)
                if ":/" in s:
                    labels.add("plain-with-colon-slash")
                if unquote(s) != s:
                    labels.add("plain-with-percent-escape")
            if not PLAIN_NAME.match(name):
                labels.add("hostile-name")
                if nested:
                    hostile_nested = True
        if "secondaryFiles" in f:
            labels.add("secondaryFiles")
        if f.get("listing"):
            labels.add("listing")
            own = _primary(f)
            for e in f["listing"]:
                q = _primary(e) if isinstance(e, dict) else None
                if own is not None and q is not None and not q.startswith(own + "/"):
                    labels.add("assembled-directory-listing")
                    labels.add("assembled-directory-listing:dir-has-" + ("path" if "path" in f else "location-only"))
                    if e.get("class") == "Directory":
                        labels.add("assembled-directory-listing:nested-directory")
                    if e.get("secondaryFiles"):
                        labels.add("assembled-directory-listing:entry-with-secondaryFiles")
    problems = list(diffs(value, exp, fwd, old, new, exact_urls=False))
    generic = "C32:forward-mismatch"
    back = None
    if not problems:
        back = remap_token_value(posixpath, new, old, copy.deepcopy(fwd))
        # `value` is the expected result of the way back; its forward image is what was remapped
        problems = list(diffs(fwd, value, back, new, old))
        generic = "C32:round-trip-mismatch"
    labels.add("verdict-clean" if not problems else "verdict-mismatch")
    if not problems and hostile_nested:
        labels.add("verdict-clean-and-nontrivial")
    rec.label(*sorted(labels))
    rec.nontrivial(hostile_nested)
    judge(problems, generic)
    if back != value:
        raise Violation("C32:round-trip-mismatch", f"{value!r} -> {fwd!r} -> {back!r}")


# ---- strategies ---------------------------------------------------------------------------------

SAFE_ATOMS = ["a", "b", "Z", "0", "7", ".", "-", "_", " ", "#", "?", "&", "+", "=", "'", '"', ";", "~", "\\", "é", "日", "%",
              "%zz", "% ", "100%", "x.txt", ".tar.gz", "data", "(1)", "[x]", "{y}", "*", "$HOME", "`", "|", "<", ">", "!", "@", ",", "a:b", "::x"]
ESCAPES = ["%20", "%41", "%2F", "%25", "%C3%A9", "%2f", "%7E", "%3A"]


def name_strategy(hostile: bool):
    atoms = st.sampled_from(SAFE_ATOMS + (ESCAPES * 3 if hostile else []))
    return st.lists(atoms, min_size=1, max_size=4).map("".join).filter(lambda s: s not in (".", ".."))


def dir_comp_strategy(hostile: bool):
    base = name_strategy(hostile)
    if hostile:
        return st.one_of(base, base, st.sampled_from(["d:", "c:", "proto:"]))
    return base


OLD_DIRS = ["/old", "/data/in put", "/tmp/streamflow/üñí", "/w/100%", "/home/u/wf"]
NEW_DIRS = ["/new", "/scratch/job 1", "/tmp/sf/日本", "/remote/w%", "/mnt/x/y/z"]
HOSTILE_DIRS = ["/enc/a%20b", "/e/%41"]
OTHER_URLS = ["http://example.com/old/a%20b.txt", "https://h/old/x", "s3://bucket/old/k%41", "ftp://h/data/in put/f",
              "http://example.com/new/y", "gs://b/o:/x"]
LEAVES = st.one_of(
    st.none(), st.booleans(), st.integers(-5, 5), st.floats(allow_nan=False, allow_infinity=False, width=16),
    st.sampled_from(["", "text", "/old/not-a-file.txt", "file:///old/x", "/data/in put/s", "a%20b"]),
)


def _primary(f):
    """decoded local path a File/Directory value denotes (None for other URL schemes)"""
    s = f.get("path", f.get("location"))
    if s is None:
        return None
    if s.startswith("file://"):
        return unquote(s[7:])
    return None if URL_SCHEME.match(s) else s


@st.composite
def file_value(draw, base: str, hostile: bool, depth: int, directory=None, root=None):
    """a File or Directory whose path is base/<name>; `root` is the old_dir every path must stay below"""
    root = root or base
    is_dir = draw(st.booleans()) if directory is None else directory
    name = draw(dir_comp_strategy(hostile) if is_dir else name_strategy(hostile))
    sub = draw(st.lists(dir_comp_strategy(hostile), min_size=0, max_size=2)) if depth == 0 else []
    path = "/".join([base, *sub, name])
    out = {"class": "Directory" if is_dir else "File"}
    form = draw(st.sampled_from(["path", "location-plain", "location-url", "both-url", "both-plain", "remote"]))
    if form == "remote":
        out["location"] = draw(st.sampled_from(OTHER_URLS))
        out["basename"] = name
        return out
    if form in ("path", "both-url", "both-plain"):
        out["path"] = path
    if form in ("location-plain", "both-plain"):
        out["location"] = path
    if form in ("location-url", "both-url"):
        out["location"] = "file://" + quote(path)
    out["basename"] = name
    if not is_dir:
        if draw(st.booleans()):
            nameroot, ext = posixpath.splitext(name)
            out.update({"nameroot": nameroot, "nameext": ext, "size": draw(st.integers(0, 99)),
                        "checksum": "sha1$da39a3ee5e6b4b0d3255bfef95601890afd80709"})
        if depth < 3 and draw(st.integers(0, 3)) == 0:
            out["secondaryFiles"] = draw(st.lists(file_value(posixpath.dirname(path), hostile, depth + 1, root=root), min_size=0, max_size=2))
    else:
        if depth < 3 and draw(st.integers(0, 2)) <= (1 if depth == 0 else 0):
            # "own": the entries live beneath the Directory (what a directory scan gives); "assembled": a Directory
            # literal that lists entries living elsewhere below old_dir (CWL allows it: expressions, InitialWorkDir
            # listings); "mixed": both
            mode = draw(st.sampled_from(["own", "own", "assembled", "assembled", "mixed"]))
            entries = []
            for _ in range(draw(st.integers(0, 3))):
                if mode == "own" or (mode == "mixed" and draw(st.booleans())):
                    ebase = path
                else:
                    ebase = draw(st.sampled_from([root, posixpath.dirname(path), root + "/elsewhere", root + "/other dir/deep"]))
                e = draw(file_value(ebase, hostile, depth + 1, root=root))
                if _primary(e) != path:
                    entries.append(e)
            out["listing"] = entries
    return out


def value_strategy(base: str, hostile: bool):
    f = file_value(base, hostile, 0)
    return st.recursive(
        st.one_of(f, f, f, LEAVES),
        lambda inner: st.one_of(
            st.lists(inner, min_size=0, max_size=3),
            st.dictionaries(st.sampled_from(["a", "b", "inp", "class_", "path", "location", "listing"]), inner, max_size=3),
            st.fixed_dictionaries({"class": st.just("Other"), "path": st.just(base + "/kept"), "v": inner}),
        ),
        max_leaves=8,
    )


@st.composite
def case_strategy(draw):
    hostile = draw(st.booleans())
    old = draw(st.sampled_from(OLD_DIRS + (HOSTILE_DIRS if hostile else [])))
    new = draw(st.sampled_from(NEW_DIRS + (HOSTILE_DIRS if hostile else [])).filter(lambda d: d != old))
    value = draw(value_strategy(old, hostile))
    if not any(True for _ in files_of(value)):
        # a value without any File says nothing about remapping: keep it as a sibling of a File
        value = [draw(file_value(old, hostile, 0)), value]
    return {"old": old, "new": new, "value": value}


@prop.given("values", case_strategy(), quick=3000, thorough=120000)
def check_values(case, rec):
    run(case, rec)


# ---- remap_path alone ----------------------------------------------------------------------------


@st.composite
def path_case(draw):
    hostile = draw(st.booleans())
    old = draw(st.sampled_from(OLD_DIRS + (HOSTILE_DIRS if hostile else [])))
    new = draw(st.sampled_from(NEW_DIRS + (HOSTILE_DIRS if hostile else [])).filter(lambda d: d != old))
    comps = draw(st.lists(dir_comp_strategy(hostile), min_size=0, max_size=3)) + [draw(name_strategy(hostile))]
    form = draw(st.sampled_from(["plain", "plain", "file-url", "other"]))
    path = "/".join([old, *comps])
    s = path if form == "plain" else "file://" + quote(path) if form == "file-url" else draw(st.sampled_from(OTHER_URLS))
    return {"old": old, "new": new, "path": s}


@prop.given("single-path", path_case(), quick=6000, thorough=240000, max_shards=8)
def check_single_path(case, rec):
    from streamflow.cwl.utils import remap_path

    old, new, s = case["old"], case["new"], case["path"]
    exp = exp_string(s, old, new)
    got = remap_path(posixpath, s, old, new)
    kind = "file-url" if s.startswith("file://") else "other-scheme" if URL_SCHEME.match(s) else "plain"
    name = posixpath.basename(unquote(s[7:]) if kind == "file-url" else s)
    rec.label(kind, *(["percent-escape"] if unquote(s) != s and kind != "other-scheme" else []),
              *(["colon-slash"] if kind == "plain" and ":/" in s else []))
    rec.nontrivial(kind != "other-scheme" and not PLAIN_NAME.match(name))
    if got != exp and not same_file_url(exp, got):
        k = _attribute(s, got, old, new)
        raise Violation(k or "C32:forward-mismatch", f"remap_path({s!r}, {old!r}, {new!r}) = {got!r}, expected {exp!r}")
    back = remap_path(posixpath, got, new, old)
    if back != s:
        k = _attribute(got, back, new, old)
        raise Violation(k or "C32:round-trip-mismatch", f"{s!r} -> {got!r} -> {back!r}")


# ---- exhaustive small name space -----------------------------------------------------------------

ALPHABET = ["a", "%", "2", "0", "4", "1", " ", "#", "?", ":", "é", ".", "F"]


def gen_names(tier):
    for n in (1, 2, 3):
        for first in ALPHABET:
            for parent in ("", "/d:"):
                for form in ("path", "location", "url"):
                    yield {"prefix": first, "n": n, "parent": parent, "form": form}


@prop.enumerated("names-exhaustive", gen_names, max_shards=4)
def check_names(case, rec):
    from streamflow.cwl.utils import remap_token_value

    old, new = "/old", "/new"
    parent, form = case["parent"], case["form"]
    names = [case["prefix"] + "".join(t) for t in itertools.product(ALPHABET, repeat=case["n"] - 1)]
    evaluations = nontrivial = 0
    first_problem = {}
    for name in names:
        if name in (".", ".."):
            continue
        path = f"{old}{parent}/{name}"
        key = "path" if form == "path" else "location"
        value = [{"class": "File", key: path if form != "url" else "file://" + quote(path), "basename": name}]
        exp = expected(value, old, new)
        fwd = remap_token_value(posixpath, old, new, copy.deepcopy(value))
        problems = list(diffs(value, exp, fwd, old, new, exact_urls=False))
        generic = "C32:forward-mismatch"
        if not problems:
            back = remap_token_value(posixpath, new, old, copy.deepcopy(fwd))
            problems = list(diffs(fwd, value, back, new, old))
            generic = "C32:round-trip-mismatch"
        evaluations += 1
        nontrivial += not PLAIN_NAME.match(name)
        for kind, msg in problems:
            first_problem.setdefault(kind or generic, msg)
    rec.bulk(evaluations=evaluations, nontrivial=nontrivial)
    rec.label(f"{form}{'-under-colon-dir' if parent else ''}")
    # unattributed first; each block holds one (form, parent) so that one root cause does not hide another
    for k in ("C32:forward-mismatch", "C32:round-trip-mismatch", K_COLON, K_DECODED, K_REQUOTE):
        if k in first_problem:
            raise Violation(k, first_problem[k])
