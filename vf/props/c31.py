"""C31 Expression dependency analysis covers every input an expression reads.

Differential check: the static dependency set computed by ``streamflow.cwl.utils.resolve_dependencies``
(called exactly as ``cwl/translator.py`` calls it: ``expression=…, full_js=…, expression_lib=…``) against the
set of first-level fields of ``inputs`` actually read when the same expression string is evaluated the way
``streamflow.cwl.utils.eval_expression`` evaluates it (``cwl_utils.expression.interpolate``), with
``inputs`` replaced by a recording object: a JavaScript ``Proxy`` inside a long-lived ``node`` child for the
JavaScript path (``vf/js/evalproxy.js``), a recording ``dict`` for cwl_utils' pure-Python
parameter-reference path.

Oracle (only for evaluations that succeeded): ``resolve_dependencies`` does not raise, and
``reads ∩ fields(inputs) ⊆ deps``. Extra dependencies are never a violation.
"""
from __future__ import annotations

import contextlib
import io
import os
import traceback

from vf.core import Prop, Violation
from vf.js import exprgen

prop = Prop(
    "C31",
    level="exploration",
    technique=(
        "grammar-based Hypothesis generation of CWL expression strings + differential oracle: static dependency set "
        "vs. property reads recorded by a JavaScript Proxy (node child) / recording dict under cwl_utils' own evaluation path"
    ),
    rule=(
        "Cases are expression strings rendered from drawn grammar choices (parameter references, `$(...)` ES5 expressions, "
        "`${...}` function bodies, multi-segment interpolation, expressionLib) together with an inputs object that makes "
        "them evaluate. A case counts only if its evaluation succeeded. Non-trivial = the evaluation really read at least "
        "one field of inputs that the text reaches through something other than a literal `inputs.name` (quoted bracket "
        "key, alias variable, nested function, interpolation segment, library function, ...); distinct by the whole case."
    ),
    level_text=(
        "Random search over a grammar of ES5 expression shapes with measured class histogram; the reference is an actual "
        "instrumented evaluation, so every reported miss is a field the expression really read."
    ),
    level_note=(
        "Only the generated shapes are covered (no proof over all of ES5). Reads are first-level fields of `inputs` that exist "
        "in the inputs object; presence tests (`in`, hasOwnProperty) are not counted as reads. Non-constant computed keys and "
        "whole-object uses are judged in their own sub-check (js-dynamic) and never folded into the plain verdict."
    ),
    assumptions=[
        "expressions are ES5 (cwl's engine level) and are evaluated in strict mode inside `(function(){...})()` with `inputs`, "
        "`self`, `runtime` as script-level variables, as cwl_utils.sandboxjs.code_fragment_to_js / jshead do",
        "node's evaluation of the generated ES5 subset is the reference semantics",
    ],
)


def _setup():
    from vf import js

    js.child()


def _teardown():
    from vf import js

    js.shutdown()


# priority when a missed field is reachable through several forms: a plain form wins (it alone should have
# been enough for the analysis to see the field)
FORM_ORDER = ["dot", "sq", "dq", "pr-dot", "pr-sq", "pr-dq", "alias-assign", "reserved-word", "key-escape",
              "alias-var-init", "alias-chained", "alias-call-arg", "alias-nested-fn", "alias-flow", "indirect-base",
              "computed-const", "numeric-index", "computed-nonconst", "whole-object"]
FORM_KIND = {
    "dot": "literal-dot-access", "sq": "literal-bracket-access", "dq": "literal-bracket-access",
    "pr-dot": "parameter-reference", "pr-sq": "parameter-reference-quoted-key", "pr-dq": "parameter-reference-quoted-key",
    "alias-assign": "alias-by-assignment",
}


def _crash_kind(exc: BaseException) -> str:
    """Root-cause bucket of an exception escaping resolve_dependencies: type + innermost repository frame."""
    repo = os.environ.get("VERIF_REPO", "/repo")
    where = "outside-repo"
    for frame, _ in traceback.walk_tb(exc.__traceback__):
        fn = frame.f_code.co_filename
        if fn.startswith(repo + "/streamflow"):
            where = frame.f_code.co_name
    return f"C31:analysis-raises:{type(exc).__name__}@{where}"


def _analyse(case):
    from streamflow.cwl.utils import resolve_dependencies

    err = io.StringIO()
    with contextlib.redirect_stderr(err):  # ANTLR's console error listener prints syntax errors there
        deps = resolve_dependencies(expression=case["expr"], full_js=case["full_js"], expression_lib=case["lib"])
    return set(deps), err.getvalue()


def _judge(case, rec, dynamic: bool = False):
    from vf import js

    expr, inputs, acc = case["expr"], case["inputs"], case["acc"]
    ev = js.evaluate(expr, inputs, full_js=case["full_js"], expression_lib=case["lib"])
    rec.label("cls:" + case["cls"])
    if not ev["ok"]:
        # precondition of the property is false: nothing is claimed
        parts = [p.strip() for p in ev["error"].split(":")]
        rec.label("eval-failed", "eval-failed:" + ":".join(parts[:2])[:48])
        return None
    for f in case.get("feat", []):
        rec.label("feat:" + f)
    for p in sorted(set(ev["paths"])):
        rec.label("path:" + p)

    try:
        deps, antlr_err = _analyse(case)
    except Exception as e:  # noqa: BLE001
        kind = _crash_kind(e)
        rec.label("analysis-raised")
        _mark_nontrivial(case, rec, ev)
        raise Violation(
            kind,
            f"resolve_dependencies raised {type(e).__name__}: {str(e)[:200]} on an expression that evaluates to "
            f"{str(ev['result'])[:80]!r} (fields read: {ev['reads']})\nexpression: {expr}\nexpressionLib: {case['lib']}",
        ) from e
    if antlr_err:
        rec.label("antlr-syntax-error-reported")

    reads = [n for n in ev["reads"] if n in inputs]
    late = [n for n in ev["late"] if n in inputs]
    _mark_nontrivial(case, rec, ev)
    for n in reads:
        for f in acc.get(n, ["unclassified"]):
            rec.label("read-via:" + f)
    if not reads:
        rec.label("no-field-read")
    extra = deps - set(reads)
    if extra:
        rec.label("over-approximation")

    if dynamic:
        every = set(inputs) <= deps
        needed = reads + [n for n in late if n not in reads]
        missed = [n for n in needed if n not in deps]
        whole = ev["enumerated"] or bool(late)
        if whole:
            # whole-object uses (for-in, Object.keys, JSON.stringify, returning inputs): no static set of names can
            # describe them and no caller contract says what the analysis should return: reported, not judged
            rec.label("whole-object:" + ("covered" if not missed else "not-covered"))
            missed = [n for n in missed if "computed-nonconst" in acc.get(n, [])]
        if missed and not every:
            raise Violation(
                "C31:missed-dep:non-constant-key",
                f"fields {missed} are read through a key computed at run time; deps={sorted(deps)} is neither a superset of "
                f"the reads nor all of inputs {sorted(inputs)}\nexpression: {expr}",
            )
        rec.label("dynamic:covered")
        return deps

    missed = [n for n in reads if n not in deps]
    if missed:
        first = None
        for form in FORM_ORDER:
            hit = [n for n in missed if form in acc.get(n, [])]
            if hit:
                first = (form, hit)
                break
        if first is None:
            first = ("unclassified", missed)
        form, hit = first
        kind = "C31:missed-dep:" + FORM_KIND.get(form, form)
        raise Violation(
            kind,
            f"evaluation read inputs fields {reads} but resolve_dependencies returned {sorted(deps)}: missing {missed} "
            f"(field {hit[0]!r} is reached through: {acc.get(hit[0])})"
            + (f"\nANTLR reported: {antlr_err.strip()[:300]}" if antlr_err else "")
            + f"\nexpression: {expr}\nexpressionLib: {case['lib']}\nfull_js={case['full_js']} inputs={inputs}",
        )
    return deps


def _mark_nontrivial(case, rec, ev):
    acc = case["acc"]
    reads = [n for n in ev["reads"] + ev["late"] if n in case["inputs"]]
    indirect = any(set(acc.get(n, ["unclassified"])) - {"dot", "pr-dot"} for n in reads)
    several = len(ev["paths"]) >= 2
    rec.nontrivial(bool(reads) and (indirect or several or bool(case["lib"])))


# quick: ~35 ms of ANTLR parsing per JavaScript expression, ~0 for parameter references
@prop.given("param-refs", exprgen.param_ref_cases(), quick=1500, thorough=60000, setup=_setup, teardown=_teardown)
def check_param_refs(case, rec):
    _judge(case, rec)


@prop.given("js-plain", exprgen.js_plain_cases(), quick=1200, thorough=60000, setup=_setup, teardown=_teardown)
def check_js_plain(case, rec):
    _judge(case, rec)


@prop.given("js-shapes", exprgen.js_shape_cases(), quick=400, thorough=12000, setup=_setup, teardown=_teardown)
def check_js_shapes(case, rec):
    _judge(case, rec)


@prop.given("js-dynamic", exprgen.js_dynamic_cases(), quick=160, thorough=4000, setup=_setup, teardown=_teardown)
def check_js_dynamic(case, rec):
    _judge(case, rec, dynamic=True)
