"""C09 Database reads always reflect the latest writes.

Histories of add_* / update_* / get_* / "caller mutates a returned row" / concurrent batches over a ``SqliteDatabase``
on a *file* database; oracle = a fresh plain ``sqlite3`` connection to the same file (no cache), JSON columns decoded
the same way. Two back ends:

* ``det``: deterministic loop; ``aiosqlite.connect`` is replaced by a chaos adapter that keeps aiosqlite's ordering
  discipline (single worker, FIFO: a statement is executed when it is submitted, only the *delivery* of its result is
  delayed, by >= 1 loop turn plus a drawn number of turns; results are delivered in submission order);
* ``aiosqlite``: the real aiosqlite worker thread on a plain asyncio loop (validates the adapter; same interpreter).
"""
from __future__ import annotations

import asyncio
import json
import os
import shutil
import sqlite3
import tempfile

from hypothesis import strategies as st

from vf.core import Prop, Violation

prop = Prop(
    "C09",
    level="exploration",
    technique="Hypothesis PBT over operation histories, differential oracle: every read through the caching SqliteDatabase is compared with a fresh uncached sqlite3 connection to the same file",
    rule=(
        "histories of 1..30 operations (add / update with a drawn column subset / every get_* / read-update-read of one id / deep mutation of a "
        "previously returned row or listing of rows, followed by reads of every touched id through every getter / list-edit-read of a workflow's steps or ports / concurrent batch of gets and updates on the same one or two ids) over workflows, ports, steps, tokens, "
        "deployments, targets, filters, executions, dependencies and provenance, with ids chosen relative to the current state; "
        "a final sweep reads every entity through every getter (cached getters twice), then updates up to three rows per table and reads them back. Non-trivial = (measured) an update of a row whose cache entry was "
        "populated, followed by a read of the same id, or a caller mutation of a returned row followed by a read of the same id, "
        "or a batch in which a read and an update of the same id overlap; distinct by the whole case."
    ),
    level_text="Random search over histories and delivery schedules; the oracle is the database file itself read through an independent connection.",
    level_note=(
        "The harness commits the connection before the oracle reads (sqlite readers only see committed data; committing does not touch the cache). "
        "Reads issued while an update of the same row is in flight are only required to return a value composed of column values that were current at some "
        "point of the batch; the exact comparison is made once the batch has completed. Getter arguments are always ids / names of existing rows (callers never pass others)."
    ),
    assumptions=[
        "update_* receives raw column values (JSON columns as JSON text), ids are passed positionally as every caller does",
        "det back end: statements execute in submission order on a single worker and results are delivered in that order (aiosqlite's discipline)",
    ],
)
prop.engine = "detloop"

SENTINEL = "__vf_mut__"
CACHED = {"step": "get_step", "port": "get_port", "token": "get_token", "target": "get_target", "deployment": "get_deployment", "filter": "get_filter"}
ENTITY_TABLES = ["workflow", "port", "step", "token", "deployment", "target", "filter", "execution"]
UPD_TABLES = ["workflow", "port", "step", "deployment", "target", "filter", "execution"]
GETTERS = [
    "get_workflow", "get_workflows_by_name", "get_workflows_list", "get_workflow_ports", "get_workflow_steps", "get_reports",
    "get_port", "get_port_from_token", "get_port_tokens", "get_input_steps", "get_output_steps",
    "get_step", "get_input_ports", "get_output_ports", "get_executions_by_step",
    "get_token", "get_dependees", "get_dependers", "get_deployment", "get_target", "get_filter", "get_execution",
]
GETTER_TABLE = {
    "get_workflow": "workflow", "get_workflows_by_name": "workflow", "get_workflows_list": "workflow", "get_workflow_ports": "workflow",
    "get_workflow_steps": "workflow", "get_reports": "workflow", "get_port": "port", "get_port_from_token": "token", "get_port_tokens": "port",
    "get_input_steps": "port", "get_output_steps": "port", "get_step": "step", "get_input_ports": "step", "get_output_ports": "step",
    "get_executions_by_step": "step", "get_token": "token", "get_dependees": "token", "get_dependers": "token",
    "get_deployment": "deployment", "get_target": "target", "get_filter": "filter", "get_execution": "execution",
}
MAIN_GETTER = {"workflow": "get_workflow", "execution": "get_execution", **CACHED}
ORDERED = {"get_workflows_by_name", "get_workflows_list", "get_reports"}

# ------------------------------------------------------------------------------------------------
# strategies

vals = st.lists(st.integers(0, 255), max_size=10)
add_op = st.fixed_dictionaries({"o": st.just("add"), "t": st.sampled_from(ENTITY_TABLES + ["dependency", "provenance", "step", "port", "token"]), "v": vals})
upd_op = st.fixed_dictionaries({"o": st.just("upd"), "t": st.sampled_from(UPD_TABLES + ["step", "port", "target"]), "i": st.integers(0, 20), "v": vals})
get_op = st.fixed_dictionaries({"o": st.just("get"), "g": st.sampled_from(GETTERS + list(CACHED.values())), "i": st.integers(0, 20), "v": vals})
mut_op = st.fixed_dictionaries({"o": st.just("mut"), "k": st.integers(0, 5)})
lmr_op = st.fixed_dictionaries({"o": st.just("lmr"), "g": st.integers(0, 2), "i": st.integers(0, 20), "v": vals})
gug_op = st.fixed_dictionaries({"o": st.just("gug"), "t": st.sampled_from(UPD_TABLES), "i": st.integers(0, 20), "v": vals})
batch_item = st.fixed_dictionaries({"k": st.sampled_from(["get", "upd", "get", "upd", "get2"]), "j": st.integers(0, 1), "v": vals})
batch_op = st.fixed_dictionaries(
    {"o": st.just("batch"), "t": st.sampled_from(["step", "step", "port", "target", "deployment", "filter", "workflow", "token"]), "i": st.integers(0, 20),
     "items": st.lists(batch_item, min_size=2, max_size=5)}
)
history = st.builds(
    lambda first, rest: [first, *rest],
    add_op,  # a history on an empty database starts by creating something
    st.lists(st.one_of(add_op, add_op, upd_op, upd_op, get_op, get_op, get_op, mut_op, batch_op, gug_op, lmr_op), max_size=29),
)
det_case = st.fixed_dictionaries({"ops": history, "schedule": st.lists(st.integers(0, 3), max_size=10)})
aio_case = st.fixed_dictionaries({"ops": history})


# ------------------------------------------------------------------------------------------------
# chaos adapter (det back end)


class _ChaosState:
    chaos = None


class CCursor:
    def __init__(self, conn, cur):
        self._conn, self._cur = conn, cur
        self._iter_started = False

    async def execute(self, sql, params=()):
        self._cur.execute(sql, params)
        await self._conn._deliver()
        return self

    async def executescript(self, script):
        self._cur.executescript(script)
        await self._conn._deliver()
        return self

    async def executemany(self, sql, seq):
        self._cur.executemany(sql, list(seq))
        await self._conn._deliver()
        return self

    async def fetchone(self):
        r = self._cur.fetchone()
        await self._conn._deliver()
        return r

    async def fetchall(self):
        r = self._cur.fetchall()
        await self._conn._deliver()
        return r

    @property
    def lastrowid(self):
        return self._cur.lastrowid

    @property
    def rowcount(self):
        return self._cur.rowcount

    async def close(self):
        self._cur.close()
        await self._conn._deliver()

    def __aiter__(self):
        return self

    async def __anext__(self):
        r = self._cur.fetchone()
        if not self._iter_started:  # aiosqlite fetches rows in chunks: one worker round trip for the first chunk
            self._iter_started = True
            await self._conn._deliver()
        if r is None:
            raise StopAsyncIteration
        return r

    async def __aenter__(self):
        return self

    async def __aexit__(self, *a):
        await self.close()


class CResult:
    """Awaitable + async context manager, like aiosqlite's ``Result``."""

    def __init__(self, conn, fn):
        self._conn, self._fn, self._obj = conn, fn, None

    async def _run(self):
        obj = self._fn()
        await self._conn._deliver()
        return obj

    def __await__(self):
        return self._run().__await__()

    async def __aenter__(self):
        self._obj = await self._run()
        return self._obj

    async def __aexit__(self, *a):
        if self._obj is not None:
            await self._obj.close()


class CConnection:
    def __init__(self, database, **kw):
        self._c = sqlite3.connect(database, isolation_level=kw.get("isolation_level", ""))
        self.submitted = 0
        self.delivered = 0
        self.done: set[int] = set()

    async def _deliver(self):
        """The statement has been executed (submission order); its result reaches the caller after >= 1 loop turn plus a
        drawn delay, and never before the results of statements submitted earlier."""
        n = self.submitted
        self.submitted += 1
        chaos = _ChaosState.chaos
        k = 1 + (chaos.draw() if chaos is not None else 0)
        try:
            for _ in range(k):
                await asyncio.sleep(0)
            while self.delivered < n:
                await asyncio.sleep(0)
        finally:
            self.done.add(n)
            while self.delivered in self.done:
                self.done.discard(self.delivered)
                self.delivered += 1

    @property
    def row_factory(self):
        return self._c.row_factory

    @row_factory.setter
    def row_factory(self, f):
        self._c.row_factory = sqlite3.Row if f is not None else None

    def cursor(self):
        return CResult(self, lambda: CCursor(self, self._c.cursor()))

    def _stmt(self, method, *args):
        def fn():
            cur = self._c.cursor()
            getattr(cur, method)(*args)
            return CCursor(self, cur)

        return CResult(self, fn)

    def execute(self, sql, params=()):
        return self._stmt("execute", sql, params)

    def executemany(self, sql, seq):
        return self._stmt("executemany", sql, list(seq))

    def executescript(self, script):
        return self._stmt("executescript", script)

    async def commit(self):
        self._c.commit()
        await self._deliver()

    async def close(self):
        self._c.close()


class CConnect:
    def __init__(self, database, **kw):
        self.a = (database, kw)

    def __await__(self):
        async def run():
            return CConnection(self.a[0], **self.a[1])

        return run().__await__()


def chaos_connect(database, timeout=None, **kw):
    return CConnect(database, **kw)


def _install_chaos_connect() -> None:
    """Patch ``aiosqlite.connect`` in this process (re-applied at the start of every det case)."""
    import aiosqlite

    if not hasattr(aiosqlite, "_vf_c09_real"):
        aiosqlite._vf_c09_real = getattr(aiosqlite, "_vf_real_connect", aiosqlite.connect)
    aiosqlite.connect = chaos_connect


def _install_real_connect() -> None:
    """Make sure the genuine ``aiosqlite.connect`` is in place (re-applied at the start of every aiosqlite case)."""
    import aiosqlite

    real = getattr(aiosqlite, "_vf_c09_real", None) or getattr(aiosqlite, "_vf_real_connect", None)
    if real is not None:
        aiosqlite.connect = real


# ------------------------------------------------------------------------------------------------
# oracle: plain sqlite3 on the same file


def _norm(x):
    if isinstance(x, sqlite3.Row):
        return {k: _norm(x[k]) for k in x.keys()}
    if isinstance(x, dict):
        return {k: _norm(v) for k, v in x.items()}
    if isinstance(x, (list, tuple)):
        return [_norm(v) for v in x]
    return x


def _key(x) -> str:
    return json.dumps(x, sort_keys=True, default=repr)


def _same(getter: str, got, exp) -> bool:
    if getter in ORDERED:
        if getter == "get_reports":
            return len(got) == len(exp) and all(sorted(map(_key, g)) == sorted(map(_key, e)) for g, e in zip(got, exp))
        if getter == "get_workflows_list" and got and "num" in got[0]:
            return sorted(map(_key, got)) == sorted(map(_key, exp))
        return _key(got) == _key(exp)
    if isinstance(got, list) and isinstance(exp, list):
        return sorted(map(_key, got)) == sorted(map(_key, exp))
    return _key(got) == _key(exp)


def _oracle_connection(path: str) -> sqlite3.Connection:
    """A plain second connection to the database file: no cache, autocommit (every SELECT is its own read transaction,
    so it sees exactly what has been committed when it runs)."""
    con = sqlite3.connect(path, isolation_level=None)
    con.row_factory = sqlite3.Row
    return con


def _truth(con: sqlite3.Connection, getter: str, arg, flag: bool):
    """What an uncached database returns."""
    rows = lambda sql, *a: [dict(r) for r in con.execute(sql, a).fetchall()]  # noqa: E731

    def one(sql, *a):
        r = con.execute(sql, a).fetchone()
        return dict(r) if r is not None else None

    def dec(r, *cols):
        for c in cols:
            r[c] = json.loads(r[c])
        return r

    if getter == "get_workflow":
        return dec(one("SELECT * FROM workflow WHERE id = ?", arg), "params")
    if getter == "get_workflows_by_name":
        rs = [dec(r, "params") for r in rows("SELECT * FROM workflow WHERE name = ? ORDER BY id DESC", arg)]
        return rs[:1] if flag else rs
    if getter == "get_workflows_list":
        if arg is None:
            return rows("SELECT name, type, COUNT(*) AS num FROM workflow GROUP BY name, type ORDER BY name DESC")
        from streamflow.core.utils import get_date_from_ns
        from streamflow.core.workflow import Status

        return [
            {"end_time": get_date_from_ns(r["end_time"]), "start_time": get_date_from_ns(r["start_time"]), "status": Status(r["status"]).name, "type": r["type"]}
            for r in rows("SELECT * FROM workflow WHERE name = ? ORDER BY id DESC", arg)
        ]
    if getter == "get_workflow_ports":
        return [dec(r, "params") for r in rows("SELECT * FROM port WHERE workflow = ?", arg)]
    if getter == "get_workflow_steps":
        return [dec(r, "params") for r in rows("SELECT * FROM step WHERE workflow = ?", arg)]
    if getter == "get_reports":
        if flag:
            wid = one("SELECT id FROM workflow WHERE name = ? ORDER BY id DESC LIMIT 1", arg)
            return [rows("SELECT c.id, s.name, c.start_time, c.end_time FROM step AS s, execution AS c WHERE s.id = c.step AND s.workflow = ?", wid["id"] if wid else None)]
        out: dict = {}
        for r in rows(
            "SELECT s.workflow, c.id, s.name, c.start_time, c.end_time FROM step AS s, execution AS c WHERE s.id = c.step "
            "AND s.workflow IN (SELECT id FROM workflow WHERE name = ?) ORDER BY s.workflow DESC", arg):
            out.setdefault(r.pop("workflow"), []).append(r)
        return list(out.values())
    if getter == "get_port":
        return dec(one("SELECT * FROM port WHERE id = ?", arg), "params")
    if getter == "get_port_from_token":
        return dec(one("SELECT port.* FROM token JOIN port ON token.port = port.id WHERE token.id = ?", arg), "params")
    if getter == "get_port_tokens":
        return [r["id"] for r in rows("SELECT id FROM token WHERE port = ?", arg)]
    if getter == "get_input_steps":
        return rows("SELECT * FROM dependency WHERE port = ? AND type = 1", arg)
    if getter == "get_output_steps":
        return rows("SELECT * FROM dependency WHERE port = ? AND type = 0", arg)
    if getter == "get_step":
        return dec(one("SELECT * FROM step WHERE id = ?", arg), "params")
    if getter == "get_input_ports":
        return rows("SELECT * FROM dependency WHERE step = ? AND type = 0", arg)
    if getter == "get_output_ports":
        return rows("SELECT * FROM dependency WHERE step = ? AND type = 1", arg)
    if getter == "get_executions_by_step":
        return rows("SELECT * FROM execution WHERE step = ?", arg)
    if getter == "get_token":
        r = dec(one("SELECT * FROM token WHERE id = ?", arg), "value")
        r["recoverable"] = one("SELECT COUNT(*) AS n FROM recoverable WHERE id = ?", arg)["n"] > 0
        return r
    if getter == "get_dependees":
        return rows("SELECT * FROM provenance WHERE depender = ?", arg)
    if getter == "get_dependers":
        return rows("SELECT * FROM provenance WHERE dependee = ?", arg)
    if getter == "get_deployment":
        r = dec(one("SELECT * FROM deployment WHERE id = ?", arg), "config", "scheduling_policy")
        r["wraps"] = json.loads(r["wraps"]) if r["wraps"] else None
        return r
    if getter == "get_target":
        return dec(one("SELECT * FROM target WHERE id = ?", arg), "params")
    if getter == "get_filter":
        return dec(one("SELECT * FROM filter WHERE id = ?", arg), "config")
    if getter == "get_execution":
        return one("SELECT * FROM execution WHERE id = ?", arg)
    raise AssertionError(getter)


def _mutate_deep(x, top: bool = True) -> bool:
    """Deep in-place edit of a value a caller received (a row, or a list of rows). Returns True if anything mutable was touched."""
    done = False
    if isinstance(x, dict):
        for v in list(x.values()):
            done |= _mutate_deep(v, False)
        x[SENTINEL] = SENTINEL
        if top and "name" in x:
            x["name"] = SENTINEL
        done = True
    elif isinstance(x, list):
        for v in x:
            done |= _mutate_deep(v, top and isinstance(v, dict))  # the rows of a listing are rows too
        x.append(SENTINEL)
        done = True
    return done


# table of the rows a getter hands out (dict rows only: sqlite3.Row objects are immutable)
ROW_TABLE = {
    "get_workflow_steps": "step", "get_workflow_ports": "port", "get_workflows_by_name": "workflow", "get_port_from_token": "port",
    "get_workflow": "workflow", **{g: t for t, g in CACHED.items()},
}
LIST_GETTERS = ["get_workflow_steps", "get_workflow_ports", "get_workflows_by_name"]


JSON_COLS = {"params", "config", "scheduling_policy", "wraps", "value"}


class Interp:
    """Interprets a history against the real database and checks every read against the oracle."""

    def __init__(self, db, path: str, rec, backend: str):
        from vf.persist_gen import Chooser

        self.Chooser = Chooser
        self.db, self.path, self.rec, self.backend = db, path, rec, backend
        self.oracle: sqlite3.Connection | None = None
        self.ids: dict[str, list[int]] = {t: [] for t in ENTITY_TABLES}
        self.token_has_port: dict[int, bool] = {}
        self.deps: list[tuple[int, int]] = []
        self.returned: list[tuple[str, str, int, object]] = []
        self.viol: list[Violation] = []
        self.updated_while_cached: set[tuple[str, int]] = set()
        self.mutated: set[tuple[str, int]] = set()
        self.raced: set[tuple[str, int]] = set()
        self.seen_truth: dict[tuple[str, object], list[str]] = {}
        self.nontrivial = False
        self.counts = {"get": 0, "upd": 0, "add": 0, "mut": 0, "batch": 0}

    # -- helpers
    def cache_of(self, table: str):
        return getattr(self.db, f"{table}_cache", None) if table in CACHED else None

    def is_cached(self, table: str, i: int) -> bool:
        c = self.cache_of(table)
        return c is not None and i in c

    async def commit(self) -> None:
        conn = self.db.connection._connection
        if conn is not None:
            await conn.commit()

    async def truth(self, getter: str, arg, flag: bool = False):
        await self.commit()
        if self.oracle is None:
            self.oracle = _oracle_connection(self.path)
        t = _truth(self.oracle, getter, arg, flag)
        self.seen_truth.setdefault((getter, _key(arg)), []).append(_key(t))
        return t

    def classes(self):
        from streamflow.core.deployment import LocalTarget, Target
        from streamflow.core.workflow import Port, Token, Workflow
        from streamflow.cwl.workflow import CWLWorkflow
        from streamflow.workflow.port import JobPort
        from streamflow.workflow.step import ExecuteStep, ScatterStep
        from streamflow.workflow.token import ListToken

        return {"workflow": [Workflow, CWLWorkflow], "port": [Port, JobPort], "step": [ExecuteStep, ScatterStep], "token": [Token, ListToken], "target": [Target, LocalTarget]}

    # -- adds
    async def ensure(self, table: str, c) -> int:
        if not self.ids[table] or (c.n(4) == 0 and len(self.ids[table]) < 4):
            return await self.add(table, c)
        return c.of(self.ids[table])

    async def add(self, table: str, c) -> int:
        db = self.db
        K = self.classes()
        name = c.of(["a", "b", "wf", "ünï", "x y"])
        if table == "workflow":
            i = await db.add_workflow(name=name, params=c.jdict(), status=c.n(10), type=c.of(K["workflow"]))
        elif table == "port":
            i = await db.add_port(name=name, workflow_id=await self.ensure("workflow", c), type=c.of(K["port"]), params=c.jdict())
        elif table == "step":
            i = await db.add_step(name=name, workflow_id=await self.ensure("workflow", c), status=c.n(10), type=c.of(K["step"]), params=c.jdict())
        elif table == "token":
            port = None if c.n(3) == 0 else await self.ensure("port", c)
            i = await db.add_token(tag=c.of(["0", "0.1", "0.10"]), type=c.of(K["token"]), value=c.json(2), port=port, recoverable=c.bool())
            self.token_has_port[i] = port is not None
        elif table == "deployment":
            i = await db.add_deployment(
                name=name, type=c.of(["docker", "local"]), config=c.jdict(), external=c.bool(), lazy=c.bool(),
                scheduling_policy={"name": c.name(), "type": "data_locality", "config": c.jdict(1)}, workdir=c.opt_str(),
                wraps=None if c.n(2) else {"deployment": c.name(), "service": c.opt_str()},
            )
        elif table == "target":
            i = await db.add_target(
                deployment=await self.ensure("deployment", c), type=c.of(K["target"]), params=c.jdict(), locations=1 + c.n(3),
                service=c.opt_str(), workdir=c.opt_str(),
            )
        elif table == "filter":
            i = await db.add_filter(name=name, type=c.of(["shuffle", "match"]), config=c.jdict())
        elif table == "execution":
            i = await db.add_execution(step_id=await self.ensure("step", c), job_token_id=await self.ensure("token", c), cmd=c.str())
        else:
            raise AssertionError(table)
        if not isinstance(i, int):
            raise Violation(f"C09:add-returns-no-id:{table}", f"add_{table} returned {i!r}")
        self.ids[table].append(i)
        self.counts["add"] += 1
        return i

    async def add_relation(self, table: str, c) -> None:
        from streamflow.core.persistence import DependencyType

        if table == "dependency":
            s, p = await self.ensure("step", c), await self.ensure("port", c)
            await self.db.add_dependency(step=s, port=p, type=c.of([DependencyType.INPUT, DependencyType.OUTPUT]), name=c.name())
        else:
            t = await self.ensure("token", c)
            inputs = [await self.ensure("token", c) for _ in range(c.n(3))]
            await self.db.add_provenance(inputs=inputs, token=t)
        self.counts["add"] += 1

    # -- updates
    def updates_for(self, table: str, c) -> dict:
        js = lambda: json.dumps(c.jdict())  # noqa: E731
        options = {
            "workflow": {"name": lambda: c.of(["a", "b", "renamed"]), "status": lambda: c.n(10), "start_time": lambda: 1_000_000_000 * (1 + c.n(50)),
                         "end_time": lambda: 1_000_000_000 * (60 + c.n(50)), "params": js},
            "port": {"name": lambda: c.of(["a", "b", "renamed"]), "params": js},
            "step": {"status": lambda: c.n(10), "name": lambda: c.of(["a", "b", "renamed"]), "params": js},
            "deployment": {"name": lambda: c.of(["a", "renamed"]), "config": js, "external": c.bool, "lazy": c.bool, "workdir": c.opt_str,
                           "scheduling_policy": lambda: json.dumps({"name": c.name(), "type": "x", "config": c.jdict(1)}),
                           "wraps": lambda: None if c.n(2) else json.dumps({"deployment": c.name()})},
            "target": {"locations": lambda: 1 + c.n(5), "service": c.opt_str, "workdir": c.opt_str, "params": js},
            "filter": {"name": lambda: c.of(["a", "renamed"]), "type": lambda: c.of(["shuffle", "match"]), "config": js},
            "execution": {"status": lambda: c.n(10), "start_time": lambda: 1_000_000_000 * (1 + c.n(50)), "end_time": lambda: 1_000_000_000 * (60 + c.n(50)), "cmd": c.str},
        }[table]
        cols = list(options)
        first = cols[0] if table not in ("step", "workflow", "execution") else "status"
        chosen = [first] if c.n(3) == 0 else []
        for col in cols:
            if c.n(3) == 0 and col not in chosen:
                chosen.append(col)
        if not chosen:
            chosen = [c.of(cols)]
        return {col: options[col]() for col in chosen}

    async def update(self, table: str, i: int, updates: dict) -> None:
        if self.is_cached(table, i):
            self.updated_while_cached.add((table, i))
        r = await getattr(self.db, f"update_{table}")(i, updates)
        if r != i:
            raise Violation(f"C09:update-returns:{table}", f"update_{table}({i}) returned {r!r}")
        self.counts["upd"] += 1

    # -- gets
    async def getter_arg(self, getter: str, i: int, c):
        """(argument, flag) for a getter on the entity with id ``i`` of its table; None if not applicable."""
        if getter == "get_port_from_token" and not self.token_has_port.get(i):
            return None
        if getter in ("get_workflows_by_name", "get_reports", "get_workflows_list"):
            w = await self.truth("get_workflow", i)
            flag = c.bool()
            if getter == "get_workflows_list":
                if flag:
                    return (None, False)
                same = await self.truth("get_workflows_by_name", w["name"])
                if any(r["start_time"] is None or r["end_time"] is None for r in same):
                    return (None, False)  # get_date_from_ns(None): the listing needs finished workflows
                return (w["name"], False)
            return (w["name"], flag)
        return (i, False)

    async def call(self, getter: str, arg, flag: bool):
        fn = getattr(self.db, getter)
        if getter in ("get_workflows_by_name", "get_reports"):
            return await fn(arg, flag)
        return await fn(arg)

    def classify(self, getter: str, table: str, i: int, arg, got, exp) -> Violation:
        g, e = _key(got), _key(exp)
        msg = f"{getter}({arg!r}) [{self.backend}] returned {g[:600]} ; an uncached connection returns {e[:600]}"
        if SENTINEL in g and SENTINEL not in e:
            if isinstance(got, dict) and (SENTINEL in got or got.get("name") == SENTINEL):
                return Violation(f"C09:returned-row-is-cache-entry:{getter}", "a caller's change of a top-level field of a returned row leaked into a later read: " + msg)
            return Violation(f"C09:returned-row-aliases-cache:{getter}", "a caller's mutation of a nested value of a previously returned row leaked into a later read: " + msg)
        if (table, i) in self.raced:
            return Violation("C09:stale-cache-after-concurrent-update", f"after a batch in which {getter} and update_{table} on id {i} overlapped (cache entry absent at the start): " + msg)
        if g in self.seen_truth.get((getter, _key(arg)), [])[:-1]:
            return Violation(f"C09:stale-read:{getter}", "an earlier state of the row is returned: " + msg)
        return Violation(f"C09:wrong-read:{getter}", msg)

    def heal(self, table: str, i: int) -> None:
        """After a *recorded* violation: drop the polluted cache entry so that the rest of the history is still checked."""
        c = self.cache_of(table)
        if c is not None:
            c.pop(i, None)

    async def get(self, getter: str, i: int, c, remember: bool = True) -> None:
        table = GETTER_TABLE[getter]
        a = await self.getter_arg(getter, i, c)
        if a is None:
            return
        arg, flag = a
        got_raw = await self.call(getter, arg, flag)
        got = _norm(got_raw)
        exp = await self.truth(getter, arg, flag)
        self.counts["get"] += 1
        if (table, i) in self.updated_while_cached or (table, i) in self.mutated or (table, i) in self.raced:
            self.nontrivial = True
        if not _same(getter, got, exp):
            self.viol.append(self.classify(getter, table, i, arg, got, exp))
            self.heal(table, i)
            return
        if remember:
            self.returned.append((getter, table, i, got_raw))
            del self.returned[:-6]

    async def mutate_returned(self, getter: str, table: str, i: int, raw) -> None:
        """The caller edits a value it got from ``getter`` in place; afterwards every id it touched is read through every
        getter of its table (the id getter first: listings may legitimately refresh what they return)."""
        rows = raw if isinstance(raw, list) else [raw]
        touched = {(table, i)}
        rt = ROW_TABLE.get(getter)
        for r in rows:
            if rt and isinstance(r, dict) and isinstance(r.get("id"), int) and r["id"] in self.ids[rt]:
                touched.add((rt, r["id"]))
        if not _mutate_deep(raw):
            return
        self.counts["mut"] += 1
        if isinstance(raw, list):
            self.rec.label("mutated-listing")
        self.mutated |= touched
        for t, j in sorted(touched):
            order = [MAIN_GETTER[t]] if t in MAIN_GETTER else []
            order += [g for g in GETTERS if GETTER_TABLE[g] == t and g not in order]
            for g in order:
                await self.get(g, j, self.Chooser([j]), remember=False)

    # -- batches
    async def batch(self, op: dict) -> None:
        table = op["t"]
        c0 = self.Chooser([op["i"]])
        focus = []
        for _ in range(2):
            i = await self.ensure(table, c0) if not self.ids[table] else self.ids[table][(op["i"] + len(focus)) % len(self.ids[table])]
            focus.append(i)
        getter = MAIN_GETTER[table]
        cold = {i: not self.is_cached(table, i) for i in focus}
        before = {i: await self.truth(getter, i) for i in focus}
        coros, kinds, written = [], [], {i: {} for i in focus}
        for it in op["items"]:
            i = focus[it["j"] % len(focus)]
            c = self.Chooser(it["v"])
            if it["k"] == "upd" and table in UPD_TABLES:
                ups = self.updates_for(table, c)
                for col, v in ups.items():
                    v = json.loads(v) if col in JSON_COLS and isinstance(v, str) else int(v) if isinstance(v, bool) else v
                    written[i].setdefault(col, []).append(v)
                coros.append(self.update(table, i, ups))
                kinds.append(("upd", i))
            else:
                coros.append(self.call(getter, i, False))
                kinds.append(("get", i))
        self.counts["batch"] += 1
        results = await asyncio.gather(*coros)
        gets = {i for k, i in kinds if k == "get"}
        upds = {i for k, i in kinds if k == "upd"}
        for i in gets & upds:
            self.rec.label("batch-overlap")
            if cold[i] and table in CACHED:
                self.raced.add((table, i))
                self.rec.label("batch-overlap-cold")
        # reads issued during the batch: every column carries a value that was current at some point of the batch
        for (k, i), r in zip(kinds, results):
            if k != "get":
                continue
            got = _norm(r)
            for col, v in got.items():
                allowed = [before[i].get(col)] + written[i].get(col, [])
                if col == "wraps":
                    allowed = [a if a else None for a in allowed]
                if all(_key(v) != _key(a) for a in allowed):
                    if SENTINEL in _key(v):
                        self.viol.append(Violation(f"C09:returned-row-aliases-cache:{getter}", f"in-batch {getter}({i}) column {col} = {_key(v)[:300]}"))
                        self.heal(table, i)
                    else:
                        self.viol.append(Violation(f"C09:in-batch-read-invented-value:{getter}", f"{getter}({i}) during a batch returned {col}={_key(v)[:300]}, allowed {_key(allowed)[:600]}"))
                    break
        # after the batch has completed: exact comparison
        for i in focus:
            await self.get(getter, i, self.Chooser([0]))
            self.raced.discard((table, i))  # the overlap only explains a stale entry seen right after the batch

    async def run(self, ops: list) -> None:
        for op in ops:
            o = op["o"]
            if o == "add":
                c = self.Chooser(op["v"])
                if op["t"] in ("dependency", "provenance"):
                    await self.add_relation(op["t"], c)
                else:
                    await self.add(op["t"], c)
            elif o == "upd":
                if self.ids[op["t"]]:
                    i = self.ids[op["t"]][op["i"] % len(self.ids[op["t"]])]
                    await self.update(op["t"], i, self.updates_for(op["t"], self.Chooser(op["v"])))
            elif o == "get":
                t = GETTER_TABLE[op["g"]]
                if self.ids[t]:
                    await self.get(op["g"], self.ids[t][op["i"] % len(self.ids[t])], self.Chooser(op["v"]))
            elif o == "gug":  # read, update, read again: the cache entry is populated when the update arrives
                t = op["t"]
                c = self.Chooser(op["v"])
                i = self.ids[t][op["i"] % len(self.ids[t])] if self.ids[t] else await self.add(t, c)
                await self.get(MAIN_GETTER[t], i, c)
                await self.update(t, i, self.updates_for(t, c))
                await self.get(MAIN_GETTER[t], i, c)
            elif o == "mut":
                if self.returned:
                    await self.mutate_returned(*self.returned[op["k"] % len(self.returned)])
            elif o == "lmr":  # list the rows of a workflow, edit the listing in place, read the listed ids back
                c = self.Chooser(op["v"])
                w = self.ids["workflow"][op["i"] % len(self.ids["workflow"])] if self.ids["workflow"] else await self.add("workflow", c)
                getter = LIST_GETTERS[op["g"] % len(LIST_GETTERS)]
                if getter != "get_workflows_by_name" and c.n(3):
                    await self.add(ROW_TABLE[getter], self.Chooser([0, 0, *op["v"]]))  # make sure the listing is not always empty
                    w = self.ids["workflow"][-1] if c.n(2) else w
                before = len(self.returned)
                await self.get(getter, w, c)
                if len(self.returned) > before or (self.returned and self.returned[-1][0] == getter):
                    await self.mutate_returned(*self.returned[-1])
            elif o == "batch":
                await self.batch(op)
        # final sweep: the id getters of the cached tables, then every entity through every getter, then the cached getters again
        for sweep in range(3):
            for getter in GETTERS if sweep == 1 else CACHED.values():
                for i in list(self.ids[GETTER_TABLE[getter]]):
                    await self.get(getter, i, self.Chooser([i, sweep]), remember=False)
        # epilogue: every (now cached) row is updated once more and read back
        for t in UPD_TABLES:
            for i in list(self.ids[t])[:3]:
                await self.update(t, i, self.updates_for(t, self.Chooser([i, len(self.ids[t]), 7])))
                await self.get(MAIN_GETTER[t], i, self.Chooser([0]), remember=False)

    def close(self) -> None:
        if self.oracle is not None:
            self.oracle.close()
            self.oracle = None

    def finish(self) -> None:
        rec = self.rec
        rec.label(*(f"{k}>0" for k, v in self.counts.items() if v))
        rec.label(*(f"rows:{t}" for t, ids in self.ids.items() if ids))
        if self.updated_while_cached:
            rec.label("update-of-cached-row")
        if self.mutated:
            rec.label("mutated-returned-row")
        rec.nontrivial(self.nontrivial)
        if self.viol:
            known = _known_kinds()
            for v in self.viol:
                v.all_kinds = [x.kind for x in self.viol]
            for v in self.viol:
                if v.kind not in known:
                    raise v
            raise self.viol[0]


_KNOWN: set | None = None


def _known_kinds() -> set:
    """Listed known kinds (only used to decide which of several violations of one case is raised first). Read once per
    process; a file of known_findings.d being rewritten at that moment must not turn into a harness error."""
    global _KNOWN
    if _KNOWN is None:
        import time

        from vf.runner import load_known

        for attempt in range(3):
            try:
                _KNOWN = {f["kind"] for f in load_known("C09")}
                break
            except (ValueError, OSError):
                time.sleep(0.2)
        else:
            return set()
    return _KNOWN


def _mkdtemp() -> str:
    shm = "/dev/shm"
    return tempfile.mkdtemp(prefix="vf-c09-", dir=shm if os.path.isdir(shm) and os.access(shm, os.W_OK) else None)


def _config(tmp: str) -> dict:
    return {"database": {"type": "default", "config": {"connection": os.path.join(tmp, "db", "sf.db")}}, "path": os.path.join(tmp, "streamflow.yml")}


class _gc_guard:
    """cachebox 6.2.0 (pinned by the repository) can dead-lock the interpreter when a full garbage collection starts while
    its ``cached`` wrapper runs ``locks.setdefault_with(key, <python callable>)``: the collector traverses the Cache object,
    whose traverse hook takes the mutex the same thread already holds (observed once in a long run; back trace in the
    agent report). Collections are therefore postponed to the end of each case (the runner does the same around every case; this guard keeps
    the module safe when it is driven directly); this changes no program semantics."""

    def __enter__(self):
        import gc

        self.was_enabled = gc.isenabled()  # vf.runner.call_case already defers collections; then this is a no-op
        gc.disable()

    def __exit__(self, *a):
        import gc

        if self.was_enabled:
            gc.enable()


@prop.given("det", det_case, quick=1600, thorough=80000, max_shards=10)
async def check_det(case, rec):
    with _gc_guard():
        await _check_det(case, rec)


async def _check_det(case, rec):
    from vf.engine.detloop import Chaos, pending_tasks, settle

    _install_chaos_connect()
    from streamflow.main import build_context

    chaos = Chaos(case["schedule"])
    _ChaosState.chaos = chaos
    tmp = _mkdtemp()
    ctx = it = None
    try:
        cfg = _config(tmp)
        ctx = build_context(cfg)
        it = Interp(ctx.database, cfg["database"]["config"]["connection"], rec, "sync adapter")
        if chaos.s and any(chaos.s):
            rec.label("non-default-schedule")
        await it.run(case["ops"])
        await settle()
        if pending_tasks():
            raise Violation("C09:pending-tasks", f"{len(pending_tasks())} tasks pending after the history")
        it.finish()
    finally:
        _ChaosState.chaos = None
        try:
            if it is not None:
                it.close()
            if ctx is not None:
                await ctx.close()
        finally:
            shutil.rmtree(tmp, ignore_errors=True)


def _warmup() -> None:
    """Per shard, before the first case: pay the import cost (several seconds, much more on a loaded machine) outside the
    per-case safety net."""
    import streamflow.main  # noqa: F401
    import vf.persist_gen  # noqa: F401


@prop.given("aiosqlite", aio_case, quick=360, thorough=16000, loop="std", case_timeout=300.0, max_shards=6, setup=_warmup)
async def check_aio(case, rec):
    with _gc_guard():
        await _check_aio(case, rec)


async def _check_aio(case, rec):
    _install_real_connect()
    import aiosqlite

    from streamflow.main import build_context

    if getattr(aiosqlite.connect, "__module__", "").startswith("vf."):
        from vf.core import HarnessError

        raise HarnessError("the real aiosqlite.connect is not installed in this process")
    tmp = _mkdtemp()
    ctx = it = None
    try:
        cfg = _config(tmp)
        ctx = build_context(cfg)
        it = Interp(ctx.database, cfg["database"]["config"]["connection"], rec, "aiosqlite")
        await it.run(case["ops"])
        it.finish()
    finally:
        try:
            if it is not None:
                it.close()
            if ctx is not None:
                await ctx.close()
        finally:
            shutil.rmtree(tmp, ignore_errors=True)
