"""C20 Provenance graph operations keep the graph consistent.

Sub-checks
* ``dag-history`` / ``digraph-history``: random operation histories on ``DirectedAcyclicGraph`` /
  ``DirectedGraph`` interpreted side by side with a set-of-nodes / set-of-edges reference model
  (least-fixpoint pruning).
* ``dag-exhaustive-4``: every labelled DAG on <= 4 nodes x every single operation.
* ``digraph-exhaustive-3``: every directed graph (self-loops, cycles) on <= 3 nodes x every single
  operation of ``DirectedGraph``.
* ``mapper``: ``GraphMapper`` built by ``create_graph_mapper`` from a generated provenance, then
  ``move_token_to_root`` / ``replace_token`` in the patterns of the callers; bookkeeping invariants and
  the reference model for the token DAG.
"""
from __future__ import annotations

import itertools

from hypothesis import strategies as st

from vf.core import HarnessError, Prop, Violation

prop = Prop(
    "C20",
    level="exploration",
    technique=(
        "model-based operation histories (Hypothesis) against an independent set-of-nodes/set-of-edges reference "
        "with least-fixpoint pruning, plus bounded-exhaustive enumeration of small graphs x single operations"
    ),
    rule=(
        "histories: 0..16 initial edges then 1..25 operations (add, remove_nodes with/without pruning, remove_node, "
        "replace incl. missing old / existing new, promote_to_source) over a pool of 14 node names (<= 12 nodes live); "
        "DAG variant orients every new edge so that the graph stays acyclic, the general variant allows cycles and "
        "self-loops. Non-trivial = some removal pruned >= 2 levels of ancestors or some promote_to_source removed "
        ">= 1 ancestor; distinct by the whole case. exhaustive: all 543+25+3+1+1 labelled DAGs on <= 4 nodes (all 512+16+2+1 "
        "digraphs on <= 3 nodes) x every single operation; non-trivial = the operation pruned/removed at least one node "
        "that was not requested. mapper: provenance of 2..12 tokens over 14 (port, tag | job) slots; non-trivial = a "
        "move_token_to_root removed >= 1 ancestor token or the build merged equal tokens."
    ),
    level_text=(
        "Every query method is compared with the reference model after every operation, so any divergence of the "
        "adjacency maps reachable within the explored histories is detected; the <=4-node space is covered with certainty."
    ),
    level_note=(
        "Random exploration beyond 4 nodes. GraphMapper is only driven the way its callers drive it "
        "(create_graph_mapper over a build_graph-shaped provenance, then move_token_to_root / replace_token)."
    ),
    assumptions=[
        "DirectedAcyclicGraph is only given acyclic edge sets (its callers build it from token provenance)",
        "GraphMapper: provenance has the shape build_graph produces (a token has predecessors iff it is unavailable; "
        "tokens that are 'equal' for the mapper - same port and tag / job name - are never ancestors of each other)",
    ],
)

POOL = 14
MAX_LIVE = 12
MISSING = 99


# ------------------------------------------------------------------------------------------------
# reference model: plain sets, nothing from StreamFlow


class Ref:
    def __init__(self):
        self.nodes: set = set()
        self.edges: set = set()

    def copy(self):
        r = Ref()
        r.nodes = set(self.nodes)
        r.edges = set(self.edges)
        return r

    def succ(self, n):
        return {v for (u, v) in self.edges if u == n}

    def pred(self, n):
        return {u for (u, v) in self.edges if v == n}

    def add(self, u, v=None):
        self.nodes.add(u)
        if v is not None:
            self.nodes.add(v)
            self.edges.add((u, v))

    def reaches(self, a, b):
        """non-empty or empty path a ->* b"""
        seen, todo = set(), [a]
        while todo:
            x = todo.pop()
            if x == b:
                return True
            if x in seen:
                continue
            seen.add(x)
            todo.extend(self.succ(x))
        return False

    def removal_set(self, requested, prune):
        """least fixpoint: requested nodes that exist, plus (when pruning) every predecessor of a removed
        node all of whose successors are removed. Returns (set, number of pruning rounds)."""
        rem = {n for n in requested if n in self.nodes}
        rounds = 0
        while prune:
            cand = set()
            for u, v in self.edges:
                if v in rem and u not in rem and self.succ(u) <= rem:
                    cand.add(u)
            if not cand:
                break
            rem |= cand
            rounds += 1
        return rem, rounds

    def drop(self, rem):
        self.nodes -= rem
        self.edges = {(u, v) for (u, v) in self.edges if u not in rem and v not in rem}

    def remove(self, requested, prune):
        rem, rounds = self.removal_set(requested, prune)
        self.drop(rem)
        return rem, rounds

    def replace(self, old, new):
        """'noop' | 'error' | 'ok'"""
        if old not in self.nodes:
            return "noop"
        if new in self.nodes:
            return "error"
        self.nodes.discard(old)
        self.nodes.add(new)
        ren = lambda x: new if x == old else x  # noqa: E731
        self.edges = {(ren(u), ren(v)) for (u, v) in self.edges}
        return "ok"

    def promote(self, n):
        if n not in self.nodes:
            return set()
        preds = self.pred(n)
        self.edges = {(u, v) for (u, v) in self.edges if v != n}
        start = {p for p in preds if not self.succ(p)}
        rem, _ = self.remove(start, True)
        return rem

    def acyclic(self):
        indeg = {n: len(self.pred(n)) for n in self.nodes}
        todo = [n for n, d in indeg.items() if d == 0]
        seen = 0
        while todo:
            x = todo.pop()
            seen += 1
            for s in self.succ(x):
                indeg[s] -= 1
                if indeg[s] == 0:
                    todo.append(s)
        return seen == len(self.nodes)


def compare(g, ref: Ref, op: str, dag: bool, probe=()):
    """every query method of the graph against the model; views must mirror each other"""
    nodes = g.get_nodes()
    succ = {n: g.successors(n) for n in nodes}
    pred = {n: g.predecessors(n) for n in nodes}
    # 1. the two views describe the same edge set and mention only live nodes
    for u in nodes:
        for v in succ[u]:
            if v not in nodes:
                raise Violation(f"C20:{op}:dangling-edge", f"successors({u!r}) mentions {v!r} which is not a node")
            if u not in pred[v]:
                raise Violation(f"C20:{op}:views-not-mirrored", f"{v!r} in successors({u!r}) but {u!r} not in predecessors({v!r})")
        for v in pred[u]:
            if v not in nodes:
                raise Violation(f"C20:{op}:dangling-edge", f"predecessors({u!r}) mentions {v!r} which is not a node")
            if u not in succ[v]:
                raise Violation(f"C20:{op}:views-not-mirrored", f"{v!r} in predecessors({u!r}) but {u!r} not in successors({v!r})")
    # 2. equal to the model
    if nodes != ref.nodes:
        raise Violation(f"C20:{op}:nodes", f"nodes {sorted(nodes, key=repr)} model {sorted(ref.nodes, key=repr)}")
    for n in nodes:
        if succ[n] != ref.succ(n):
            raise Violation(f"C20:{op}:edges", f"successors({n!r}) = {succ[n]} model {ref.succ(n)}")
        if pred[n] != ref.pred(n):
            raise Violation(f"C20:{op}:edges", f"predecessors({n!r}) = {pred[n]} model {ref.pred(n)}")
    ind, outd = g.in_degree(), g.out_degree()
    if ind != {n: len(ref.pred(n)) for n in ref.nodes} or outd != {n: len(ref.succ(n)) for n in ref.nodes}:
        raise Violation(f"C20:{op}:degrees", f"in {ind} out {outd}")
    if g.empty() != (not ref.nodes):
        raise Violation(f"C20:{op}:empty", f"empty() = {g.empty()} with nodes {ref.nodes}")
    for n in probe:
        if g.contains(n) != (n in ref.nodes):
            raise Violation(f"C20:{op}:contains", f"contains({n!r}) = {g.contains(n)}")
    if dag:
        if g.get_sources() != {n for n in ref.nodes if not ref.pred(n)}:
            raise Violation(f"C20:{op}:sources", f"{g.get_sources()}")
        if g.get_sinks() != {n for n in ref.nodes if not ref.succ(n)}:
            raise Violation(f"C20:{op}:sinks", f"{g.get_sinks()}")


def check_removed(op, got, exp):
    if not isinstance(got, list) or len(got) != len(set(got)) or set(got) != exp:
        raise Violation(f"C20:{op}:returned-list", f"returned {got}, model removal set {sorted(exp, key=repr)}")


# ------------------------------------------------------------------------------------------------
# histories


def _name(k, dag):
    k %= POOL
    return k if dag else f"n{k}"


def _pick(sel, ref, dag):
    """[kind, k]: kind 0 = an existing node (state-relative), 1 = any pool name, 2 = a name never used,
    3 = an existing sink (else any existing node), 4 = a pool name that is not a node (else any pool name)"""
    kind, k = sel
    if kind == 3 and ref.nodes:
        sinks = sorted((n for n in ref.nodes if not ref.succ(n)), key=repr)
        if sinks:
            return sinks[k % len(sinks)]
        kind = 0
    if kind == 4:
        free = [_name(i, dag) for i in range(POOL) if _name(i, dag) not in ref.nodes]
        if free:
            return free[k % len(free)]
        kind = 1
    if kind == 0 and ref.nodes:
        live = sorted(ref.nodes, key=repr)
        return live[k % len(live)]
    if kind == 2:
        return MISSING if dag else "missing"
    return _name(k, dag)


def _oriented_add(g, ref, u, v, dag):
    """add an edge the way a caller of this class can: the DAG class only ever receives acyclic edge sets"""
    if v is not None and dag:
        if u == v:
            v = None
        elif ref.reaches(v, u):
            u, v = v, u
    new = {x for x in (u, v) if x is not None and x not in ref.nodes}
    if len(ref.nodes) + len(new) > MAX_LIVE:
        return False
    g.add(u, v)
    ref.add(u, v)
    return True


def run_history(case, rec, dag):
    from streamflow.recovery.utils import DirectedAcyclicGraph, DirectedGraph

    g = DirectedAcyclicGraph("g") if dag else DirectedGraph("g")
    ref = Ref()
    probe = [_name(k, dag) for k in range(POOL)] + [MISSING if dag else "missing"]
    for u, v in case["init"]:
        _oriented_add(g, ref, _name(u, dag), _name(v, dag), dag)
    compare(g, ref, "add", dag, probe)
    deep = promoted = 0
    seen_ops = set()
    for op in case["ops"]:
        kind = op[0]
        if kind == "add":
            u = _pick(op[1], ref, dag)
            v = None if op[2] is None else _pick(op[2], ref, dag)
            if u in (MISSING, "missing") or v in (MISSING, "missing"):
                continue
            if not _oriented_add(g, ref, u, v, dag):
                continue
            compare(g, ref, "add", dag, probe)
        elif kind == "rm":
            req = [_pick(s, ref, dag) for s in op[1]]
            prune = bool(op[2])
            exp, rounds = ref.remove(req, prune)
            got = g.remove_nodes(list(req), prune_dead_end=prune)
            check_removed("remove_nodes", got, exp)
            compare(g, ref, "remove_nodes", dag, probe)
            if rounds >= 2:
                deep += 1
            if prune:
                rec.label(f"prune-rounds={min(rounds, 3)}{'+' if rounds >= 3 else ''}")
        elif kind == "rm1":
            n = _pick(op[1], ref, dag)
            prune = op[2]  # None = use the default of the method (prune)
            exp, rounds = ref.remove([n], True if prune is None else bool(prune))
            got = g.remove_node(n) if prune is None else g.remove_node(n, prune_dead_end=bool(prune))
            check_removed("remove_node", got, exp)
            compare(g, ref, "remove_node", dag, probe)
            if rounds >= 2:
                deep += 1
        elif kind == "replace":
            old = _pick(op[1], ref, dag)
            new = _pick(op[2], ref, dag)
            before = ref.copy()
            outcome = ref.replace(old, new)
            try:
                g.replace(old, new)
                raised = False
            except ValueError:
                raised = True
            if raised != (outcome == "error"):
                raise Violation("C20:replace:exception", f"replace({old!r},{new!r}) raised={raised}, model outcome {outcome}")
            compare(g, ref if outcome != "error" else before, "replace", dag, probe)
            rec.label(f"replace-{outcome}")
        elif kind == "promote":
            if not dag:
                continue
            n = _pick(op[1], ref, dag)
            exp = ref.promote(n)
            got = g.promote_to_source(n)
            check_removed("promote_to_source", got, exp)
            compare(g, ref, "promote_to_source", dag, probe)
            if n in ref.nodes and ref.pred(n):
                raise HarnessError("model: promoted node still has predecessors")
            if exp:
                promoted += 1
            rec.label("promote-removes-ancestors" if exp else "promote-no-removal")
        else:
            raise HarnessError(f"unknown op {op!r}")
        seen_ops.add(kind)
    if dag and not ref.acyclic():
        raise HarnessError("generator produced a cyclic DAG history")
    if deep:
        rec.label("deep-prune")
    if not dag and any(u == v for u, v in ref.edges):
        rec.label("self-loop-alive")
    rec.nontrivial(deep > 0 or promoted > 0)


sel = st.one_of(
    st.tuples(st.just(0), st.integers(0, 40)),
    st.tuples(st.just(0), st.integers(0, 40)),
    st.tuples(st.just(3), st.integers(0, 40)),
    st.tuples(st.just(3), st.integers(0, 40)),
    st.tuples(st.just(1), st.integers(0, POOL - 1)),
    st.tuples(st.just(2), st.just(0)),
)
pool_sel = st.tuples(st.just(1), st.integers(0, POOL - 1))
free_sel = st.tuples(st.just(4), st.integers(0, POOL - 1))
# initial edges: arbitrary pairs mixed with chain links k -> k+1, so that long single-successor chains exist
init_edge = st.one_of(
    st.tuples(st.integers(0, POOL - 1), st.integers(0, POOL - 1)),
    st.integers(0, POOL - 2).map(lambda k: (k, k + 1)),
)


def ops_strategy(dag: bool):
    add = st.tuples(st.just("add"), st.one_of(sel, pool_sel), st.one_of(st.none(), sel, pool_sel))
    rm = st.tuples(st.just("rm"), st.lists(sel, min_size=0, max_size=4), st.booleans())
    rm1 = st.tuples(st.just("rm1"), sel, st.sampled_from([None, True, False]))
    replace = st.tuples(st.just("replace"), sel, st.one_of(free_sel, free_sel, pool_sel, sel))
    alts = [add, add, rm, rm1, replace]
    if dag:
        alts += [st.tuples(st.just("promote"), sel)] * 2
    return st.fixed_dictionaries(
        {
            "init": st.lists(init_edge, min_size=0, max_size=16),
            "ops": st.lists(st.one_of(*alts), min_size=1, max_size=25),
        }
    )


@prop.given("dag-history", ops_strategy(True), quick=6000, thorough=300000)
def check_dag_history(case, rec):
    run_history(case, rec, True)


@prop.given("digraph-history", ops_strategy(False), quick=4000, thorough=200000)
def check_digraph_history(case, rec):
    run_history(case, rec, False)


# ------------------------------------------------------------------------------------------------
# bounded-exhaustive: all small graphs x all single operations


def _pairs(n, loops):
    return [(u, v) for u in range(n) for v in range(n) if loops or u != v]


def gen_dag_blocks(tier):
    for n in range(0, 5):
        total = 1 << len(_pairs(n, False))
        step = 64
        for lo in range(0, total, step):
            yield {"n": n, "lo": lo, "hi": min(total, lo + step), "perms": tier != "quick"}


def gen_digraph_blocks(tier):
    for n in range(0, 4):
        total = 1 << len(_pairs(n, True))
        step = 16
        for lo in range(0, total, step):
            yield {"n": n, "lo": lo, "hi": min(total, lo + step), "perms": True}


def _single_ops(n, dag, perms):
    """every single operation on a graph with nodes 0..n-1 (MISSING = a node that is not there, 77 = fresh)"""
    names = list(range(n))
    ops = []
    universe = names + [MISSING]
    for r in range(len(universe) + 1):
        for sub in itertools.combinations(universe, r):
            orders = itertools.permutations(sub) if perms or r <= 2 else (sub, tuple(reversed(sub)))
            for order in orders:
                for prune in (False, True):
                    ops.append(("rm", list(order), prune))
    for x in universe:
        for prune in (None, False, True):
            ops.append(("rm1", x, prune))
        if dag:
            ops.append(("promote", x))
        for new in names + [77]:
            ops.append(("replace", x, new))
    for u in names + [77]:
        ops.append(("add", u, None))
        for v in names + [77, 78]:
            if v == 78 and u != 77:
                continue
            ops.append(("add", u, v))
    return ops


def run_exhaustive(case, rec, dag):
    from streamflow.recovery.utils import DirectedAcyclicGraph, DirectedGraph

    n = case["n"]
    pairs = _pairs(n, not dag)
    ops = _single_ops(n, dag, case["perms"])
    evaluations = nontrivial = 0
    for mask in range(case["lo"], case["hi"]):
        edges = [p for i, p in enumerate(pairs) if mask >> i & 1]
        base = Ref()
        for x in range(n):
            base.add(x)
        for u, v in edges:
            base.add(u, v)
        if dag and not base.acyclic():
            continue
        for op in ops:
            if op[0] == "add" and dag and op[2] is not None and (op[1] == op[2] or base.reaches(op[2], op[1])):
                continue  # would make the DAG cyclic: not an input of this class
            g = DirectedAcyclicGraph("g") if dag else DirectedGraph("g")
            for x in range(n):
                g.add(x)
            for u, v in edges:
                g.add(u, v)
            ref = base.copy()
            where = f"graph n={n} edges={edges} op={op}"
            try:
                if op[0] == "rm":
                    exp, _ = ref.remove(op[1], op[2])
                    check_removed("remove_nodes", g.remove_nodes(list(op[1]), prune_dead_end=op[2]), exp)
                    compare(g, ref, "remove_nodes", dag, (MISSING,))
                    nt = len(exp) > len(set(op[1]) & base.nodes)
                elif op[0] == "rm1":
                    exp, _ = ref.remove([op[1]], True if op[2] is None else op[2])
                    got = g.remove_node(op[1]) if op[2] is None else g.remove_node(op[1], prune_dead_end=op[2])
                    check_removed("remove_node", got, exp)
                    compare(g, ref, "remove_node", dag, (MISSING,))
                    nt = len(exp) > 1
                elif op[0] == "promote":
                    exp = ref.promote(op[1])
                    check_removed("promote_to_source", g.promote_to_source(op[1]), exp)
                    compare(g, ref, "promote_to_source", dag, (MISSING,))
                    nt = bool(exp)
                elif op[0] == "replace":
                    outcome = ref.replace(op[1], op[2])
                    try:
                        g.replace(op[1], op[2])
                        raised = False
                    except ValueError:
                        raised = True
                    if raised != (outcome == "error"):
                        raise Violation("C20:replace:exception", f"raised={raised}, model outcome {outcome}")
                    compare(g, ref if outcome != "error" else base, "replace", dag, (MISSING, 77))
                    nt = outcome == "ok" and bool(base.succ(op[1]) or base.pred(op[1]))
                else:
                    g.add(op[1], op[2])
                    ref.add(op[1], op[2])
                    compare(g, ref, "add", dag, (MISSING, 77, 78))
                    nt = False
            except Violation as v:
                raise Violation(v.kind, f"{where}: {v.message}") from None
            evaluations += 1
            nontrivial += bool(nt)
    rec.bulk(evaluations=evaluations, nontrivial=nontrivial)


@prop.enumerated("dag-exhaustive-4", gen_dag_blocks)
def check_dag_exhaustive(case, rec):
    run_exhaustive(case, rec, True)


@prop.enumerated("digraph-exhaustive-3", gen_digraph_blocks)
def check_digraph_exhaustive(case, rec):
    run_exhaustive(case, rec, False)


# ------------------------------------------------------------------------------------------------
# GraphMapper

# (port name, tag or job name, is job port); provenance edges only go from a lower to a higher slot, so that
# tokens the mapper considers equal (same slot) are never ancestors of each other
SLOTS = [
    ("/p0", "0", False), ("/s0/__job__", "A", True), ("/p1", "0.0", False), ("/p1", "0.1", False),
    ("/s1/__job__", "B", True), ("/p2", "0.0", False), ("/p0", "1", False), ("/s0/__job__", "C", True),
    ("/p3", "0.0", False), ("/p3", "0.1", False), ("/s1/__job__", "D", True), ("/p2", "0.1", False),
    ("/p4", "0", False), ("/p4", "1", False),
]
PORT_IDS = {name: i + 1 for i, name in enumerate(sorted({s[0] for s in SLOTS}))}


def _drive(coro):
    """run a coroutine that never really awaits"""
    try:
        coro.send(None)
    except StopIteration as e:
        return e.value
    raise HarnessError("create_graph_mapper suspended: it is expected to be synchronous in effect")


def _make_token(tid, slot):
    from streamflow.core.workflow import Job, Token
    from streamflow.workflow.token import JobToken

    port, key, is_job = SLOTS[slot]
    if is_job:
        tok = JobToken(value=Job(name=f"{port[:-8]}/{key}", workflow_id=1, inputs={}, input_directory=None,
                                 output_directory=None, tmp_directory=None), tag="0")
    else:
        tok = Token(value=tid, tag=key)
    tok.persistent_id = tid
    return tok


def _mapper_invariants(m, op, prov):
    dag_nodes = m.dag_tokens.get_nodes()
    inst, avail = set(m.token_instances), set(m.token_availability)
    in_ports: list = [t for ts in m.port_tokens.values() for t in ts]
    if len(in_ports) != len(set(in_ports)):
        raise Violation(f"C20:mapper:{op}:token-in-two-ports", f"{m.port_tokens}")
    if not (dag_nodes == inst == avail == set(in_ports)):
        raise Violation(
            f"C20:mapper:{op}:key-sets-differ",
            f"dag {sorted(dag_nodes)} instances {sorted(inst)} availability {sorted(avail)} port_tokens {sorted(in_ports)}",
        )
    empty = [p for p, ts in m.port_tokens.items() if not ts]
    if empty:
        raise Violation(f"C20:mapper:{op}:empty-port-left", f"{empty}")
    ports = set(m.port_tokens)
    if m.dcg_ports.get_nodes() != ports or set(m.port_name_ids) != ports:
        raise Violation(
            f"C20:mapper:{op}:port-sets-differ",
            f"dcg {sorted(m.dcg_ports.get_nodes())} port_tokens {sorted(ports)} port_name_ids {sorted(m.port_name_ids)}",
        )
    for p, ts in m.port_tokens.items():
        for t in ts:
            if t in prov and SLOTS[prov[t][0]][0] != p:
                raise Violation(f"C20:mapper:{op}:token-in-wrong-port", f"token {t} of {SLOTS[prov[t][0]][0]} listed in {p}")
            if m.token_instances[t].persistent_id != t:
                raise Violation(f"C20:mapper:{op}:instance-id", f"token_instances[{t}] has id {m.token_instances[t].persistent_id}")
    # the two graphs are internally consistent
    for g, name in ((m.dag_tokens, "dag"), (m.dcg_ports, "dcg")):
        nodes = g.get_nodes()
        for u in nodes:
            for v in g.successors(u):
                if v not in nodes or u not in g.predecessors(v):
                    raise Violation(f"C20:mapper:{op}:{name}-views-not-mirrored", f"{u!r}->{v!r}")
            for v in g.predecessors(u):
                if v not in nodes or u not in g.successors(v):
                    raise Violation(f"C20:mapper:{op}:{name}-views-not-mirrored", f"{v!r}->{u!r}")


def _snapshot(g) -> Ref:
    r = Ref()
    for n in g.get_nodes():
        r.add(n)
        for s in g.successors(n):
            r.add(n, s)
    return r


def _state(m):
    return (
        _snapshot(m.dag_tokens), _snapshot(m.dcg_ports), {p: set(ts) for p, ts in m.port_tokens.items()},
        dict(m.token_availability), {p: set(i) for p, i in m.port_name_ids.items()},
    )


def _checked_move(m, tid, prov):
    dag0, dcg0, ports0, avail0, ids0 = _state(m)
    exp_removed = dag0.promote(tid)
    m.move_token_to_root(tid)
    _mapper_invariants(m, "move_token_to_root", prov)
    dag1, dcg1, ports1, avail1, ids1 = _state(m)
    if dag1.nodes != dag0.nodes or dag1.edges != dag0.edges:
        raise Violation(
            "C20:mapper:move_token_to_root:dag",
            f"move {tid}: nodes {sorted(dag1.nodes)} edges {sorted(dag1.edges)}; model nodes {sorted(dag0.nodes)} edges {sorted(dag0.edges)}",
        )
    exp_ports = {p: ts - exp_removed for p, ts in ports0.items() if ts - exp_removed}
    if ports1 != exp_ports:
        raise Violation("C20:mapper:move_token_to_root:port-tokens", f"move {tid}: {ports1}, model {exp_ports}")
    if avail1 != {t: a for t, a in avail0.items() if t not in exp_removed}:
        raise Violation("C20:mapper:move_token_to_root:availability", f"move {tid}: {avail1}")
    gone = set(ports0) - set(exp_ports)
    dcg0.remove(gone, False)
    if dcg1.nodes != dcg0.nodes or dcg1.edges != dcg0.edges:
        raise Violation("C20:mapper:move_token_to_root:port-graph", f"move {tid}: ports {sorted(dcg1.nodes)} edges {sorted(dcg1.edges)}; "
                        f"model {sorted(dcg0.nodes)} {sorted(dcg0.edges)}")
    if ids1 != {p: i for p, i in ids0.items() if p not in gone}:
        raise Violation("C20:mapper:move_token_to_root:port-ids", f"move {tid}: {ids1}")
    return exp_removed


def mapper_strategy():
    token = st.tuples(st.integers(0, len(SLOTS) - 1), st.booleans(), st.booleans())  # slot, wants-available, job recovering
    return st.fixed_dictionaries(
        {
            "tokens": st.lists(token, min_size=2, max_size=12),
            "ids": st.permutations(list(range(1, 25))),
            "edges": st.lists(st.tuples(st.integers(0, 11), st.integers(0, 11)), min_size=1, max_size=20),
            "ops": st.lists(
                st.one_of(
                    st.tuples(st.just("sync"), st.integers(0, 30)),   # the loop of _synchronize_workflows on one job token
                    st.tuples(st.just("move"), st.integers(0, 30)),
                    st.tuples(st.just("move-missing"), st.just(0)),
                    st.tuples(st.just("replace"), st.integers(0, 30), st.booleans()),
                ),
                min_size=0, max_size=6,
            ),
        }
    )


@prop.given("mapper", mapper_strategy(), quick=4000, thorough=150000)
def check_mapper(case, rec):
    from streamflow.core.exception import FailureHandlingException
    from streamflow.recovery.utils import ProvenanceGraph, ProvenanceToken, create_graph_mapper
    from streamflow.workflow.token import JobToken

    toks = case["tokens"]
    n = len(toks)
    ids = [case["ids"][i] for i in range(n)]
    # provenance edges: lower slot -> higher slot; a token that wants to be available is a source
    edges = set()
    for a, b in case["edges"]:
        a, b = a % n, b % n
        if toks[a][0] == toks[b][0]:
            continue
        if toks[a][0] > toks[b][0]:
            a, b = b, a
        if toks[b][1]:
            continue
        edges.add((a, b))
    has_pred = {b for _, b in edges}
    prov = {}  # id -> (slot, available)
    for i, (slot, wants, recovering) in enumerate(toks):
        if i in has_pred:
            available = False
        elif SLOTS[slot][2] and recovering and not wants:
            available = False  # job token of a job that another recovery is re-running
        else:
            available = True
        prov[ids[i]] = (slot, available)
    instances = {ids[i]: _make_token(ids[i], toks[i][0]) for i in range(n)}
    pg = ProvenanceGraph(None)
    for i in range(n):
        if not any(i in e for e in edges):
            pg.add(instances[ids[i]])
    for a, b in sorted(edges):
        pg.add(instances[ids[a]], instances[ids[b]])
    for tid, (slot, available) in prov.items():
        pg.info_tokens[tid] = ProvenanceToken(instance=instances[tid], is_available=available,
                                              port_id=PORT_IDS[SLOTS[slot][0]], port_name=SLOTS[slot][0])
    m = _drive(create_graph_mapper(None, pg))
    _mapper_invariants(m, "build", prov)
    built = m.dag_tokens.get_nodes()
    if not built <= set(prov):
        raise Violation("C20:mapper:build:unknown-token", f"{sorted(built - set(prov))}")
    for t in built:
        if m.token_availability[t] != prov[t][1]:
            raise Violation("C20:mapper:build:availability", f"token {t}: {m.token_availability[t]}, provenance {prov[t][1]}")
    if not _snapshot(m.dag_tokens).acyclic():
        raise Violation("C20:mapper:build:cyclic-token-graph", f"{m.dag_tokens}")
    merged = len(built) < n
    removed_any = False
    next_id = 100
    for op in case["ops"]:
        live = sorted(m.dag_tokens.get_nodes())
        if op[0] == "sync":
            jobs = [t for t in live if isinstance(m.token_instances[t], JobToken)]
            if not jobs:
                continue
            job = jobs[op[1] % len(jobs)]
            # verbatim the caller's loop (RollbackFailureManager._synchronize_workflows)
            for tid in m.dag_tokens.successors(job) if m.dag_tokens.contains(job) else []:
                removed_any |= bool(_checked_move(m, tid, prov))
            rec.label("op-sync")
        elif op[0] == "move":
            if not live:
                continue
            removed_any |= bool(_checked_move(m, live[op[1] % len(live)], prov))
            rec.label("op-move")
        elif op[0] == "move-missing":
            if _checked_move(m, 9999, prov):
                raise HarnessError("model removed nodes for a missing token")
        elif op[0] == "replace":
            if not live:
                continue
            old = live[op[1] % len(live)]
            port = next(p for p, ts in m.port_tokens.items() if old in ts)
            slot = prov[old][0]
            new_tok = _make_token(next_id, slot)
            prov[next_id] = (slot, bool(op[2]))
            next_id += 1
            dag0, dcg0, ports0, avail0, ids0 = _state(m)
            try:
                m.replace_token(port, new_tok, bool(op[2]))
            except FailureHandlingException as e:
                raise Violation("C20:mapper:replace_token:exception", f"replace of {old} in {port}: {e}") from e
            _mapper_invariants(m, "replace_token", prov)
            dag1, dcg1, ports1, avail1, ids1 = _state(m)
            # get_equal_token may pick any token of the slot: the one actually replaced is the one that disappeared
            gone = dag0.nodes - dag1.nodes
            if len(gone) != 1 or prov[next(iter(gone))][0] != slot:
                raise Violation("C20:mapper:replace_token:dag", f"replaced {sorted(gone)} for a token of slot {SLOTS[slot]}")
            g_old = next(iter(gone))
            if dag0.replace(g_old, new_tok.persistent_id) != "ok" or dag1.nodes != dag0.nodes or dag1.edges != dag0.edges:
                raise Violation("C20:mapper:replace_token:dag", f"{sorted(dag1.edges)} model {sorted(dag0.edges)}")
            exp_ports = {p: ({new_tok.persistent_id if t == g_old else t for t in ts}) for p, ts in ports0.items()}
            if ports1 != exp_ports:
                raise Violation("C20:mapper:replace_token:port-tokens", f"{ports1} model {exp_ports}")
            exp_avail = {t: a for t, a in avail0.items() if t != g_old} | {new_tok.persistent_id: bool(op[2])}
            if avail1 != exp_avail:
                raise Violation("C20:mapper:replace_token:availability", f"{avail1} model {exp_avail}")
            if m.token_instances[new_tok.persistent_id] is not new_tok:
                raise Violation("C20:mapper:replace_token:instance", "new token instance not stored")
            if dcg1.nodes != dcg0.nodes or dcg1.edges != dcg0.edges:
                raise Violation("C20:mapper:replace_token:port-graph", "port graph changed")
            # the caller (_update_token) then promotes the new token to a source
            removed_any |= bool(_checked_move(m, new_tok.persistent_id, prov))
            rec.label("op-replace")
    rec.label("merged-equal-tokens" if merged else "no-merge")
    if removed_any:
        rec.label("move-removed-ancestors")
    if any(not a for _, a in (prov[t] for t in built)):
        rec.label("has-unavailable")
    rec.nontrivial(removed_any or merged)
