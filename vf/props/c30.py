"""C30 CWL command-line tools receive exactly the arguments / stdin / environment the reference runner passes.

Generated CommandLineTools run ``vf/cwlgen/dumptool.py`` (prints argv, stdin bytes and selected
environment variables as JSON, captured through ``stdout:``); StreamFlow and cwltool execute the same
document on the same job and the two dumps are compared.
"""
from __future__ import annotations

import json
import os
import re
import shutil
import tempfile

from vf.core import Prop, Violation
from vf.props.c29 import _budget, _seed, draw_cases

prop = Prop(
    "C30",
    level="translation_validation",
    technique="differential testing against cwltool: generated CommandLineTools whose process dumps argv/stdin/env",
    rule=(
        "a program = one generated CommandLineTool (1..6 inputs of type string/int/double/boolean/File/enum/array/"
        "record/optional with position, prefix, separate, itemSeparator, valueFrom, shellQuote bindings; arguments; "
        "stdin; EnvVarRequirement) plus a job with hostile string values; non-trivial = both runners produced a dump "
        "or failed, and the tool has >= 2 bound inputs at different positions or some value (job string, argument, "
        "env value) contains a shell metacharacter, whitespace or quote; distinct by the whole case"
    ),
    level_text=(
        "Each tool is executed by StreamFlow and by cwltool --no-container on identical files; the argument vector "
        "(File paths by basename), the bytes on stdin and the EnvVarRequirement variables seen by the process must "
        "be identical; every disagreement is re-run once before it is reported."
    ),
    level_note=(
        "cwltool is the trusted reference. Values bound with shellQuote: false are restricted to forms with the "
        "same meaning in any POSIX sh (words, quotes, backslash-escaped blanks, references to EnvVarRequirement "
        "variables); `separate: false` without a prefix and `valueFrom` on a null optional input are not generated "
        "(the reference rejects / the specification is silent). The local connector path (create_command) is the "
        "one exercised; remote connectors are not."
    ),
    assumptions=[
        "File arguments are compared after replacing any path ending in a generated input basename by @FILE:<basename>@",
        "a document the reference refuses to validate is a generator bug (harness error)",
    ],
)

QUICK_TOOLS = 64
THOROUGH_TOOLS = 2500

_META = set(" \t\n'\"$`\\*?[];&|<>(){}~#!")


def gen_tools(tier):
    from vf.cwlgen import gen_tools as gt

    n = _budget(QUICK_TOOLS if tier == "quick" else THOROUGH_TOOLS)
    yield from draw_cases(gt.tool_cases(), n, _seed())


_PATH_RE = re.compile(r"(?:/[^\s,;:=\"']+)*/((?:in|stdin)\d+\.txt)")


def _norm_arg(a):
    return _PATH_RE.sub(lambda m: "@FILE:" + m.group(1) + "@", a) if isinstance(a, str) else a


def compare_dumps(sf_out, ref_out):
    try:
        d_sf = json.loads(sf_out["d"])
        if not isinstance(d_sf, dict) or not {"argv", "stdin", "env"} <= set(d_sf):
            raise ValueError("not a dump object")
    except (KeyError, TypeError, ValueError) as e:
        # whatever StreamFlow did differently (extra output in the captured stream, truncated file ...) is a
        # disagreement, not a harness problem: the reference produced a readable dump from the same document
        return "dump-unreadable", f"StreamFlow's output object has no readable dump: {e}: {str(sf_out)[:300]}"
    d_ref = json.loads(ref_out["d"])
    a_sf = [_norm_arg(a) for a in d_sf["argv"]]
    a_ref = [_norm_arg(a) for a in d_ref["argv"]]
    if a_sf != a_ref:
        return "argv-mismatch", f"argv differs\n  StreamFlow: {json.dumps(a_sf)}\n  cwltool:    {json.dumps(a_ref)}"
    if d_sf["stdin"] != d_ref["stdin"]:
        return "stdin-mismatch", f"stdin differs: StreamFlow {str(d_sf['stdin'])[:80]} cwltool {str(d_ref['stdin'])[:80]}"
    if d_sf["env"] != d_ref["env"]:
        return "env-mismatch", f"environment differs\n  StreamFlow: {json.dumps(d_sf['env'])}\n  cwltool:    {json.dumps(d_ref['env'])}"
    return None


def _strings(o, acc):
    if isinstance(o, str):
        acc.append(o)
    elif isinstance(o, dict):
        if o.get("class") != "File":
            for v in o.values():
                _strings(v, acc)
    elif isinstance(o, list):
        for v in o:
            _strings(v, acc)


def measure(case) -> dict:
    doc, job = case["doc"], case["job"]
    labels = set()
    positions = set()
    bound = 0
    for name, decl in doc["inputs"].items():
        t = decl["type"]
        opt = isinstance(t, list)
        if opt:
            labels.add("type:optional")
            t = [x for x in t if x != "null"][0]
            labels.add("optional:" + ("null" if job.get(name) is None else "given"))
        if isinstance(t, dict):
            labels.add("type:" + t["type"] + ("-of-" + str(t["items"]) if t["type"] == "array" else ""))
            if "inputBinding" in t:
                labels.add("binding-on-array-schema")
        else:
            labels.add("type:" + t)
        b = decl.get("inputBinding")
        if b is not None and job.get(name) is not None:
            bound += 1
            positions.add(b.get("position", 0))
        for key in ("prefix", "itemSeparator", "valueFrom"):
            if b and key in b:
                labels.add("binding:" + key)
        if b and b.get("separate") is False:
            labels.add("binding:separate=false")
        if b and "shellQuote" in b:
            labels.add("binding:shellQuote=" + str(b["shellQuote"]).lower())
    reqs = doc.get("requirements", {})
    if "ShellCommandRequirement" in reqs:
        labels.add("ShellCommandRequirement")
    if "arguments" in doc:
        labels.add("arguments")
    if "stdin" in doc:
        labels.add("stdin")
    strs: list = []
    _strings(job, strs)
    _strings(doc.get("arguments", []), strs)
    env = reqs.get("EnvVarRequirement", {}).get("envDef", {})
    if env:
        labels.add("EnvVarRequirement")
        _strings(list(env.values()), strs)
        if any(set(v) & set('$`"\\') for v in env.values()):
            labels.add("env-value-with-$`\"\\")
    def floats(o):
        if isinstance(o, float):
            yield o
        elif isinstance(o, list):
            for x in o:
                yield from floats(x)
        elif isinstance(o, dict):
            for x in o.values():
                yield from floats(x)

    fl = list(floats(job)) + [d["default"] for d in doc["inputs"].values() if isinstance(d.get("default"), float)]
    for x in fl:
        labels.add("float:" + ("zero" if x == 0 else "tiny<1e-6" if abs(x) < 1e-6 else "huge>=1e16" if abs(x) >= 1e16
                               else "integral" if x.is_integer() else "fraction"))
        if x < 0:
            labels.add("float:negative")
    if any(isinstance(d.get("default"), float) for d in doc["inputs"].values()):
        labels.add("float:default")
    meta = False
    for v in strs:
        if v == "":
            labels.add("value:empty-string")
        cs = set(v)
        if cs & _META:
            meta = True
        for lab, chars in (("whitespace", " \t"), ("newline", "\n"), ("single-quote", "'"), ("double-quote", '"'),
                           ("dollar", "$"), ("backtick", "`"), ("backslash", "\\"), ("glob", "*?["), ("control-op", ";&|<>")):
            if cs & set(chars):
                labels.add("value:" + lab)
        if any(ord(c) > 127 for c in v):
            labels.add("value:unicode")
        if v.startswith("-"):
            labels.add("value:leading-dash")
    return {"labels": labels, "nontrivial": (bound >= 2 and len(positions) >= 2) or meta}


def composite_needs_quoting(case) -> bool:
    """an array/record input bound through an outer inputBinding whose prefix, items or joined value would
    need shell quoting (StreamFlow leaves such composite tokens unquoted)"""
    import shlex

    def unsafe(s):
        return isinstance(s, str) and shlex.quote(s) != s

    for name, decl in case["doc"]["inputs"].items():
        t = decl["type"]
        if isinstance(t, list):
            t = [x for x in t if x != "null"][0]
        b = decl.get("inputBinding")
        val = case["job"].get(name)
        if not isinstance(t, dict) or t.get("type") not in ("array", "record") or b is None or val is None:
            continue
        if unsafe(b.get("prefix")):
            return True
        if t["type"] == "array" and "inputBinding" not in t:
            items = [v for v in val if isinstance(v, str)]
            if "itemSeparator" in b and val:
                if unsafe(b["itemSeparator"].join(str(v) if not isinstance(v, dict) else "f" for v in val)):
                    return True
            elif any(unsafe(v) for v in items):
                return True
    return False


def _null_optional_enum(case) -> bool:
    for name, decl in case["doc"]["inputs"].items():
        t = decl["type"]
        if isinstance(t, list) and any(isinstance(x, dict) and x.get("type") == "enum" for x in t) \
                and case["job"].get(name) is None:
            return True
    return False


def _inner_binding_without_outer(case) -> bool:
    for decl in case["doc"]["inputs"].values():
        t = decl["type"]
        if isinstance(t, list):
            t = [x for x in t if x != "null"][0]
        if isinstance(t, dict) and t.get("type") == "array" and "inputBinding" in t and "inputBinding" not in decl:
            return True
    return False


def kind_for(case, symptom: str, detail: str) -> str:
    if symptom == "sf-fails-only" and "is not optional" in detail and _null_optional_enum(case):
        return "C30:optional-enum-null-rejected"
    if symptom == "argv-mismatch" and _inner_binding_without_outer(case):
        return "C30:array-schema-binding-without-outer-binding-order"
    env = case["doc"].get("requirements", {}).get("EnvVarRequirement", {}).get("envDef", {})
    if symptom in ("sf-fails-only", "argv-mismatch", "dump-unreadable") and composite_needs_quoting(case):
        return "C30:composite-binding-not-shell-quoted"
    if symptom in ("env-mismatch", "sf-fails-only", "argv-mismatch", "dump-unreadable") and any(
            set(v) & set('$`"\\') for v in env.values()):
        return "C30:env-value-shell-interpreted"
    return "C30:" + symptom


def known_shape_cases(seed: int = 1) -> list[dict]:
    """minimal tools of the recorded findings (kept out of most of the random search so that it can go on)"""
    from vf.cwlgen.gen_tools import DUMPTOOL, PYTHON

    def tool(inputs, job, env=None, shape=""):
        base = [PYTHON, DUMPTOOL] + (["--env=" + ",".join(env)] if env else [])
        doc = {"cwlVersion": "v1.2", "class": "CommandLineTool", "baseCommand": base, "inputs": inputs,
               "stdout": "dump.json",
               "outputs": {"d": {"type": "string", "outputBinding": {"glob": "dump.json", "loadContents": True,
                                                                     "outputEval": "$(self[0].contents)"}}},
               "requirements": {"InlineJavascriptRequirement": {}}}
        if env:
            doc["requirements"]["EnvVarRequirement"] = {"envDef": env}
        return {"shape": shape, "doc": doc, "job": job, "files": {}}

    a = {"a": {"type": "string", "inputBinding": {"position": 1}}}
    vals = ['a"b', "$HOME", "`echo x`", "x\\", 'q" && export VF_B="']
    cases = [tool(a, {"a": "v"}, {"VF_A": vals[seed % len(vals)], "VF_B": "plain"}, "env-value"),
             tool(a, {"a": "v"}, {"VF_A": vals[(seed + 1) % len(vals)]}, "env-value")]
    arr = {"xs": {"type": {"type": "array", "items": "string"}, "inputBinding": {"position": 1}}}
    cases.append(tool(arr, {"xs": ["x y", "z"]}, None, "composite-binding"))
    cases.append(tool({"xs": {"type": {"type": "array", "items": "string"},
                              "inputBinding": {"position": 1, "prefix": "--with space", "itemSeparator": ","}}},
                      {"xs": ["a", "b;c"]}, None, "composite-binding"))
    cases.append(tool(arr, {"xs": ["", "q'r", "$HOME"]}, None, "composite-binding"))
    cases.append(tool({"e": {"type": ["null", {"type": "enum", "symbols": ["alpha", "beta"]}], "inputBinding": {"position": 1}},
                       "a": {"type": "string", "inputBinding": {"position": 2}}}, {"a": "v"}, None, "optional-enum-null"))
    inner = {"type": "array", "items": "string", "inputBinding": {"position": 1, "prefix": "-I=", "separate": False}}
    cases.append(tool({"b0": {"type": inner}, "b2": {"type": "string", "inputBinding": {"position": 1}},
                       "x1": {"type": "string", "inputBinding": {}}}, {"b0": ["p", "q"], "b2": "B", "x1": "X"}, None,
                      "array-schema-binding-without-outer"))
    return cases


def gen_known_shapes(tier):
    cases = known_shape_cases(_seed())
    if tier == "quick":
        for i in (0, 2, 5, 6):
            yield cases[i]
    else:
        yield from cases


@prop.enumerated("known-shapes", gen_known_shapes, exhaustive=False)
def check_known_shapes(case, rec):
    rec.label("shape:" + case["shape"])
    check_tool(case, rec)
    rec.nontrivial(True)


@prop.enumerated("tools", gen_tools, exhaustive=False)
def check_tool(case, rec):
    from vf.cwlgen import diffcheck, writer

    m = measure(case)
    rec.label(*sorted(m["labels"]))
    root = tempfile.mkdtemp(prefix="vf-c30-")
    try:
        paths = writer.materialise(case, root)
        out = diffcheck.differential(paths, root, compare=compare_dumps)
        if out.flaky:
            rec.label("flaky-disagreement-not-reproduced")
        rec.nontrivial(m["nontrivial"])
        if out.symptom is not None:
            raise Violation(kind_for(case, out.symptom, out.detail), out.detail)
        rec.label("outcome:" + out.verdict)
    finally:
        shutil.rmtree(root, ignore_errors=True)
