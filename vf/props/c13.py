"""C13 Jobs go to the first admissible declared target."""
from __future__ import annotations

from hypothesis import strategies as st

import logging

from streamflow.log_handler import logger as _sf_logger

_sf_logger.setLevel(logging.CRITICAL)  # per-job filter warnings would be 11 MB of stderr per run
from vf.core import Prop, Violation
from vf import sched_model as sm

prop = Prop(
    "C13",
    level="exploration",
    technique="Hypothesis PBT: MatchingBindingFilter chains against a 10-line reference filter (survivors as an ordered list); "
              "schedule() on instrumented connectors against the independent capacity model (first surviving target, in declared "
              "order, that the model finds admissible at the time of the grant); get_binding_config against the declared StreamFlow-file order",
    rule=(
        "filter tier: 1..4 targets over 1..3 deployments x services {none, svc0, svc1}, chains of 1..2 matching filters with 1..3 "
        "rules x 1..2 predicates, job inputs from the predicate value pool (strings and ints); non-trivial = >= 2 targets survive the "
        "whole chain. scheduler tier: histories (schedule / notify / recover, quiescence after every operation) over 1..3 "
        "non-stacked deployments with bindings of 1..4 targets and 0..2 filters; non-trivial = some grant happened while >= 2 "
        "surviving targets were admissible at once (measured with the model). binding-config tier: StreamFlow-file bindings with "
        "1..4 targets and 0..2 filters; non-trivial = >= 2 targets. Distinct by the whole case."
    ),
    level_text="Random search with independent reference implementations of the filter semantics and of admissibility.",
    level_note="The scheduler tier uses non-stacked deployments (stacked accounting is C10-C12's subject); every operation is followed "
               "by quiescence so that each grant has a single cause; ShuffleBindingFilter is excluded (the statement is about shuffle-free chains).",
    assumptions=["job inputs used by predicates are present and primitive (other cases raise documented exceptions)",
                 "notification histories follow the callers' protocol (DESIGN R1c)"],
)
prop.engine = "detloop"

# ---- filter tier -------------------------------------------------------------------------------

target_desc = st.tuples(st.integers(0, 2), st.sampled_from([None, None, 0, 1]))


@st.composite
def filter_case_strategy(draw):
    targets = [list(t) for t in draw(st.lists(target_desc, min_size=1, max_size=4))]
    inputs = draw(sm.job_inputs)
    chain = draw(sm.filter_chain(3, max_filters=2, targets=targets, inputs=inputs).filter(lambda c: len(c) >= 1))
    return {"targets": targets, "chain": chain, "inputs": inputs}


filter_case = filter_case_strategy()


def ref_chain(targets, chain, inputs):
    """Reference semantics: a target survives a filter iff some rule has the same deployment, no
    service or the same service, and every predicate equal to str(input value); order is kept.
    Returns (stage at which nothing survives or None, surviving indices)."""
    alive = list(range(len(targets)))
    for stage, rules in enumerate(chain):
        nxt = []
        for i in alive:
            dep, svc = targets[i]
            if any(rdep == dep and (rsvc is None or rsvc == svc) and all(str(inputs[f"p{p}"]) == m for p, m in preds)
                   for rdep, rsvc, preds in rules):
                nxt.append(i)
        alive = nxt
        if not alive:
            return stage, []
    return None, alive


@prop.given("filter", filter_case, quick=3000, thorough=60000)
async def check_filter(case, rec):
    from streamflow.core.deployment import DeploymentConfig, Target
    from streamflow.core.exception import WorkflowExecutionException
    from streamflow.core.workflow import Job, Token
    from streamflow.deployment.filter import MatchingBindingFilter

    def make(i):
        dep, svc = case["targets"][i]
        return Target(deployment=DeploymentConfig(name=f"d{dep}", type="local", config={}), service=None if svc is None else f"svc{svc}")

    filters = []
    for fi, rules in enumerate(case["chain"]):
        cfg = [{"target": f"d{dep}" if svc is None else {"deployment": f"d{dep}", "service": f"svc{svc}"},
                "job": [{"port": f"p{p}", "match": m} for p, m in preds]} for dep, svc, preds in rules]
        filters.append(MatchingBindingFilter(name=f"f{fi}", filters=cfg))
    job = Job("/step/0.0", 0, {k: Token(v) for k, v in case["inputs"].items()}, None, None, None)
    dead_stage, expected = ref_chain(case["targets"], case["chain"], case["inputs"])
    rec.label(f"targets={len(case['targets'])}", f"filters={len(filters)}", f"survivors={min(len(expected), 3)}{'+' if len(expected) > 3 else ''}")
    if any(isinstance(v, int) for v in case["inputs"].values()):
        rec.label("int-input")
    rec.nontrivial(len(expected) >= 2)
    # Target objects hash by identity, so the output order of an order-insensitive container depends on
    # memory addresses. The verdict is made a function of the case by repeating the evaluation on fresh
    # Target objects (all kept alive, so every trial sees new addresses): a set-based implementation
    # keeps two survivors in declared order with probability ~1/2 per trial (measured), i.e. escapes
    # TRIALS trials with probability ~2**-TRIALS; an order-preserving one passes every trial.
    keep = []
    for trial in range(TRIALS if len(expected) >= 2 else 1):
        targets = [make(i) for i in range(len(case["targets"]))]
        keep.append(targets)
        cur = list(targets)
        raised_at = None
        for stage, f in enumerate(filters):
            try:
                cur = await f.get_targets(job, cur)
            except WorkflowExecutionException:
                raised_at = stage
                break
        if dead_stage is not None:
            if raised_at != dead_stage:
                raise Violation("C13:filter-empty-no-exception" if raised_at is None else "C13:filter-unexpected-exception",
                                f"nothing survives filter #{dead_stage}, code raised at {raised_at}")
            continue
        if raised_at is not None:
            raise Violation("C13:filter-unexpected-exception", f"targets {expected} survive, but filter #{raised_at} raised")
        got = [next((i for i, t in enumerate(targets) if t is g), -1) for g in cur]
        if sorted(got) != sorted(expected):
            raise Violation("C13:filter-survivors", f"survivors {got}, expected {expected} (duplicates count)")
        if got != expected:
            raise Violation("C13:filter-order-lost", f"get_targets returned targets in order {got}, declared order of the survivors is {expected} (trial {trial})")


TRIALS = 40


# ---- scheduler tier ----------------------------------------------------------------------------


@prop.given("scheduler", sm.history_case(filters=True, allow_stack=False, max_ops=24), quick=1200, thorough=20000)
async def check_scheduler(case, rec):
    h = await sm.run_history(case, "C13", serial=True)
    s = h.stats
    w = case["world"]
    rec.label(f"deployments={len(w['deps'])}")
    nf = max((len(b.get("filters", [])) for b in w["bindings"]), default=0)
    rec.label(f"max-filters={nf}")
    if s["c13_choice"]:
        rec.label("grant-with->=2-admissible")
    if s["c13_not_first_declared"]:
        rec.label("first-admissible-is-not-first-declared")
    if s.get("c13_skipped_first"):
        rec.label("first-target-inadmissible-placed-on-a-later-one")
    if s["waited_granted"]:
        rec.label("waited-then-granted")
    if s.get("no_survivor"):
        rec.label("no-survivor:documented-exception")
    if s["resched"]:
        rec.label("rescheduled-after-rollback")
    rec.nontrivial(s["c13_choice"] >= 1)


# ---- binding-config tier -----------------------------------------------------------------------

bc_target = st.fixed_dictionaries(
    {"deployment": st.sampled_from(["d0", "d1", "d2"])},
    optional={"service": st.sampled_from(["svc0", "svc1"]), "locations": st.integers(1, 3), "workdir": st.sampled_from(["/w0", "/w1"])},
)
bc_case = st.fixed_dictionaries({
    "targets": st.lists(bc_target, min_size=1, max_size=4),
    "single": st.booleans(),  # a single target may be written without the list
    "filters": st.lists(st.sampled_from(["fa", "fb", "fc"]), max_size=2, unique=True),
    "step": st.sampled_from(["/a", "/a/b", "/c"]),
})


@prop.given("binding-config", bc_case, quick=800, thorough=10000)
def check_binding_config(case, rec):
    import copy

    from streamflow.config.config import WorkflowConfig
    from streamflow.deployment.utils import get_binding_config

    targets = copy.deepcopy(case["targets"])
    as_single = case["single"] and len(targets) == 1
    cfg = {
        "workflows": {"w": {"type": "cwl", "config": {}, "bindings": [
            {"step": case["step"], "target": targets[0] if as_single else targets, "filters": list(case["filters"])}]}},
        "deployments": {d: {"type": "ssh", "config": {"n": d}, "workdir": f"/dep-{d}"} for d in ("d0", "d1", "d2")},
        "bindingFilters": {f: {"type": "matching", "config": {"filters": [{"target": "d0", "job": [{"port": "p0", "match": f}]}]}} for f in ("fa", "fb", "fc")},
    }
    wc = WorkflowConfig("w", cfg)
    bc = get_binding_config(case["step"], "step", wc)
    got = [(t.deployment.name, t.service, t.locations, t.workdir) for t in bc.targets]
    exp = [(t["deployment"], t.get("service"), t.get("locations", 1), t.get("workdir", f"/dep-{t['deployment']}")) for t in case["targets"]]
    rec.label(f"targets={len(exp)}", f"filters={len(case['filters'])}")
    rec.nontrivial(len(exp) >= 2)
    if got != exp:
        kind = "C13:binding-config-order" if sorted(map(repr, got)) == sorted(map(repr, exp)) else "C13:binding-config-targets"
        raise Violation(kind, f"get_binding_config targets {got}, declared {exp}")
    gf = [(f.name, f.type) for f in bc.filters]
    if gf != [(f, "matching") for f in case["filters"]]:
        raise Violation("C13:binding-config-filters", f"filters {gf}, declared {case['filters']}")
