"""C34 Exported run provenance archive is self-contained and consistent.

C29-style generated workflows (File inputs/outputs favoured) are run by StreamFlow with a *file*
database, exported through the ``streamflow prov`` code path (``streamflow.main.main(["prov", ...])``)
and the resulting Workflow Run RO-Crate zip is checked against the job object, the runner's output
object and the bytes in the archive.
"""
from __future__ import annotations

import hashlib
import json
import os
import re
import shutil
import tempfile
import zipfile

from vf.core import HarnessError, Prop, Violation
from hypothesis import strategies as st

from vf.props.c29 import _budget, _seed, draw_cases, focused_cases

prop = Prop(
    "C34",
    level="exploration",
    technique="generated CWL runs exported with `streamflow prov`; archive checked against the run's job/output objects",
    rule=(
        "a case = a generated workflow (C29 generator, classes favouring File values) that StreamFlow completes with a "
        "file database; the archive produced by the prov command is opened and checked; non-trivial = the run has "
        ">= 1 File input or output value and >= 2 steps, and the export produced an archive; distinct by the whole case"
    ),
    level_text=(
        "Random search over completed runs; the oracle is independent of the exporter: JSON-LD well-formedness and "
        "reference closure, archive members re-hashed, and the run's input/output values taken from the job file "
        "and from the runner's printed output object."
    ),
    level_note=(
        "Values are matched in the exporter's documented shape (Workflow Run RO-Crate): scalars as PropertyValue with "
        "the value's text, files as File entities named by their sha1, arrays as the flattened list of their "
        "non-null leaves (one leaf = the bare value), records as nested PropertyValues. Array nesting and null "
        "positions are therefore not claimed. Workflows that StreamFlow does not complete are skipped (C29 owns them)."
    ),
    assumptions=[
        "an entity is a data entity when its @type contains File or Dataset and its @id is relative "
        "(no scheme, not '#...', not '_:...', not './')",
        "sha1 of File entities is recomputed from the archived bytes; contentSize is checked only if recorded",
    ],
)

QUICK_RUNS = 16
THOROUGH_RUNS = 400
_FOCI = ["files", "files", "scatter+when", "subworkflow", "records-nulls", "linkMerge:merge_nested", "loop:last", None]


def gen_runs(tier):
    from vf.cwlgen import gen

    n = _budget(QUICK_RUNS if tier == "quick" else THOROUGH_RUNS)

    def make(focus=None):
        # (an output whose outputSource is a workflow input, or a File literal returned by an ExpressionTool, makes the
        # export crash: known findings, exercised by the known-shapes sub-check)
        return gen.workflow_cases(focus=focus, file_bias=0.7, allow_fail=False, max_steps=4, passthrough=False,
                                  with_file_input=True, file_literals=False)

    yield from focused_cases(make, _FOCI, n, _seed() + 340000)


# ------------------------------------------------------------------------------------------------
# oracle

_ABS = re.compile(r"^[A-Za-z][A-Za-z0-9+.\-]*:")


def _types(e) -> list:
    t = e.get("@type", [])
    return t if isinstance(t, list) else [t]


def _is_relative_id(i: str) -> bool:
    return not (i.startswith("#") or i.startswith("_:") or i in ("./", "ro-crate-metadata.json") or _ABS.match(i))


def _refs(o, acc, top=True):
    if isinstance(o, dict):
        if not top and set(o) == {"@id"}:
            acc.append(o["@id"])
        for k, v in o.items():
            if not (top and k == "@id"):
                _refs(v, acc, False)
    elif isinstance(o, list):
        for v in o:
            _refs(v, acc, False)


def check_structure(meta: dict, members: dict) -> None:
    graph = meta.get("@graph")
    if not isinstance(graph, list) or "@context" not in meta:
        raise Violation("C34:metadata-not-jsonld", f"no @context/@graph list: keys {sorted(meta)}")
    ids = [e.get("@id") for e in graph]
    if any(not isinstance(i, str) for i in ids):
        raise Violation("C34:entity-without-id", str([e for e in graph if not isinstance(e.get("@id"), str)])[:500])
    dup = sorted({i for i in ids if ids.count(i) > 1})
    if dup:
        raise Violation("C34:duplicate-ids", f"@id values occurring more than once in @graph: {dup[:5]}")
    idset = set(ids)
    for e in graph:
        acc: list = []
        _refs(e, acc)
        for r in acc:
            if r not in idset and not (_ABS.match(r) and not r.startswith("_:")):
                raise Violation("C34:dangling-reference",
                                f"entity {e['@id']} references {r!r}, which is neither in @graph nor an absolute IRI")
    for e in graph:
        ts = _types(e)
        i = e["@id"]
        if ("File" in ts or "Dataset" in ts) and _is_relative_id(i):
            if "File" in ts:
                if i not in members:
                    raise Violation("C34:file-entity-missing-from-archive",
                                    f"File entity {i!r} ({e.get('alternateName')}) is not a member of the archive "
                                    f"(members: {sorted(members)[:12]})")
                data = members[i]
                if "sha1" in e and e["sha1"] != hashlib.sha1(data).hexdigest():
                    raise Violation("C34:file-checksum-mismatch",
                                    f"entity {i!r} records sha1 {e['sha1']} but the archived bytes hash to "
                                    f"{hashlib.sha1(data).hexdigest()}")
                if "contentSize" in e and str(e["contentSize"]) != str(len(data)):
                    raise Violation("C34:file-size-mismatch", f"entity {i!r}: contentSize {e['contentSize']} != {len(data)}")
            elif not any(m.startswith(i.rstrip("/") + "/") for m in members) and e.get("hasPart"):
                raise Violation("C34:dataset-missing-from-archive", f"Dataset {i!r} has parts but no member lies under it")


def _leaves(v, files_sha: dict, acc: list) -> None:
    """expected leaves of a value: ('s', text) scalars, ('f', sha1) files; nulls vanish; records are separate"""
    if v is None:
        return
    if isinstance(v, list):
        for x in v:
            _leaves(x, files_sha, acc)
    elif isinstance(v, dict) and v.get("class") == "File":
        acc.append(("f", files_sha(v)))
    elif isinstance(v, dict) and v.get("class") == "Directory":
        acc.append(("d", files_sha(v)))  # sorted sha1 of every regular file below the directory
    elif isinstance(v, dict):
        acc.append(("r", v))
    else:
        acc.append(("s", v))


def _scalar_matches(text, v) -> bool:
    if isinstance(v, bool):
        return isinstance(text, (str, bool)) and str(text).lower() == str(v).lower()
    if isinstance(v, (int, float)):
        try:
            return float(text) == float(v)
        except (TypeError, ValueError):
            return False
    return text == v


def _entity_leaves(e: dict, by_id: dict) -> list | None:
    """leaves represented by an entity: File entity -> its sha1; PropertyValue -> its value(s)"""
    ts = _types(e)
    if "File" in ts:
        return [("f", e.get("sha1", e["@id"]))]
    if "Dataset" in ts:
        shas: list = []

        def parts(x, seen):
            for p in x.get("hasPart", []) if isinstance(x.get("hasPart"), list) else []:
                t = by_id.get(p.get("@id"))
                if t is None or t["@id"] in seen:
                    continue
                seen.add(t["@id"])
                if "File" in _types(t):
                    shas.append(t.get("sha1", t["@id"]))
                elif "Dataset" in _types(t):
                    parts(t, seen)

        parts(e, {e["@id"]})
        return [("d", sorted(shas))]
    if "PropertyValue" not in ts:
        return None
    val = e.get("value")
    vals = val if isinstance(val, list) else [val]
    if vals and all(isinstance(x, dict) and "PropertyValue" in _types(by_id.get(x.get("@id"), x))
                    and str(by_id.get(x.get("@id"), x).get("name", "")).startswith(str(e.get("name")) + "/") for x in vals):
        return [("r", e)]  # a record: one nested PropertyValue per field, named <name>/<field>
    out = []
    for x in vals:
        if isinstance(x, dict) and "@id" in x:
            tgt = by_id.get(x["@id"], x)
            if "File" in _types(tgt):
                out.append(("f", tgt.get("sha1", tgt["@id"])))
            elif "PropertyValue" in _types(tgt) or "PropertyValue" in _types(x):
                out.append(("r", tgt if "value" in tgt else x))
            else:
                out.append(("?", x["@id"]))
        else:
            out.append(("s", x))
    return out


def _leaves_match(found: list, expected: list, by_id: dict) -> bool:
    if len(found) != len(expected):
        return False
    for (fk, fv), (ek, ev) in zip(found, expected):
        if ek in ("f", "d"):
            if fk != ek or fv != ev:
                return False
        elif ek == "s":
            if fk != "s" or not _scalar_matches(fv, ev):
                return False
        else:  # record: a nested PropertyValue whose value lists one PropertyValue per non-null field
            if fk != "r":
                return False
            sub = fv.get("value")
            sub = sub if isinstance(sub, list) else [sub]
            names = {}
            for s in sub:
                s = by_id.get(s.get("@id"), s) if isinstance(s, dict) else s
                if isinstance(s, dict):
                    names[str(s.get("name", "")).split("/")[-1]] = s.get("value")
            for k, v in ev.items():
                if v is None:
                    continue
                if k not in names or not _scalar_matches(names[k], v):
                    return False
    return True


def check_values(meta: dict, wf_file: str, which: str, values: dict, files_sha) -> int:
    """every non-null workflow input/output value has an entity that is an exampleOfWork of its parameter and
    carries exactly its leaves. Returns the number of values checked."""
    graph = meta["@graph"]
    by_id = {e["@id"]: e for e in graph}
    n = 0
    for name, v in values.items():
        exp: list = []
        _leaves(v, files_sha, exp)
        if v is None:
            continue
        param = f"{wf_file}#{name}"
        if param not in by_id:
            raise Violation(f"C34:{which}-parameter-missing", f"no FormalParameter {param!r} in @graph")
        cands = []
        for e in graph:
            eow = e.get("exampleOfWork")
            eow = eow if isinstance(eow, list) else ([eow] if eow else [])
            if any(isinstance(x, dict) and x.get("@id") == param for x in eow):
                cands.append(e)
        if isinstance(v, list) and not exp:
            # an empty array (or one of nulls only): represented by an empty value or not at all — nothing to match
            n += 1
            continue
        ok = False
        for e in cands:
            found = _entity_leaves(e, by_id)
            if found is not None and _leaves_match(found, exp, by_id):
                ok = True
                break
            if found is not None and exp and all(k == "r" for k, _ in exp) and len(found) == 1 and found[0][0] == "r":
                # an array of records is exported as ONE PropertyValue holding the field values of all records in
                # order (record boundaries are not kept): compare the flattened (field, value) sequences
                want = [(k, x) for _, r in exp for k, x in r.items() if x is not None]
                sub = found[0][1].get("value")
                sub = sub if isinstance(sub, list) else [sub]
                got = []
                for s_ in sub:
                    s_ = by_id.get(s_.get("@id"), s_) if isinstance(s_, dict) else {}
                    got.append((str(s_.get("name", "")).split("/")[-1], s_.get("value")))
                if len(got) == len(want) and all(g[0] == w[0] and _scalar_matches(g[1], w[1]) for g, w in zip(got, want)):
                    ok = True
                    break
        if not ok and not isinstance(v, list) and len(exp) == 1 and exp[0][0] == "f":
            ok = any("File" in _types(e) and e.get("sha1") == exp[0][1] for e in cands)
        if not ok:
            shown = [{k: e.get(k) for k in ("@id", "@type", "name", "value", "sha1")} for e in cands]
            raise Violation(
                f"C34:{which}-value-not-represented",
                f"workflow {which} {name!r} = {json.dumps(v)[:300]} (expected leaves {exp[:8]}) has no matching entity "
                f"among the {len(cands)} entities that are exampleOfWork of {param}: {json.dumps(shown)[:900]}")
        n += 1
    return n


def _has_file(o) -> bool:
    if isinstance(o, dict):
        return o.get("class") in ("File", "Directory") or any(_has_file(v) for v in o.values())
    if isinstance(o, list):
        return any(_has_file(v) for v in o)
    return False


def gen_known_shapes(tier):
    """a workflow output whose outputSource is a workflow input (the exporter crashes on it)"""
    from vf.cwlgen import tools as T
    from vf.cwlgen.gen import TOP_REQS

    inc = {p["tag"]: p for p in T.expression_tools()}["affine"]["doc"]
    base = {"cwlVersion": "v1.2", "class": "Workflow", "requirements": dict(TOP_REQS),
            "inputs": {"a": {"type": "int"}, "f": {"type": "File"}},
            "outputs": {"o": {"type": "int", "outputSource": "s/o"}, "p": {"type": "File", "outputSource": "f"}},
            "steps": {"s": {"run": inc, "in": {"a": {"source": "a"}}, "out": ["o"]},
                      "t": {"run": inc, "in": {"a": {"source": "s/o"}}, "out": ["o"]}}}
    base["outputs"]["q"] = {"type": "int", "outputSource": "t/o"}
    yield {"shape": "output-from-workflow-input", "doc": base, "job": {"a": 3 + _seed() % 9, "f": {"class": "File", "path": "in0.txt"}},
           "files": {"in0.txt": "payload\n"}}
    mkfile = {p["tag"]: p for p in T.expression_tools()}["mkfile"]["doc"]
    lit = {"cwlVersion": "v1.2", "class": "Workflow", "requirements": dict(TOP_REQS),
           "inputs": {"a": {"type": "int"}, "f": {"type": "File"}},
           "outputs": {"o": {"type": "int", "outputSource": "s/o"}, "g": {"type": "File", "outputSource": "m/f"}},
           "steps": {"s": {"run": inc, "in": {"a": {"source": "a"}}, "out": ["o"]},
                     "m": {"run": mkfile, "in": {"s": {"default": "abc"}, "dep": {"source": "a"}}, "out": ["f"]}}}
    yield {"shape": "file-literal-output", "doc": lit, "job": {"a": 5, "f": {"class": "File", "path": "in0.txt"}},
           "files": {"in0.txt": "payload\n"}}
    if tier != "quick":
        sub = {"class": "Workflow", "inputs": {"a": {"type": "int"}},
               "outputs": {"o": {"type": "int", "outputSource": "a"}, "r": {"type": "int", "outputSource": "s/o"}},
               "steps": {"s": {"run": inc, "in": {"a": {"source": "a"}}, "out": ["o"]}}}
        doc = {"cwlVersion": "v1.2", "class": "Workflow", "requirements": dict(TOP_REQS),
               "inputs": {"a": {"type": "int"}, "f": {"type": "File"}},
               "outputs": {"o": {"type": "int", "outputSource": "w/o"}, "r": {"type": "int", "outputSource": "w/r"}},
               "steps": {"w": {"run": sub, "in": {"a": {"source": "a"}}, "out": ["o", "r"]}}}
        yield {"shape": "output-from-workflow-input", "doc": doc, "job": {"a": 4, "f": {"class": "File", "path": "in0.txt"}},
               "files": {"in0.txt": "x\n"}}


@prop.enumerated("known-shapes", gen_known_shapes, exhaustive=False)
def check_known_shapes(case, rec):
    rec.label("shape:" + case["shape"])
    try:
        check_export(case, rec)
    finally:
        rec.nontrivial(True)


def _outputs_from_inputs(doc) -> bool:
    def walk(wf):
        for out in wf.get("outputs", {}).values():
            srcs = out.get("outputSource")
            for s_ in (srcs if isinstance(srcs, list) else [srcs]):
                if isinstance(s_, str) and "/" not in s_:
                    return True
        return any(isinstance(st.get("run"), dict) and st["run"].get("class") == "Workflow" and walk(st["run"])
                   for st in wf.get("steps", {}).values())
    return walk(doc)


def export_and_check(case, rec, root, paths, sf, job, archive_name: str, steps: int) -> int:
    """`streamflow prov wf` on the database of `paths`, then the whole oracle against `job` and `sf.output`.
    Returns the number of values checked; raises Violation."""
    from vf.cwlgen import normalise, run

    pr = run.run_prov(paths, root, "wf", archive_name, os.path.join(root, "prov"))
    archive = os.path.join(root, "prov", archive_name)
    if pr.rc != 0 or not os.path.exists(archive):
        rec.nontrivial(steps >= 2 and (_has_file(job) or _has_file(sf.output)))
        kind = f"C34:export-fails:{pr.error_type()}"
        if pr.error_type() == "KeyError" and "_get_source" in pr.stderr and _outputs_from_inputs(case["doc"]):
            kind = "C34:export-fails:output-from-workflow-input"
        elif pr.error_type() == "KeyError" and "_process_file_token" in pr.stderr and "contents" in json.dumps(case["doc"]):
            kind = "C34:export-fails:file-literal-without-checksum"
        raise Violation(kind, "streamflow prov failed on a completed run:\n" + run._strip_ansi(pr.stderr)[-1500:])
    try:
        with zipfile.ZipFile(archive) as z:
            names = z.namelist()
            files = [n for n in names if not n.endswith("/")]  # (directory entries may repeat: harmless)
            if len(set(files)) != len(files):
                raise Violation("C34:duplicate-archive-members", f"{sorted(n for n in files if files.count(n) > 1)[:5]}")
            members = {n: z.read(n) for n in names}
    except zipfile.BadZipFile as e:
        raise Violation("C34:archive-not-a-zip", str(e))
    if "ro-crate-metadata.json" not in members:
        raise Violation("C34:metadata-missing", f"members: {sorted(members)[:10]}")
    try:
        meta = json.loads(members["ro-crate-metadata.json"].decode("utf-8"))
    except ValueError as e:
        raise Violation("C34:metadata-not-json", str(e))
    check_structure(meta, members)

    def job_sha(v):
        if v.get("class") == "Directory":
            prefix = v["path"].rstrip("/") + "/"
            return sorted(hashlib.sha1(c.encode("utf-8")).hexdigest() for n, c in case["files"].items() if n.startswith(prefix))
        return hashlib.sha1(case["files"][v["path"]].encode("utf-8")).hexdigest()

    def out_sha(v):
        if v.get("class") == "Directory":
            path = normalise._local_path(v)
            if path is None or not os.path.isdir(path):
                raise HarnessError(f"output directory of the run not found: {v}")
            out = []
            for d, _, fs in os.walk(path):
                for f in fs:
                    with open(os.path.join(d, f), "rb") as fh:
                        out.append(hashlib.sha1(fh.read()).hexdigest())
            return sorted(out)
        issues: list = []
        nv = normalise.normalise(v, issues)
        if "sha1" not in nv:
            raise HarnessError(f"output file of the run not found: {v}")
        return nv["sha1"]

    n_in = check_values(meta, "wf.cwl", "input", dict(job), job_sha)
    n_out = check_values(meta, "wf.cwl", "output", sf.output, out_sha)
    return n_in + n_out


@prop.enumerated("export", gen_runs, exhaustive=False)
def check_export(case, rec):
    from vf.cwlgen import features, run, writer

    m = features.measure(case)
    rec.label(*sorted("feat:" + f for f in m["features"] if not f.startswith("step-default")))
    root = tempfile.mkdtemp(prefix="vf-c34-")
    try:
        paths = writer.materialise(case, root, sf_database=os.path.join(root, "sf.sqlite"))
        sf = run.run_streamflow(paths, root)
        if not sf.ok:
            rec.label("run-not-completed")  # C29's business; nothing to export
            return
        rec.label("run-completed")
        n = export_and_check(case, rec, root, paths, sf, case["job"], "wf.crate.zip", m["steps"])
        has_file = _has_file(case["job"]) or _has_file(sf.output)
        rec.label("file-input" if _has_file(case["job"]) else "no-file-input",
                  "file-output" if _has_file(sf.output) else "no-file-output",
                  f"values-checked:{min(n, 8)}" + ("+" if n >= 8 else ""))
        if any(isinstance(v, dict) and v.get("class") == "Directory" for v in list(case["job"].values()) + list(sf.output.values())):
            rec.label("directory-value")
        rec.nontrivial(m["steps"] >= 2 and has_file)
    finally:
        shutil.rmtree(root, ignore_errors=True)


# ------------------------------------------------------------------------------------------------
# the same workflow name run twice in one database: `prov NAME` (without --all) exports the LATEST run


def _vary(v, files: dict):
    """a different value of the same type and shape (array lengths kept: dotproduct scatters stay valid)"""
    if isinstance(v, bool):
        return not v
    if isinstance(v, int):
        return v + 1 if v < 900 else v - 1
    if isinstance(v, float):
        return v + 0.5
    if isinstance(v, str):
        return v + "2"
    if isinstance(v, list):
        return [_vary(x, files) for x in v]
    if isinstance(v, dict) and v.get("class") == "File":
        name = "r2_" + v["path"]
        files[name] = "second run\n" + files[v["path"]]
        return {"class": "File", "path": name}
    if isinstance(v, dict):
        return {k: _vary(x, files) for k, x in v.items()}
    return v


def gen_reruns(tier):
    from vf.cwlgen import gen

    n = _budget(6 if tier == "quick" else 100)

    def make(focus=None):
        return gen.workflow_cases(focus=focus, file_bias=0.7, allow_fail=False, max_steps=3, passthrough=False,
                                  with_file_input=True, file_literals=False)

    for case in focused_cases(make, ["files", "valueFrom", None], n, _seed() + 341000):
        files = dict(case["files"])
        job2 = {k: _vary(v, files) for k, v in case["job"].items()}
        for name, decl in case["doc"]["inputs"].items():
            if name not in job2 and decl.get("default") is not None and not isinstance(decl["default"], dict):
                job2[name] = _vary(decl["default"], files)  # run 2 overrides what run 1 took from the default
        yield {"doc": case["doc"], "job": case["job"], "job2": job2, "files": files}


@prop.enumerated("rerun-same-name", gen_reruns, exhaustive=False)
def check_rerun(case, rec):
    from vf.cwlgen import features, run, writer

    m = features.measure(case)
    root = tempfile.mkdtemp(prefix="vf-c34-")
    try:
        paths = writer.materialise(case, root, sf_database=os.path.join(root, "sf.sqlite"))
        job2_path = os.path.join(root, "job2.json")
        with open(job2_path, "w", encoding="utf-8") as f:
            json.dump(case["job2"], f, indent=1, ensure_ascii=False)
        sf1 = run.run_streamflow(paths, root, tag="sf-run1")
        if not sf1.ok:
            rec.label("run-not-completed")
            return
        n1 = export_and_check(case, rec, root, paths, sf1, case["job"], "run1.crate.zip", m["steps"])
        sf2 = run.run_streamflow(dict(paths, job=job2_path), root, tag="sf-run2")
        if not sf2.ok:
            rec.label("second-run-not-completed")
            rec.nontrivial(False)
            return
        rec.label("two-runs-completed")
        try:
            n2 = export_and_check(case, rec, root, paths, sf2, case["job2"], "run2.crate.zip", m["steps"])
        except Violation as v:
            if v.kind.endswith("-value-not-represented"):
                raise Violation("C34:rerun:" + v.kind.split(":", 1)[1],
                                "after a SECOND run of the same workflow name in the same database, `prov` (latest "
                                "execution) does not represent that run: " + v.message)
            raise
        rec.label(f"values-checked:{min(n1 + n2, 12)}" + ("+" if n1 + n2 >= 12 else ""))
        rec.nontrivial(json.dumps(case["job"], sort_keys=True) != json.dumps(case["job2"], sort_keys=True))
    finally:
        shutil.rmtree(root, ignore_errors=True)


# ------------------------------------------------------------------------------------------------
# Directory inputs and outputs: several regular files per folder, nested folders

_NAMES = ["a.txt", "b.txt", "data.csv", "x y.txt", "Zed", "k_1.log", "n0", "é.txt"]
_SUBS = ["sub", "deep dir", "s2", "more"]


@st.composite
def directory_cases(draw):
    from vf.cwlgen.gen import G, TOP_REQS

    g = G(draw)
    files: dict = {}
    uniq = [0]

    def fill(prefix, k):
        for name in g.rnd.sample(_NAMES, k):
            uniq[0] += 1
            files[f"{prefix}/{name}"] = g.pick(["", "one line\n", "l1\nl2\n", "no newline", "x" * 200]) + f"#{uniq[0]}\n"

    fill("dir0", g.i(2, 4))
    for sub in g.rnd.sample(_SUBS, g.i(1, 2)):
        fill(f"dir0/{sub}", g.i(2, 3))
        if g.p(0.3):
            fill(f"dir0/{sub}/inner", g.i(1, 2))
    extra = g.rnd.sample(["extra.txt", "new1", "new 2.txt", "z.out"], g.i(2, 3))
    script = "mkdir out && cp -r \"$0\"/. out/ && mkdir out/made && " + " && ".join(
        f"echo made{i}-$1 > 'out/{n}' && echo sub{i}-$1 > 'out/made/{n}'" for i, n in enumerate(extra))
    mk = {"class": "CommandLineTool", "baseCommand": ["sh", "-c", script],
          "inputs": {"d": {"type": "Directory", "inputBinding": {"position": 1}},
                     "a": {"type": "int", "inputBinding": {"position": 2}}},
          "outputs": {"o": {"type": "Directory", "outputBinding": {"glob": "out"}}}}
    count = {"class": "CommandLineTool", "baseCommand": ["sh", "-c", "ls \"$0\"/ | wc -l"],
             "inputs": {"d": {"type": "Directory", "inputBinding": {"position": 1}}}, "stdout": "n.txt",
             "outputs": {"n": {"type": "int", "outputBinding": {"glob": "n.txt", "loadContents": True,
                                                                 "outputEval": "$(parseInt(self[0].contents))"}}}}
    steps = {"m": {"run": mk, "in": {"d": {"source": "d"}, "a": {"source": "a"}}, "out": ["o"]}}
    outputs = {"o": {"type": "Directory", "outputSource": "m/o"}}
    if g.p(0.7):
        steps["c"] = {"run": count, "in": {"d": {"source": "m/o" if g.p(0.5) else "d"}}, "out": ["n"]}
        outputs["n"] = {"type": "int", "outputSource": "c/n"}
    doc = {"cwlVersion": "v1.2", "class": "Workflow", "requirements": dict(TOP_REQS),
           "inputs": {"d": {"type": "Directory"}, "a": {"type": "int"}}, "outputs": outputs, "steps": steps}
    return {"doc": doc, "job": {"d": {"class": "Directory", "path": "dir0"}, "a": g.i(0, 99)}, "files": files}


def gen_directories(tier):
    yield from draw_cases(directory_cases(), _budget(4 if tier == "quick" else 60), _seed() + 342000)


@prop.enumerated("directories", gen_directories, exhaustive=False)
def check_directories(case, rec):
    per_dir: dict = {}
    for name in case["files"]:
        per_dir[os.path.dirname(name)] = per_dir.get(os.path.dirname(name), 0) + 1
    rec.label(f"folders:{len(per_dir)}", f"max-files-per-folder:{max(per_dir.values())}",
              "nested" if any(d.count("/") >= 1 for d in per_dir) else "flat")
    check_export(case, rec)
    rec.nontrivial(rec.is_nontrivial or max(per_dir.values()) >= 2)
