"""C22 Transfers reproduce the source data exactly.

One case = one ``DefaultDataManager.transfer_data`` call on a fresh context with five locations that all
live on this host but are *modelled* as separate hosts:

    L   the engine's ``__LOCAL__`` location                       (file-system domain "L")
    A0  location ``a0`` of "vf-shell" deployment A               (domain "A0")
    A1  location ``a1`` of the same deployment A                 (domain "A1")
    B0  location ``b0`` of another "vf-shell" deployment B       (domain "B0")
    W0  location ``a0-w`` of "vf-wrap" deployment W wrapping A/a0 with identity mounts (domain "A0")

The source (a generated directory tree, a regular file, or a symlink to either) is created with plain
``os`` calls below ``<sandbox>/s``, registered the way the engine registers a path it is about to
transfer (``cwl.utils._register_path`` protocol: real path PRIMARY, link path SYMBOLIC_LINK + relation,
then ``get_source_location``), and transferred to ``<sandbox>/d/p/<name>`` (``p`` does not exist, or
``<name>`` is an existing directory holding an unrelated file).

Oracle (local file system as reference, nothing from StreamFlow):
* the symlink-following snapshot of the whole destination area equals the one predicted from the source
  snapshot taken *before* the transfer (contents, structure, exec bits; nothing missing, nothing extra);
* writable copies are independent of the source (no path of the destination resolves outside the
  destination area); read-only copies may link to the source only when both locations share a file
  system (same domain) - a link that only works because the fake hosts share this machine is caught;
* the source area is unchanged;
* ``get_data_locations(final path, dst deployment, dst location)`` is non-empty, contains the final
  path, every entry is ``available``, and its type says PRIMARY / SYMBOLIC_LINK as found on disk.

Sub-checks: ``matrix`` (bounded-exhaustive over the configuration space on a fixed tree/file), ``plain``,
``inner-hostile`` (hostile names inside the tree), ``dangling`` (trees with dangling links: a failing
transfer is accepted, what is data must still be exact), ``top-hostile`` (hostile top-level names, restricted
to characters that cannot hang the persistent shell or leave the sandbox; failures are bucketed by root
cause: unquoted shell words / basename taken for an option).

Violation kinds: ``C22:<mechanism>:<dir|file>:<absent|absent-rename|existing-dir>:<symptom>`` with mechanism in
local-ro, local-rw, l2r, r2l, r2r, same-ro, same-rw and symptom in structure, content, exec-bits,
raises:<Type>, writable-aliases-source, cross-host-link, source-modified, not-registered, not-available,
wrong-data-type.
"""
from __future__ import annotations

import os

from hypothesis import strategies as st

from vf import fs
from vf.core import Prop, Violation

prop = Prop(
    "C22",
    level="exploration",
    technique="Hypothesis PBT, differential against the local file system: snapshot(destination) == snapshot(source) after DefaultDataManager.transfer_data between generated pairs of local / shell-remote / wrapped locations",
    rule=(
        "matrix (bounded-exhaustive over configurations): every ordered pair of the location kinds L, A0, A1, B0, W0 x writable/read-only x "
        "destination absent | absent with another basename | existing directory x source dir | file | symlink to dir | symlink to file, on one "
        "fixed tree and one fixed file (600 transfers, thorough tier; the quick tier runs an 80-transfer covering subset: every copy mechanism x "
        "writable x source type x destination state, all 25 ordered pairs). Random sub-checks: case = (source: generated tree of 0..30 entries | "
        "file | symlink to either) x pair of location kinds x mode x destination state x transfer buffer size, with names from the plain alphabet, "
        "from the hostile alphabet inside the tree, trees with dangling links, and hostile top-level names as separate sub-checks. Non-trivial = "
        "the transfer crosses two different location kinds and the source is a tree with >= 2 entries incl. a nested directory or a non-empty "
        "file (or a non-empty file source); distinct by the whole case."
    ),
    level_text="Random search over trees, routes and modes; the oracle is the file system itself (sha1 / mode bits / structure), both directions.",
    level_note=(
        "All fake hosts share this machine's file system and GNU tar/cp; 'different host' is modelled by separate directories "
        "plus the rule that no destination path may resolve into the source area unless the two locations share a file system. "
        "Trees containing dangling symlinks are a separate class in which a failing transfer is accepted."
    ),
    assumptions=[
        "remote locations run a POSIX sh with GNU tar/cp/ln/readlink (as the connectors assume)",
        "the source is registered before the transfer, as every engine caller does",
    ],
)

KINDS = ["L", "A0", "A1", "B0", "W0"]
KINDS_W = ["L", "L", "A0", "A1", "B0", "W0"]
DOMAIN = {"L": "L", "A0": "A0", "A1": "A1", "B0": "B0", "W0": "A0"}
SHELL_SPECIAL = {"blank", "quote", "dollar-backtick", "glob", "backslash", "shell-op", "newline"}

SOURCE_KINDS = ["dir", "dir", "file", "link-dir", "link-file"]
BUFS = [65536, 65536, 4096, 1000]


def _decode(args):
    """Hypothesis draws small/simple values first, which skews short per-shard runs towards one route and
    one mode; the discrete coordinates are therefore decoded from a hash of one drawn integer (uniform,
    deterministic, and still explicit in the case that is replayed)."""
    import hashlib

    r, tree, fd, src_name, dst_name = args
    h = hashlib.sha256(b"c22:%d" % r).digest()
    kind = SOURCE_KINDS[h[0] % 5]
    source = {"kind": kind, "tree": tree} if kind in ("dir", "link-dir") else {"kind": kind, "file": fd}
    return {
        "source": source,
        "src": KINDS_W[h[1] % 6],  # the local location twice as likely: L->L is the most common real route
        "dst": KINDS_W[h[2] % 6],
        "writable": bool(h[3] & 1),
        "dst_exists": h[4] % 3 == 0,
        "src_name": src_name,
        "dst_name": dst_name if h[5] % 5 < 2 else None,  # None = same basename as the (real) source
        "buf": BUFS[h[6] % 4],
    }


def _cases(alpha: str = "plain", top=None, dangling: bool = False, max_size: int | None = None):
    if max_size is None:  # files up to 64 KiB in the quick tier, up to 1 MiB in the thorough tier
        max_size = 65537 if fs.current_tier() == "quick" else 1048576
    top = fs.plain_names() if top is None else top
    tree = fs.trees(alpha, max_size=max_size, dangling=dangling, max_entries=30 if max_size <= 70000 else 20)
    fd = st.fixed_dictionaries({"size": fs.sizes(max_size), "seed": st.integers(0, 999),
                                "c": st.sampled_from(["bin", "text", "textnl"]), "x": st.sampled_from([0, 1, 1, 2, 3])})
    return st.tuples(st.integers(0, 2**32 - 1), tree, fd, top, top).map(_decode)


def _crossing(case) -> bool:
    return case["src"] != case["dst"]


def _route_class(case) -> str:
    """Which copy mechanism the pair of locations selects (read off data/manager._copy and the connectors):
    local (LocalConnector._local_copy), l2r (async tar writer -> `tar xpf`), r2l (`tar chf` -> extract_tar_stream),
    same (cp -rf / ln -snf on one remote location, incl. wrapper <-> wrapped), r2r (`tar chf` | `tar xpf` between hosts)."""
    s, d = case["src"], case["dst"]
    if s == "L" and d == "L":
        return "local-rw" if case["writable"] else "local-ro"
    if s == "L":
        return "l2r"
    if d == "L":
        return "r2l"
    if DOMAIN[s] == DOMAIN[d]:
        return "same-rw" if case["writable"] else "same-ro"
    return "r2r"


async def _run_transfer(case, rec, *, accept_failure: bool = False, bucket: str | None = None):
    import shutil
    import tempfile

    from streamflow.core.data import DataType
    from streamflow.core.exception import WorkflowExecutionException
    from streamflow.data.remotepath import StreamFlowPath
    from vf.engine.harness import make_context
    from vf.fakes.shellremote import deploy_all, deployment_config, get_location, local_config

    stype = "dir" if case["source"]["kind"] in ("dir", "link-dir") else "file"
    dstate = "existing-dir" if case["dst_exists"] else "absent-rename" if case["dst_name"] is not None else "absent"
    rclass = _route_class(case)
    tag = f"C22:{rclass}:{stype}:{dstate}:"

    def V(symptom: str, message: str) -> Violation:
        # hostile *top-level* names: one kind per root cause (unquoted words / basename taken for an option),
        # whatever the symptom; everything else: mechanism + source type + destination state + symptom
        return Violation(bucket if bucket else tag + symptom, message)

    sandbox = os.path.realpath(tempfile.mkdtemp(prefix="vf-c22-"))
    old_cwd = os.getcwd()
    # the persistent shells inherit the working directory: an unquoted word that ends up as a relative
    # path must land inside the sandbox, never in /verif
    os.makedirs(os.path.join(sandbox, "cwd"))
    os.chdir(os.path.join(sandbox, "cwd"))
    ctx = make_context(workdir=sandbox)
    try:
        buf = case["buf"]
        conns = await deploy_all(
            ctx,
            [
                local_config(),
                deployment_config("A", "vf-shell", locations=["a0", "a1"], transferBufferSize=buf),
                deployment_config("B", "vf-shell", locations=["b0"], transferBufferSize=buf),
                deployment_config("W", "vf-wrap", wraps="A", transferBufferSize=buf),
            ],
        )
        locs = {
            "L": await get_location(conns["__LOCAL__"]),
            "A0": await get_location(conns["A"], "a0"),
            "A1": await get_location(conns["A"], "a1"),
            "B0": await get_location(conns["B"], "b0"),
            "W0": await get_location(conns["W"], "a0-w"),
        }
        src_loc, dst_loc = locs[case["src"]], locs[case["dst"]]
        dm = ctx.data_manager

        # ---- build the source with plain os calls -------------------------------------------------
        s_root, d_root = os.path.join(sandbox, "s"), os.path.join(sandbox, "d")
        os.makedirs(s_root)
        os.makedirs(d_root)
        source = case["source"]
        kind = source["kind"]
        src_name = case["src_name"]
        is_link = kind.startswith("link")
        real_name = ("real-" + src_name)[:255] if is_link else src_name
        real = os.path.join(s_root, real_name)
        entries: list = []
        if kind in ("dir", "link-dir"):
            entries = fs.materialize(source["tree"], real)
        else:
            f = source["file"]
            with open(real, "wb") as fh:
                fh.write(fs.content(f["size"], f["seed"], f["c"]))
            os.chmod(real, fs.MODES[f["x"] % 4])
        src_path = os.path.join(s_root, src_name)
        if is_link:
            os.symlink(real_name, src_path)
        src_before = fs.snapshot(s_root)
        expected_obj = fs.snapshot(real, deref=True)

        # ---- destination --------------------------------------------------------------------------
        dst_name = case["dst_name"] if case["dst_name"] is not None else real_name
        dst_path = os.path.join(d_root, "p", dst_name)
        expected: dict = {".": ("d", 0, None), "p": ("d", 0, None)}
        if case["dst_exists"]:
            os.makedirs(dst_path)
            with open(os.path.join(dst_path, "other.txt"), "w") as fh:
                fh.write("unrelated\n")
            expected[f"p/{dst_name}"] = ("d", 0, None)
            expected[f"p/{dst_name}/other.txt"] = fs.snapshot(os.path.join(dst_path, "other.txt"))["."]
            final = os.path.join(dst_path, real_name)
            final_rel = f"p/{dst_name}/{real_name}"
        else:
            final = dst_path
            final_rel = f"p/{dst_name}"
        for rel, val in expected_obj.items():
            expected[final_rel if rel == "." else f"{final_rel}/{rel}"] = val

        # ---- register like the engine (cwl.utils._register_path protocol), pick the source location --
        sf_src = StreamFlowPath(src_path, context=ctx, location=src_loc)
        failure = None
        try:
            real_sf = await sf_src.resolve()
            if real_sf is None:
                raise V("resolve-none", f"resolve() of existing source {src_path!r} on {case['src']} returned None")
            if str(real_sf) != src_path:
                data_loc = dm.register_path(location=src_loc, path=str(real_sf), relpath=real_sf.name)
                link_loc = dm.register_path(location=src_loc, path=src_path, relpath=src_name, data_type=DataType.SYMBOLIC_LINK)
                dm.register_relation(data_loc, link_loc)
            else:
                dm.register_path(location=src_loc, path=src_path, relpath=src_name)
            selected = await dm.get_source_location(path=src_path, dst_deployment=dst_loc.deployment)
            if selected is None:
                raise V("no-source-location", f"get_source_location({src_path!r}) is None right after registration")
            await dm.transfer_data(
                src_location=selected.location,
                src_path=selected.path,
                dst_locations=[dst_loc],
                dst_path=dst_path,
                writable=case["writable"],
            )
        except Violation:
            raise
        except (WorkflowExecutionException, OSError) as e:
            failure = e

        # ---- classification (before the verdict, so that excluded known findings are counted too) ----
        route = f"{case['src']}->{case['dst']}"
        rec.label(f"route:{route}", f"mechanism:{rclass}", f"combo:{rclass}|{stype}|{dstate}", f"src:{kind}", "writable" if case["writable"] else "read-only",
                  "dst:existing-dir" if case["dst_exists"] else "dst:absent",
                  "rename" if case["dst_name"] is not None and not case["dst_exists"] else "same-name",
                  f"buf:{buf}")
        feats = fs.tree_features(entries) if kind in ("dir", "link-dir") else set()
        rec.label(*sorted(feats))
        if kind in ("dir", "link-dir"):
            rich = len(entries) >= 2 and ("dir:nested" in feats or any(e["type"] == "file" and e["size"] > 0 for e in entries))
        else:
            rich = source["file"]["size"] > 0
            rec.label("file:exec" if fs.MODES[source["file"]["x"] % 4] & 0o111 else "file:noexec")
        rec.nontrivial(rich and _crossing(case))

        has_dangling = "link:dangling" in feats
        if failure is not None:
            if accept_failure and has_dangling:
                rec.label("outcome:failed-on-dangling-link")
                return
            raise V(f"raises:{type(failure).__name__}", f"{route} {kind} writable={case['writable']}: {str(failure)[:600]}")

        # ---- oracle 1: destination area, symlink-following, both directions ---------------------------
        got = fs.snapshot(d_root, deref=True)
        if has_dangling:  # dangling links are not data: compare everything else
            got = {k: v for k, v in got.items() if v[0] != "l"}
            expected = {k: v for k, v in expected.items() if v[0] != "l"}
        if got != expected:
            missing = sorted(set(expected) - set(got))
            extra = sorted(set(got) - set(expected))
            changed = sorted(k for k in set(got) & set(expected) if tuple(got[k]) != tuple(expected[k]))
            if changed and all(got[k][0] == expected[k][0] == "f" and got[k][2] == expected[k][2] for k in changed) and not missing and not extra:
                sub = "exec-bits"
            elif changed and not missing and not extra:
                sub = "content"
            else:
                sub = "structure"  # some path is missing and/or unexpected, whatever the mix
            raise V(sub, f"{route} {kind} writable={case['writable']} dst_exists={case['dst_exists']} "
                                           f"rename={case['dst_name'] is not None}\n" + fs.diff_snapshots(expected, got))

        # ---- oracle 2: independence / no link that only works because hosts share this machine ---------
        may_link_to_source = (not case["writable"]) and DOMAIN[case["src"]] == DOMAIN[case["dst"]]
        final_is_link = os.path.islink(final)
        if not may_link_to_source:
            stack = [final]
            while stack:
                p = stack.pop()
                rp = os.path.realpath(p)
                if os.path.exists(p) and not (rp == d_root or rp.startswith(d_root + os.sep)):
                    why = "writable copy is not independent of the source" if case["writable"] else "read-only link crosses file systems"
                    raise V("writable-aliases-source" if case["writable"] else "cross-host-link",
                                    f"{route}: {why}: {p!r} resolves to {rp!r}")
                if os.path.isdir(p) and not os.path.islink(p):
                    stack.extend(os.path.join(p, n) for n in os.listdir(p))
            if case["writable"] and kind in ("file", "link-file") and os.stat(final).st_ino == os.stat(real).st_ino:
                raise V("writable-aliases-source", f"{route}: destination file is a hard link of the source")
        if final_is_link:
            rec.label("result:symlink")

        # ---- oracle 3: source unchanged -----------------------------------------------------------------
        src_after = fs.snapshot(s_root)
        if src_after != src_before:
            raise V("source-modified", fs.diff_snapshots(src_before, src_after))

        # ---- oracle 4: destination registered and available ---------------------------------------------
        regs = dm.get_data_locations(final, dst_loc.deployment, dst_loc.name)
        mine = [r for r in regs if r.path == final and r.name == dst_loc.name and r.deployment == dst_loc.deployment]
        if not mine:
            raise V("not-registered", f"{route}: get_data_locations({final!r}, {dst_loc.deployment}, {dst_loc.name}) = "
                                                    f"{[(r.deployment, r.name, r.path, str(r.data_type)) for r in regs]}")
        for r in regs:
            if not r.available.is_set():
                raise V("not-available", f"{route}: {r.path} on {r.deployment}/{r.name} registered but not available after transfer_data returned")
        want = DataType.SYMBOLIC_LINK if (final_is_link and not case["writable"]) else DataType.PRIMARY
        if any(r.data_type != want for r in mine):
            raise V("wrong-data-type", f"{route}: on disk {'symlink' if final_is_link else 'copy'}, writable={case['writable']}, "
                                                     f"registered as {[str(r.data_type) for r in mine]}")
        rec.label("outcome:ok")
    finally:
        try:
            await ctx.deployment_manager.undeploy_all()
            await ctx.close()
        finally:
            os.chdir(old_cwd)
            shutil.rmtree(sandbox, ignore_errors=True)


MATRIX_TREE = {"alpha": "plain", "dangling": False, "entries": [
    {"k": "f", "n": "run.sh", "p": 0, "size": 700, "seed": 1, "c": "textnl", "x": 1},
    {"k": "d", "n": "sub", "p": 0},
    {"k": "f", "n": "data.bin", "p": 1, "size": 5000, "seed": 2, "c": "bin", "x": 0},
    {"k": "d", "n": "empty", "p": 1},
    {"k": "f", "n": "zero", "p": 1, "size": 0, "seed": 0, "c": "bin", "x": 3},
    {"k": "l", "n": "lnk", "p": 0, "t": 2, "dangling": False},
    {"k": "l", "n": "dlnk", "p": 2, "t": 1, "dangling": False}]}
MATRIX_FILE = {"size": 1300, "seed": 3, "c": "bin", "x": 1}


def _matrix_all():
    for src in KINDS:
        for dst in KINDS:
            for writable in (True, False):
                for dstate in ("absent", "absent-rename", "existing-dir"):
                    for kind in ("dir", "file", "link-dir", "link-file"):
                        source = {"kind": kind, "tree": MATRIX_TREE} if kind.endswith("dir") else {"kind": kind, "file": MATRIX_FILE}
                        yield {"source": source, "src": src, "dst": dst, "writable": writable, "dst_exists": dstate == "existing-dir",
                               "src_name": "srcobj", "dst_name": "dstobj" if dstate != "absent" else None, "buf": 65536}


def gen_matrix(tier):
    """Every ordered pair of location kinds x writable/read-only x destination state x source type, on one
    fixed tree (nested and empty directories, executable / empty / multi-block files, links to file and to
    directory) and one fixed executable file: the configuration space of the statement, exhaustively (600
    transfers) in the thorough tier. A transfer costs ~20 process creations, so the quick tier runs a covering
    subset: every (copy mechanism, writable, source type dir|file, destination state) combination once plus
    link sources per (mechanism, writable), with the routes chosen greedily so that all 25 ordered pairs occur."""
    cases = list(_matrix_all())
    if tier != "quick":
        yield from cases
        return
    used: dict = {}
    buckets: dict = {}
    for c in cases:
        base = _route_class(c).split("-")[0]
        kind = c["source"]["kind"]
        dstate = "existing-dir" if c["dst_exists"] else "absent-rename" if c["dst_name"] else "absent"
        key = (base, c["writable"], kind, dstate) if not kind.startswith("link") else (base, c["writable"], kind)
        buckets.setdefault(key, []).append(c)
    for key in sorted(buckets, key=repr):
        cands = buckets[key]
        if len(key) == 3:  # link sources: rotate the destination state
            want = ("absent", "existing-dir", "absent-rename")[sum(map(ord, repr(key))) % 3]
            cands = [c for c in cands if ("existing-dir" if c["dst_exists"] else "absent-rename" if c["dst_name"] else "absent") == want] or cands
        best = min(cands, key=lambda c: (used.get((c["src"], c["dst"]), 0), c["src"], c["dst"]))
        used[(best["src"], best["dst"])] = used.get((best["src"], best["dst"]), 0) + 1
        yield best
    for src in KINDS:  # any ordered pair not met yet
        for dst in KINDS:
            if (src, dst) not in used:
                used[(src, dst)] = 1
                yield next(c for c in cases if c["src"] == src and c["dst"] == dst and c["source"]["kind"] == "dir" and not c["dst_exists"] and c["dst_name"] is None and c["writable"])


@prop.enumerated("matrix", gen_matrix, loop="std", case_timeout=600, max_shards=8)
async def check_matrix(case, rec):
    await _run_transfer(case, rec)


@prop.given("plain", lambda: _cases("plain"), quick=40, thorough=6000, loop="std", shrink=False, case_timeout=600)
async def check_plain(case, rec):
    """Plain alphabet everywhere: must be entirely clean."""
    await _run_transfer(case, rec)


@prop.given("inner-hostile", lambda: _cases("hostile"), quick=24, thorough=3000, loop="std", shrink=False, case_timeout=600)
async def check_inner_hostile(case, rec):
    """Hostile names *inside* the transferred tree (they only travel through tar / cp / the tar writer),
    plain top-level names."""
    await _run_transfer(case, rec)


@prop.given("dangling", lambda: _cases("plain", dangling=True), quick=12, thorough=1000, loop="std", shrink=False, case_timeout=600)
async def check_dangling(case, rec):
    """Trees that may contain dangling symlinks: the transfer may fail (documented exception types); if it
    succeeds everything that is data must be exact."""
    await _run_transfer(case, rec, accept_failure=True)


UNSAFE_TOP = set("'\"`\\()<>;&|~\n")


def _top_hostile():
    """Hostile top-level names restricted to characters that cannot make the harness unsafe or undecidable:
    an unbalanced quote / backtick / parenthesis or a trailing backslash leaves the persistent `sh` waiting for
    more input, i.e. the transfer hangs for ever (observed with the name "it's"; a wall-clock verdict is not
    allowed, so such names are not generated here); `;&|<>~` and `$HOME` could run commands or reach outside the
    sandbox once a blank has split the word. What remains still exercises word splitting, globbing and `$`."""
    return fs.names("hostile", long_names=True).filter(
        lambda s: len(s.encode()) <= 200 and not (set(s) & UNSAFE_TOP) and "$HOME" not in s and "${" not in s
    )


@prop.given("top-hostile", lambda: _cases("plain", top=_top_hostile()), quick=24, thorough=3000, loop="std", shrink=False, case_timeout=600)
async def check_top_hostile(case, rec):
    """Hostile *top-level* names (the paths StreamFlow itself puts on command lines). Names with
    shell-significant characters get their own kind prefix (one root cause: unquoted words)."""
    names = [case["src_name"]] + ([case["dst_name"]] if case["dst_name"] is not None else [])
    feats = set().union(*(fs.name_features(n) for n in names))
    rec.label(*(f"top:{f}" for f in sorted(feats)))
    bucket = None
    if feats & SHELL_SPECIAL:
        bucket = "C22:top-hostile:shell-special-path"
    elif "leading-dash" in feats:
        bucket = "C22:top-hostile:leading-dash-name"
    await _run_transfer(case, rec, bucket=bucket)
