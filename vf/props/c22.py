"""C22 Transfers reproduce the source data exactly.

One case = one ``DefaultDataManager.transfer_data`` call on a fresh context with five locations that all
live on this host but are *modelled* as separate hosts:

    L   the engine's ``__LOCAL__`` location                       (file-system domain "L")
    A0  location ``a0`` of "vf-shell" deployment A               (domain "A0")
    A1  location ``a1`` of the same deployment A                 (domain "A1")
    B0  location ``b0`` of another "vf-shell" deployment B       (domain "B0")
    W0  location ``a0-w`` of "vf-wrap" deployment W wrapping A/a0 with identity mounts (domain "A0")

The source (a generated directory tree, a regular file, or a symlink to either) is created with plain
``os`` calls below ``<sandbox>/s``, registered the way the engine registers a path it is about to
transfer (``cwl.utils._register_path`` protocol: real path PRIMARY, link path SYMBOLIC_LINK + relation,
then ``get_source_location``), and transferred to ``<sandbox>/d/p/<name>`` (``p`` does not exist, or
``<name>`` is an existing directory holding an unrelated file).

Oracle (local file system as reference, nothing from StreamFlow):
* the symlink-following snapshot of the whole destination area equals the one predicted from the source
  snapshot taken *before* the transfer (contents, structure, exec bits; nothing missing, nothing extra);
* writable copies are independent of the source (no path of the destination resolves outside the
  destination area); read-only copies may link to the source only when both locations share a file
  system (same domain) - a link that only works because the fake hosts share this machine is caught;
* the source area is unchanged;
* ``get_data_locations(final path, dst deployment, dst location)`` is non-empty, contains the final
  path, every entry is ``available``, and its type says PRIMARY / SYMBOLIC_LINK as found on disk.

Sub-checks: ``matrix`` (bounded-exhaustive over the configuration space on a fixed tree/file), ``plain``,
``inner-hostile`` (hostile names inside the tree), ``dangling`` (trees with dangling links: a failing
transfer is accepted, what is data must still be exact), ``top-hostile`` (hostile top-level names, restricted
to characters that cannot hang the persistent shell or leave the sandbox; failures are bucketed by root
cause: unquoted shell words / basename taken for an option).

Violation kinds: ``C22:<mechanism>:<dir|file>:<absent|absent-rename|existing-dir>:<symptom>`` with mechanism in
local-ro, local-rw, l2r, r2l, r2r, same-ro, same-rw and symptom in structure, content, exec-bits,
raises:<Type>, writable-aliases-source, cross-host-link, source-modified, not-registered, not-available,
wrong-data-type.
"""
from __future__ import annotations

import os

from hypothesis import strategies as st

from vf import fs
from vf.core import Prop, Violation

prop = Prop(
    "C22",
    level="exploration",
    technique="Hypothesis PBT, differential against the local file system: snapshot(destination) == snapshot(source) after DefaultDataManager.transfer_data between generated pairs of local / shell-remote / wrapped locations",
    rule=(
        "matrix (bounded-exhaustive over configurations): every ordered pair of the location kinds L, A0, A1, B0, W0 x writable/read-only x "
        "destination absent | absent with another basename | existing directory x source dir | file | symlink to dir | symlink to file, on one "
        "fixed tree and one fixed file (600 transfers, thorough tier; the quick tier runs an 80-transfer covering subset: every copy mechanism x "
        "writable x source type x destination state, all 25 ordered pairs). Random sub-checks: case = (source: generated tree of 0..30 entries | "
        "file | symlink to either) x pair of location kinds x mode x destination state x transfer buffer size, with names from the plain alphabet, "
        "from the hostile alphabet inside the tree, trees with dangling links, and hostile top-level names as separate sub-checks. Non-trivial = "
        "the transfer crosses two different location kinds and the source is a tree with >= 2 entries incl. a nested directory or a non-empty "
        "file (or a non-empty file source); distinct by the whole case."
    ),
    level_text="Random search over trees, routes and modes; the oracle is the file system itself (sha1 / mode bits / structure), both directions.",
    level_note=(
        "All fake hosts share this machine's file system and GNU tar/cp; 'different host' is modelled by separate directories "
        "plus the rule that no destination path may resolve into the source area unless the two locations share a file system. "
        "Trees containing dangling symlinks are a separate class in which a failing transfer is accepted."
    ),
    assumptions=[
        "remote locations run a POSIX sh with GNU tar/cp/ln/readlink (as the connectors assume)",
        "the source is registered before the transfer, as every engine caller does",
    ],
)

KINDS = ["L", "A0", "A1", "B0", "W0"]
KINDS_W = ["L", "L", "A0", "A1", "B0", "W0"]
DOMAIN = {"L": "L", "A0": "A0", "A1": "A1", "B0": "B0", "W0": "A0"}
SHELL_SPECIAL = {"blank", "quote", "dollar-backtick", "glob", "backslash", "shell-op", "newline"}

SOURCE_KINDS = ["dir", "dir", "file", "link-dir", "link-file"]
BUFS = [65536, 65536, 4096, 1000]


def _decode(args):
    """Hypothesis draws small/simple values first, which skews short per-shard runs towards one route and
    one mode; the discrete coordinates are therefore decoded from a hash of one drawn integer (uniform,
    deterministic, and still explicit in the case that is replayed)."""
    import hashlib

    r, tree, fd, src_name, dst_name = args
    h = hashlib.sha256(b"c22:%d" % r).digest()
    kind = SOURCE_KINDS[h[0] % 5]
    buf = BUFS[h[6] % 4]
    # sizes are drawn before the buffer size is known: a quarter of the files (by their drawn content seed) are
    # moved to the nearest non-zero multiple of the transfer buffer, so that "the last chunk is a full buffer"
    # is a class the generator reaches by construction rather than by luck (seed C22-3)
    tree = dict(tree, entries=[_on_buffer_boundary(e, buf) for e in tree["entries"]])
    fd = _on_buffer_boundary(dict(fd, k="f"), buf)
    source = {"kind": kind, "tree": tree} if kind in ("dir", "link-dir") else {"kind": kind, "file": fd}
    return {
        "source": source,
        "src": KINDS_W[h[1] % 6],  # the local location twice as likely: L->L is the most common real route
        "dst": KINDS_W[h[2] % 6],
        "writable": bool(h[3] & 1),
        "dst_exists": h[4] % 3 == 0,
        "src_name": src_name,
        "dst_name": dst_name if h[5] % 5 < 2 else None,  # None = same basename as the (real) source
        "buf": buf,
    }


def _on_buffer_boundary(entry, buf: int):
    if entry.get("k") != "f" or entry["seed"] % 4 != 0 or entry["size"] == 0:
        return entry
    cap = 65536 if fs.current_tier() == "quick" else 1048576
    return dict(entry, size=min(max(1, round(entry["size"] / buf)) * buf, max(buf, cap // buf * buf)))


def _cases(alpha: str = "plain", top=None, dangling: bool = False, max_size: int | None = None):
    if max_size is None:  # files up to 64 KiB in the quick tier, up to 1 MiB in the thorough tier
        max_size = 65537 if fs.current_tier() == "quick" else 1048576
    top = fs.plain_names() if top is None else top
    tree = fs.trees(alpha, max_size=max_size, dangling=dangling, max_entries=30 if max_size <= 70000 else 20)
    fd = st.fixed_dictionaries({"size": fs.sizes(max_size), "seed": st.integers(0, 999),
                                "c": st.sampled_from(["bin", "text", "textnl"]), "x": st.sampled_from([0, 1, 1, 2, 3])})
    return st.tuples(st.integers(0, 2**32 - 1), tree, fd, top, top).map(_decode)


def _crossing(case) -> bool:
    return case["src"] != case["dst"]


def _route_class(case) -> str:
    """Which copy mechanism the pair of locations selects (read off data/manager._copy and the connectors):
    local (LocalConnector._local_copy), l2r (async tar writer -> `tar xpf`), r2l (`tar chf` -> extract_tar_stream),
    same (cp -rf / ln -snf on one remote location, incl. wrapper <-> wrapped), r2r (`tar chf` | `tar xpf` between hosts)."""
    s, d = case["src"], case["dst"]
    if s == "L" and d == "L":
        return "local-rw" if case["writable"] else "local-ro"
    if s == "L":
        return "l2r"
    if d == "L":
        return "r2l"
    if DOMAIN[s] == DOMAIN[d]:
        return "same-rw" if case["writable"] else "same-ro"
    return "r2r"


async def _run_transfer(case, rec, *, accept_failure: bool = False, bucket: str | None = None):
    import shutil
    import tempfile

    from streamflow.core.data import DataType
    from streamflow.core.exception import WorkflowExecutionException
    from streamflow.data.remotepath import StreamFlowPath
    from vf.engine.harness import make_context
    from vf.fakes.shellremote import deploy_all, deployment_config, get_location, local_config

    stype = "dir" if case["source"]["kind"] in ("dir", "link-dir") else "file"
    dstate = "existing-dir" if case["dst_exists"] else "absent-rename" if case["dst_name"] is not None else "absent"
    rclass = _route_class(case)
    tag = f"C22:{rclass}:{stype}:{dstate}:"

    def V(symptom: str, message: str) -> Violation:
        # hostile *top-level* names: one kind per root cause (unquoted words / basename taken for an option),
        # whatever the symptom; everything else: mechanism + source type + destination state + symptom
        return Violation(bucket if bucket else tag + symptom, message)

    sandbox = os.path.realpath(tempfile.mkdtemp(prefix="vf-c22-"))
    old_cwd = os.getcwd()
    # the persistent shells inherit the working directory: an unquoted word that ends up as a relative
    # path must land inside the sandbox, never in /verif
    os.makedirs(os.path.join(sandbox, "cwd"))
    os.chdir(os.path.join(sandbox, "cwd"))
    ctx = make_context(workdir=sandbox)
    try:
        buf = case["buf"]
        conns = await deploy_all(
            ctx,
            [
                local_config(),
                deployment_config("A", "vf-shell", locations=["a0", "a1"], transferBufferSize=buf),
                deployment_config("B", "vf-shell", locations=["b0"], transferBufferSize=buf),
                deployment_config("W", "vf-wrap", wraps="A", transferBufferSize=buf),
            ],
        )
        locs = {
            "L": await get_location(conns["__LOCAL__"]),
            "A0": await get_location(conns["A"], "a0"),
            "A1": await get_location(conns["A"], "a1"),
            "B0": await get_location(conns["B"], "b0"),
            "W0": await get_location(conns["W"], "a0-w"),
        }
        src_loc, dst_loc = locs[case["src"]], locs[case["dst"]]
        dm = ctx.data_manager

        # ---- build the source with plain os calls -------------------------------------------------
        s_root, d_root = os.path.join(sandbox, "s"), os.path.join(sandbox, "d")
        os.makedirs(s_root)
        os.makedirs(d_root)
        source = case["source"]
        kind = source["kind"]
        src_name = case["src_name"]
        is_link = kind.startswith("link")
        real_name = ("real-" + src_name)[:255] if is_link else src_name
        real = os.path.join(s_root, real_name)
        entries: list = []
        if kind in ("dir", "link-dir"):
            entries = fs.materialize(source["tree"], real)
        else:
            f = source["file"]
            with open(real, "wb") as fh:
                fh.write(fs.content(f["size"], f["seed"], f["c"]))
            os.chmod(real, fs.MODES[f["x"] % 4])
        src_path = os.path.join(s_root, src_name)
        if is_link:
            os.symlink(real_name, src_path)
        src_before = fs.snapshot(s_root)
        expected_obj = fs.snapshot(real, deref=True)

        # ---- destination --------------------------------------------------------------------------
        dst_name = case["dst_name"] if case["dst_name"] is not None else real_name
        dst_path = os.path.join(d_root, "p", dst_name)
        expected: dict = {".": ("d", 0, None), "p": ("d", 0, None)}
        if case["dst_exists"]:
            os.makedirs(dst_path)
            with open(os.path.join(dst_path, "other.txt"), "w") as fh:
                fh.write("unrelated\n")
            expected[f"p/{dst_name}"] = ("d", 0, None)
            expected[f"p/{dst_name}/other.txt"] = fs.snapshot(os.path.join(dst_path, "other.txt"))["."]
            final = os.path.join(dst_path, real_name)
            final_rel = f"p/{dst_name}/{real_name}"
        else:
            final = dst_path
            final_rel = f"p/{dst_name}"
        for rel, val in expected_obj.items():
            expected[final_rel if rel == "." else f"{final_rel}/{rel}"] = val

        # ---- register like the engine (cwl.utils._register_path protocol), pick the source location --
        sf_src = StreamFlowPath(src_path, context=ctx, location=src_loc)
        failure = None
        try:
            real_sf = await sf_src.resolve()
            if real_sf is None:
                raise V("resolve-none", f"resolve() of existing source {src_path!r} on {case['src']} returned None")
            if str(real_sf) != src_path:
                data_loc = dm.register_path(location=src_loc, path=str(real_sf), relpath=real_sf.name)
                link_loc = dm.register_path(location=src_loc, path=src_path, relpath=src_name, data_type=DataType.SYMBOLIC_LINK)
                dm.register_relation(data_loc, link_loc)
            else:
                dm.register_path(location=src_loc, path=src_path, relpath=src_name)
            selected = await dm.get_source_location(path=src_path, dst_deployment=dst_loc.deployment)
            if selected is None:
                raise V("no-source-location", f"get_source_location({src_path!r}) is None right after registration")
            await dm.transfer_data(
                src_location=selected.location,
                src_path=selected.path,
                dst_locations=[dst_loc],
                dst_path=dst_path,
                writable=case["writable"],
            )
        except Violation:
            raise
        except (WorkflowExecutionException, OSError) as e:
            failure = e

        # ---- classification (before the verdict, so that excluded known findings are counted too) ----
        route = f"{case['src']}->{case['dst']}"
        rec.label(f"route:{route}", f"mechanism:{rclass}", f"combo:{rclass}|{stype}|{dstate}", f"src:{kind}", "writable" if case["writable"] else "read-only",
                  "dst:existing-dir" if case["dst_exists"] else "dst:absent",
                  "rename" if case["dst_name"] is not None and not case["dst_exists"] else "same-name",
                  f"buf:{buf}")
        feats = fs.tree_features(entries) if kind in ("dir", "link-dir") else set()
        rec.label(*sorted(feats))
        if kind in ("dir", "link-dir"):
            if any(e["type"] == "file" and e["size"] > 0 and e["size"] % buf == 0 for e in entries):
                rec.label("file:buffer-multiple")
            rich = len(entries) >= 2 and ("dir:nested" in feats or any(e["type"] == "file" and e["size"] > 0 for e in entries))
        else:
            rich = source["file"]["size"] > 0
            if source["file"]["size"] > 0 and source["file"]["size"] % buf == 0:
                rec.label("file:buffer-multiple")
            rec.label("file:exec" if fs.MODES[source["file"]["x"] % 4] & 0o111 else "file:noexec")
        rec.nontrivial(rich and _crossing(case))

        has_dangling = "link:dangling" in feats
        if failure is not None:
            if accept_failure and has_dangling:
                rec.label("outcome:failed-on-dangling-link")
                return
            raise V(f"raises:{type(failure).__name__}", f"{route} {kind} writable={case['writable']}: {str(failure)[:600]}")

        # ---- oracle 1: destination area, symlink-following, both directions ---------------------------
        got = fs.snapshot(d_root, deref=True)
        if has_dangling:  # dangling links are not data: compare everything else
            got = {k: v for k, v in got.items() if v[0] != "l"}
            expected = {k: v for k, v in expected.items() if v[0] != "l"}
        if got != expected:
            missing = sorted(set(expected) - set(got))
            extra = sorted(set(got) - set(expected))
            changed = sorted(k for k in set(got) & set(expected) if tuple(got[k]) != tuple(expected[k]))
            if changed and all(got[k][0] == expected[k][0] == "f" and got[k][2] == expected[k][2] for k in changed) and not missing and not extra:
                sub = "exec-bits"
            elif changed and not missing and not extra:
                sub = "content"
            else:
                sub = "structure"  # some path is missing and/or unexpected, whatever the mix
            raise V(sub, f"{route} {kind} writable={case['writable']} dst_exists={case['dst_exists']} "
                                           f"rename={case['dst_name'] is not None}\n" + fs.diff_snapshots(expected, got))

        # ---- oracle 2: independence / no link that only works because hosts share this machine ---------
        may_link_to_source = (not case["writable"]) and DOMAIN[case["src"]] == DOMAIN[case["dst"]]
        final_is_link = os.path.islink(final)
        if not may_link_to_source:
            stack = [final]
            while stack:
                p = stack.pop()
                rp = os.path.realpath(p)
                if os.path.exists(p) and not (rp == d_root or rp.startswith(d_root + os.sep)):
                    why = "writable copy is not independent of the source" if case["writable"] else "read-only link crosses file systems"
                    raise V("writable-aliases-source" if case["writable"] else "cross-host-link",
                                    f"{route}: {why}: {p!r} resolves to {rp!r}")
                if os.path.isdir(p) and not os.path.islink(p):
                    stack.extend(os.path.join(p, n) for n in os.listdir(p))
            if case["writable"] and kind in ("file", "link-file") and os.stat(final).st_ino == os.stat(real).st_ino:
                raise V("writable-aliases-source", f"{route}: destination file is a hard link of the source")
        if final_is_link:
            rec.label("result:symlink")

        # ---- oracle 3: source unchanged -----------------------------------------------------------------
        src_after = fs.snapshot(s_root)
        if src_after != src_before:
            raise V("source-modified", fs.diff_snapshots(src_before, src_after))

        # ---- oracle 4: destination registered and available ---------------------------------------------
        regs = dm.get_data_locations(final, dst_loc.deployment, dst_loc.name)
        mine = [r for r in regs if r.path == final and r.name == dst_loc.name and r.deployment == dst_loc.deployment]
        if not mine:
            raise V("not-registered", f"{route}: get_data_locations({final!r}, {dst_loc.deployment}, {dst_loc.name}) = "
                                                    f"{[(r.deployment, r.name, r.path, str(r.data_type)) for r in regs]}")
        for r in regs:
            if not r.available.is_set():
                raise V("not-available", f"{route}: {r.path} on {r.deployment}/{r.name} registered but not available after transfer_data returned")
        want = DataType.SYMBOLIC_LINK if (final_is_link and not case["writable"]) else DataType.PRIMARY
        if any(r.data_type != want for r in mine):
            raise V("wrong-data-type", f"{route}: on disk {'symlink' if final_is_link else 'copy'}, writable={case['writable']}, "
                                                     f"registered as {[str(r.data_type) for r in mine]}")
        rec.label("outcome:ok")
    finally:
        try:
            await ctx.deployment_manager.undeploy_all()
            await ctx.close()
        finally:
            os.chdir(old_cwd)
            shutil.rmtree(sandbox, ignore_errors=True)


MATRIX_TREE = {"alpha": "plain", "dangling": False, "entries": [
    {"k": "f", "n": "run.sh", "p": 0, "size": 700, "seed": 1, "c": "textnl", "x": 1},
    {"k": "d", "n": "sub", "p": 0},
    {"k": "f", "n": "data.bin", "p": 1, "size": 5000, "seed": 2, "c": "bin", "x": 0},
    {"k": "d", "n": "empty", "p": 1},
    {"k": "f", "n": "zero", "p": 1, "size": 0, "seed": 0, "c": "bin", "x": 3},
    {"k": "l", "n": "lnk", "p": 0, "t": 2, "dangling": False},
    {"k": "l", "n": "dlnk", "p": 2, "t": 1, "dangling": False}]}
MATRIX_FILE = {"size": 1300, "seed": 3, "c": "bin", "x": 1}


def _matrix_all():
    for src in KINDS:
        for dst in KINDS:
            for writable in (True, False):
                for dstate in ("absent", "absent-rename", "existing-dir"):
                    for kind in ("dir", "file", "link-dir", "link-file"):
                        source = {"kind": kind, "tree": MATRIX_TREE} if kind.endswith("dir") else {"kind": kind, "file": MATRIX_FILE}
                        yield {"source": source, "src": src, "dst": dst, "writable": writable, "dst_exists": dstate == "existing-dir",
                               "src_name": "srcobj", "dst_name": "dstobj" if dstate != "absent" else None, "buf": 65536}


def gen_matrix(tier):
    """Every ordered pair of location kinds x writable/read-only x destination state x source type, on one
    fixed tree (nested and empty directories, executable / empty / multi-block files, links to file and to
    directory) and one fixed executable file: the configuration space of the statement, exhaustively (600
    transfers) in the thorough tier. A transfer costs ~20 process creations, so the quick tier runs a covering
    subset: every (copy mechanism, writable, source type dir|file, destination state) combination once plus
    link sources per (mechanism, writable), with the routes chosen greedily so that all 25 ordered pairs occur."""
    cases = list(_matrix_all())
    if tier != "quick":
        yield from cases
        return
    used: dict = {}
    buckets: dict = {}
    for c in cases:
        base = _route_class(c).split("-")[0]
        kind = c["source"]["kind"]
        dstate = "existing-dir" if c["dst_exists"] else "absent-rename" if c["dst_name"] else "absent"
        key = (base, c["writable"], kind, dstate) if not kind.startswith("link") else (base, c["writable"], kind)
        buckets.setdefault(key, []).append(c)
    for key in sorted(buckets, key=repr):
        cands = buckets[key]
        if len(key) == 3:  # link sources: rotate the destination state
            want = ("absent", "existing-dir", "absent-rename")[sum(map(ord, repr(key))) % 3]
            cands = [c for c in cands if ("existing-dir" if c["dst_exists"] else "absent-rename" if c["dst_name"] else "absent") == want] or cands
        best = min(cands, key=lambda c: (used.get((c["src"], c["dst"]), 0), c["src"], c["dst"]))
        used[(best["src"], best["dst"])] = used.get((best["src"], best["dst"]), 0) + 1
        yield best
    for src in KINDS:  # any ordered pair not met yet
        for dst in KINDS:
            if (src, dst) not in used:
                used[(src, dst)] = 1
                yield next(c for c in cases if c["src"] == src and c["dst"] == dst and c["source"]["kind"] == "dir" and not c["dst_exists"] and c["dst_name"] is None and c["writable"])


@prop.enumerated("matrix", gen_matrix, loop="std", case_timeout=600, max_shards=8)
async def check_matrix(case, rec):
    await _run_transfer(case, rec)


def _boundary_tree(buf: int):
    """Files whose sizes sit on and around multiples of the transfer buffer (the chunk loop of the tar writer /
    extractor ends with a full buffer, an empty tail, one byte more, one byte less) and on 512-byte tar blocks,
    each followed by further members so that a misaligned stream is visible as missing or corrupt later entries."""
    sizes = [buf, 1, 2 * buf, buf - 1, buf + 1, 3 * buf, 512, buf + 512, 0, 4 * buf]
    entries = [{"k": "d", "n": "sub", "p": 0}]
    for i, size in enumerate(sizes):
        entries.append({"k": "f", "n": f"f{i:02d}-{size}", "p": i % 2, "size": size, "seed": 50 + i,
                        "c": ("bin", "text", "textnl")[i % 3], "x": i % 4})
    entries.append({"k": "d", "n": "tail-empty", "p": 1})
    entries.append({"k": "f", "n": "zz-last", "p": 0, "size": 77, "seed": 99, "c": "text", "x": 1})
    return {"alpha": "plain", "dangling": False, "entries": entries}


def gen_boundary(tier):
    """Every streaming copy mechanism (local->remote tar writer, remote->local extractor, remote->remote pipe,
    plus one local and one same-location copy as controls) x transfer buffer size x {the boundary tree, a single
    file of exactly one buffer, of exactly two buffers}."""
    routes = [("L", "A0"), ("A0", "L"), ("A0", "B0"), ("L", "W0"), ("B0", "L"), ("L", "L"), ("A0", "A1")]
    bufs = (1000, 4096) if tier == "quick" else (1000, 4096, 512, 16384, 65536)
    for buf in bufs:
        for src, dst in routes:
            if tier == "quick" and (src, dst) in (("L", "L"), ("A0", "A1")) and buf != 4096:
                continue
            base = {"src": src, "dst": dst, "writable": True, "dst_exists": False, "src_name": "srcobj", "dst_name": None, "buf": buf}
            yield dict(base, source={"kind": "dir", "tree": _boundary_tree(buf)})
            if tier != "quick" or src == "L" or dst == "L":
                for k in (1, 2):
                    yield dict(base, writable=(k == 1), source={"kind": "file", "file": {"size": k * buf, "seed": 7 + k, "c": "bin", "x": 1}})


@prop.enumerated("buffer-boundary", gen_boundary, loop="std", case_timeout=600, max_shards=8)
async def check_buffer_boundary(case, rec):
    rec.label(f"boundary:{_route_class(case)}", "boundary:" + case["source"]["kind"])
    await _run_transfer(case, rec)


@prop.given("plain", lambda: _cases("plain"), quick=40, thorough=6000, loop="std", shrink=False, case_timeout=600)
async def check_plain(case, rec):
    """Plain alphabet everywhere: must be entirely clean."""
    await _run_transfer(case, rec)


@prop.given("inner-hostile", lambda: _cases("hostile"), quick=24, thorough=3000, loop="std", shrink=False, case_timeout=600)
async def check_inner_hostile(case, rec):
    """Hostile names *inside* the transferred tree (they only travel through tar / cp / the tar writer),
    plain top-level names."""
    await _run_transfer(case, rec)


@prop.given("dangling", lambda: _cases("plain", dangling=True), quick=12, thorough=1000, loop="std", shrink=False, case_timeout=600)
async def check_dangling(case, rec):
    """Trees that may contain dangling symlinks: the transfer may fail (documented exception types); if it
    succeeds everything that is data must be exact."""
    await _run_transfer(case, rec, accept_failure=True)


UNSAFE_TOP = set("'\"`\\()<>;&|~\n")


def _top_hostile():
    """Hostile top-level names restricted to characters that cannot make the harness unsafe or undecidable:
    an unbalanced quote / backtick / parenthesis or a trailing backslash leaves the persistent `sh` waiting for
    more input, i.e. the transfer hangs for ever (observed with the name "it's"; a wall-clock verdict is not
    allowed, so such names are not generated here); `;&|<>~` and `$HOME` could run commands or reach outside the
    sandbox once a blank has split the word. What remains still exercises word splitting, globbing and `$`."""
    return fs.names("hostile", long_names=True).filter(
        lambda s: len(s.encode()) <= 200 and not (set(s) & UNSAFE_TOP) and "$HOME" not in s and "${" not in s
    )


@prop.given("top-hostile", lambda: _cases("plain", top=_top_hostile()), quick=24, thorough=3000, loop="std", shrink=False, case_timeout=600)
async def check_top_hostile(case, rec):
    """Hostile *top-level* names (the paths StreamFlow itself puts on command lines). Names with
    shell-significant characters get their own kind prefix (one root cause: unquoted words)."""
    names = [case["src_name"]] + ([case["dst_name"]] if case["dst_name"] is not None else [])
    feats = set().union(*(fs.name_features(n) for n in names))
    rec.label(*(f"top:{f}" for f in sorted(feats)))
    bucket = None
    if feats & SHELL_SPECIAL:
        bucket = "C22:top-hostile:shell-special-path"
    elif "leading-dash" in feats:
        bucket = "C22:top-hostile:leading-dash-name"
    await _run_transfer(case, rec, bucket=bucket)


# =================================================================================================
# sequences and concurrency (second round: two transfers onto the same destination; transfers in flight together)

import contextlib  # noqa: E402
import contextvars  # noqa: E402
import hashlib  # noqa: E402


@contextlib.asynccontextmanager
async def _world(buf: int = 65536):
    """Fresh sandbox + context + the five locations (same set-up as _run_transfer)."""
    import shutil
    import tempfile

    from vf.engine.harness import make_context
    from vf.fakes.shellremote import deploy_all, deployment_config, get_location, local_config

    sandbox = os.path.realpath(tempfile.mkdtemp(prefix="vf-c22-"))
    old_cwd = os.getcwd()
    os.makedirs(os.path.join(sandbox, "cwd"))
    os.chdir(os.path.join(sandbox, "cwd"))
    ctx = make_context(workdir=sandbox)
    try:
        conns = await deploy_all(
            ctx,
            [
                local_config(),
                deployment_config("A", "vf-shell", locations=["a0", "a1"], transferBufferSize=buf),
                deployment_config("B", "vf-shell", locations=["b0"], transferBufferSize=buf),
                deployment_config("W", "vf-wrap", wraps="A", transferBufferSize=buf),
            ],
        )
        locs = {
            "L": await get_location(conns["__LOCAL__"]),
            "A0": await get_location(conns["A"], "a0"),
            "A1": await get_location(conns["A"], "a1"),
            "B0": await get_location(conns["B"], "b0"),
            "W0": await get_location(conns["W"], "a0-w"),
        }
        yield sandbox, ctx, conns, locs
    finally:
        try:
            await ctx.deployment_manager.undeploy_all()
            await ctx.close()
        finally:
            os.chdir(old_cwd)
            shutil.rmtree(sandbox, ignore_errors=True)


def _versioned_tree(v: int) -> dict:
    """Two versions of one tree: the same names, different contents AND different exec bits per file."""
    x = (1, 0, 2, 3) if v == 1 else (0, 1, 0, 1)  # v1: run.sh 0755, data 0644 ...; v2: run.sh 0644, data 0755 ...
    return {"alpha": "plain", "dangling": False, "entries": [
        {"k": "f", "n": "run.sh", "p": 0, "size": 700 + v, "seed": 10 + v, "c": "textnl", "x": x[0]},
        {"k": "d", "n": "sub", "p": 0},
        {"k": "f", "n": "tool", "p": 1, "size": 5000 * v, "seed": 20 + v, "c": "bin", "x": x[1]},
        {"k": "f", "n": "same-size", "p": 1, "size": 513, "seed": 30 + v, "c": "bin", "x": x[2]},
        {"k": "f", "n": "shrinks", "p": 0, "size": 3000 // v, "seed": 40 + v, "c": "text", "x": x[3]}]}


def gen_overwrite(tier):
    """v1 is transferred, then v2 (same basename, every file with other content and other exec bits) is
    transferred writable onto the same destination: every ordered pair of location kinds x {file, directory}
    (thorough); quick: every copy mechanism x {file, directory} with rotating routes + every pair once."""
    allc = [{"src": s, "dst": d, "stype": t} for s in KINDS for d in KINDS for t in ("file", "dir")]
    if tier != "quick":
        yield from allc
        return
    seen_mech, seen_pair = set(), set()
    for i, c in enumerate(allc):
        mech = _route_class({"src": c["src"], "dst": c["dst"], "writable": True}).split("-")[0]
        pair = (c["src"], c["dst"])
        want_type = "file" if (KINDS.index(c["src"]) + KINDS.index(c["dst"])) % 2 == 0 else "dir"
        if (mech, c["stype"]) not in seen_mech or (pair not in seen_pair and c["stype"] == want_type):
            seen_mech.add((mech, c["stype"]))
            seen_pair.add(pair)
            yield c


async def _register_and_transfer(ctx, src_loc, src_path, dst_loc, dst_path, writable):
    from streamflow.data.remotepath import StreamFlowPath

    dm = ctx.data_manager
    real = await StreamFlowPath(src_path, context=ctx, location=src_loc).resolve()
    dm.register_path(location=src_loc, path=str(real), relpath=real.name)
    sel = await dm.get_source_location(path=str(real), dst_deployment=dst_loc.deployment)
    await dm.transfer_data(src_location=sel.location, src_path=sel.path, dst_locations=[dst_loc], dst_path=dst_path, writable=writable)


@prop.enumerated("overwrite", gen_overwrite, loop="std", case_timeout=600, max_shards=8)
async def check_overwrite(case, rec):
    from streamflow.core.exception import WorkflowExecutionException

    mech = _route_class({"src": case["src"], "dst": case["dst"], "writable": True})
    tag = f"C22:overwrite:{mech}:"
    rec.label(f"route:{case['src']}->{case['dst']}", f"mechanism:{mech}", f"src:{case['stype']}")
    rec.nontrivial(True)
    async with _world() as (sandbox, ctx, conns, locs):
        s_root, d_root = os.path.join(sandbox, "s"), os.path.join(sandbox, "d")
        srcs = []
        for v in (1, 2):
            p = os.path.join(s_root, f"v{v}", "obj")
            os.makedirs(os.path.dirname(p))
            if case["stype"] == "dir":
                fs.materialize(_versioned_tree(v), p)
            else:
                with open(p, "wb") as fh:
                    fh.write(fs.content(900 * v, 50 + v, "bin"))
                os.chmod(p, 0o644 if v == 1 else 0o755)
            srcs.append(p)
        # a file is sent to the same (at first absent) path twice; a directory is sent twice into the same
        # existing directory (sending it to a path that exists as a directory means "inside it")
        os.makedirs(os.path.join(d_root, "into"))
        dst_path = os.path.join(d_root, "into") if case["stype"] == "dir" else os.path.join(d_root, "into", "obj")
        final = os.path.join(d_root, "into", "obj")
        src_loc, dst_loc = locs[case["src"]], locs[case["dst"]]
        for v, p in enumerate(srcs, 1):
            want = fs.snapshot(p, deref=True)
            try:
                await _register_and_transfer(ctx, src_loc, p, dst_loc, dst_path, True)
            except (WorkflowExecutionException, OSError) as e:
                raise Violation(f"{tag}raises:{type(e).__name__}", f"transfer {v}: {str(e)[:500]}") from None
            got = fs.snapshot(final, deref=True)
            if got != want:
                changed = [k for k in set(got) & set(want) if tuple(got[k]) != tuple(want[k])]
                sym = "structure" if set(got) != set(want) else "exec-bits" if all(got[k][2] == want[k][2] for k in changed) else "content"
                raise Violation(f"{tag}{'first' if v == 1 else 'second'}-transfer:{sym}",
                                f"{case}: after transfer {v} of 2 onto {final}\n" + fs.diff_snapshots(want, got))
            regs = [r for r in ctx.data_manager.get_data_locations(final, dst_loc.deployment, dst_loc.name) if r.path == final]
            if not regs or not all(r.available.is_set() for r in regs):
                raise Violation(f"{tag}not-registered-available", f"{case}: after transfer {v}: {[(r.path, r.available.is_set()) for r in regs]}")
        if fs.snapshot(srcs[0], deref=True) == fs.snapshot(srcs[1], deref=True):
            raise HarnessError("the two versions do not differ")


from vf.core import HarnessError  # noqa: E402

# ---- transfers in flight together ---------------------------------------------------------------------

_CUR = contextvars.ContextVar("vf_c22_actor", default=None)
_IN_GATE = contextvars.ContextVar("vf_c22_in_gate", default=False)


class _Flight:
    """Book-keeping of the actors (transfers, look-ups) of one case. An actor is *stalled* when it is done, waits
    at a copy gate, or waits for a DataLocation to become available; everything else it can wait for is
    subprocess I/O, which always progresses. All actors stalled = an exact quiescent point (no clock)."""

    def __init__(self):
        import asyncio

        self.asyncio = asyncio
        self.at_gate: dict = {}
        self.blocked: dict = {}
        self.done: dict = {}
        self.gates: dict = {}  # actor -> list of (future, description)
        self.changed = asyncio.Event()
        self.on_gate = None  # callback(actor, what, src) raising Violation
        self.failure = None

    def pulse(self):
        self.changed.set()

    def stalled(self, a) -> bool:
        return bool(self.done.get(a) or self.at_gate.get(a, 0) > 0 or self.blocked.get(a, 0) > 0)

    async def quiesce(self, actors):
        while not all(self.stalled(a) for a in actors):
            self.changed.clear()
            if all(self.stalled(a) for a in actors):
                break
            await self.changed.wait()

    def tracked_event(self, was_set: bool):
        flight, asyncio = self, self.asyncio

        class TrackedEvent(asyncio.Event):
            async def wait(self):
                if self.is_set():
                    return True
                a = _CUR.get()
                flight.blocked[a] = flight.blocked.get(a, 0) + 1
                flight.pulse()
                try:
                    return await super().wait()
                finally:
                    flight.blocked[a] -= 1
                    flight.pulse()

        ev = TrackedEvent()
        if was_set:
            ev.set()
        return ev

    def instrument(self, ctx, conns):
        """(1) every DataLocation that enters the registry gets a tracked `available` event; (2) the three copy
        entry points of every connector wait at a gate that the case's schedule opens: a copy may take
        arbitrarily long, so every such delay is a feasible real schedule."""
        mapper = ctx.data_manager.path_mapper
        orig_put = mapper.put
        flight = self

        def put(path, data_location, recursive=False):
            if not hasattr(data_location.available, "_vf_tracked"):
                ev = flight.tracked_event(data_location.available.is_set())
                ev._vf_tracked = True
                data_location.available = ev
            return orig_put(path, data_location, recursive)

        mapper.put = put

        def gate(conn, name):
            orig = getattr(conn, name)

            async def gated(*a, **k):
                if _IN_GATE.get() or _CUR.get() is None:
                    return await orig(*a, **k)
                actor = _CUR.get()
                tok = _IN_GATE.set(True)
                try:
                    fut = flight.asyncio.get_running_loop().create_future()
                    flight.gates.setdefault(actor, []).append(fut)
                    try:
                        if flight.on_gate:
                            flight.on_gate(actor, name, k.get("src", a[0] if a else None), k)
                    except Violation as v:
                        flight.failure = flight.failure or v
                    flight.at_gate[actor] = flight.at_gate.get(actor, 0) + 1
                    flight.pulse()
                    await fut
                    return await orig(*a, **k)
                finally:
                    _IN_GATE.reset(tok)

            setattr(conn, name, gated)

        for conn in conns.values():
            for name in ("copy_local_to_remote", "copy_remote_to_local", "copy_remote_to_remote"):
                gate(conn, name)

    def release_one(self, actor) -> None:
        fut = self.gates[actor].pop(0)
        self.at_gate[actor] -= 1
        fut.set_result(None)
        self.pulse()


def _h(*parts) -> int:
    return int.from_bytes(hashlib.blake2b(repr(parts).encode(), digest_size=8).digest(), "big")


def gen_concurrent(tier):
    """Histories of 2..3 transfers of ONE registered source that are in flight together, plus look-ups. The first
    block is a grid (for every destination kind X and a source on another host: a read-only and a writable
    transfer towards X, other paths, both started before any copy is allowed to proceed, released in both
    orders); the rest is a deterministic pseudo-random family: destinations drawn from a pool of two kinds (so
    that transfers meet on one location), start offsets, release picks, look-ups."""
    srcs = {"L": "A0", "A0": "L", "A1": "B0", "B0": "A1", "W0": "B0"}
    n = 0
    for x in KINDS:
        for order in ([0, 1], [1, 0]):
            for stype in ("dir", "file") if (tier != "quick" or order == [0, 1]) else ("dir",):
                yield {"id": n, "src": srcs[x], "stype": stype,
                       "transfers": [{"dst": x, "writable": False, "after": 0}, {"dst": x, "writable": True, "after": 0}],
                       "lookups": [{"dst": x, "after": 0}], "picks": order}
                n += 1
    for i in range(14 if tier == "quick" else 1500):
        pool = [KINDS[_h("p", i, 0) % 5], KINDS[_h("p", i, 1) % 5]]
        nt = 2 + _h("n", i) % 2
        yield {"id": n + i, "src": KINDS[_h("s", i) % 5], "stype": ("dir", "file", "link-dir")[_h("t", i) % 3],
               "transfers": [{"dst": pool[_h("d", i, j) % 2], "writable": bool(_h("w", i, j) % 2), "after": 0 if j == 0 else _h("a", i, j) % 3}
                             for j in range(nt)],
               "lookups": [{"dst": pool[_h("l", i, j) % 2], "after": _h("la", i, j) % 3} for j in range(_h("nl", i) % 3)],
               "picks": [_h("k", i, j) % 5 for j in range(8)]}


@prop.enumerated("concurrent", gen_concurrent, exhaustive=False, loop="std", case_timeout=600, max_shards=8)
async def check_concurrent(case, rec):
    import asyncio

    from streamflow.core.data import DataType
    from streamflow.core.exception import WorkflowExecutionException
    from streamflow.data.remotepath import StreamFlowPath

    tag = "C22:concurrent:"
    async with _world() as (sandbox, ctx, conns, locs):
        dm = ctx.data_manager
        s_root, d_root = os.path.join(sandbox, "s"), os.path.join(sandbox, "d")
        os.makedirs(s_root)
        os.makedirs(d_root)
        is_link = case["stype"].startswith("link")
        real = os.path.join(s_root, "real-obj" if is_link else "obj")
        if case["stype"] in ("dir", "link-dir"):
            fs.materialize(MATRIX_TREE, real)
        else:
            with open(real, "wb") as fh:
                fh.write(fs.content(MATRIX_FILE["size"], MATRIX_FILE["seed"], MATRIX_FILE["c"]))
            os.chmod(real, 0o755)
        src_path = os.path.join(s_root, "obj")
        if is_link:
            os.symlink("real-obj", src_path)
        want = fs.snapshot(real, deref=True)
        src_loc = locs[case["src"]]
        # registration as the engine does it (see _run_transfer)
        real_sf = await StreamFlowPath(src_path, context=ctx, location=src_loc).resolve()
        if str(real_sf) != src_path:
            dl = dm.register_path(location=src_loc, path=str(real_sf), relpath=real_sf.name)
            ll = dm.register_path(location=src_loc, path=src_path, relpath="obj", data_type=DataType.SYMBOLIC_LINK)
            dm.register_relation(dl, ll)
        else:
            dm.register_path(location=src_loc, path=src_path, relpath="obj")

        flight = _Flight()
        flight.instrument(ctx, conns)
        transfers = case["transfers"]
        finals = [os.path.join(d_root, f"t{j}", os.path.basename(real)) for j in range(len(transfers))]
        copy_started: set = set()

        def complete(path: str) -> bool:
            return fs.snapshot(path, deref=True) == want

        def check_available(where: str) -> None:
            """no destination may be reported available before its content is complete"""
            for j, t in enumerate(transfers):
                loc = locs[t["dst"]]
                for r in dm.get_data_locations(finals[j], loc.deployment, loc.name):
                    if r.path == finals[j] and r.available.is_set() and not complete(finals[j]):
                        raise Violation(tag + "available-before-complete",
                                        f"{where}: transfer {j} ({case['src']}->{t['dst']}, writable={t['writable']}) destination {finals[j]} is registered "
                                        f"and available, but its content is {'missing' if not os.path.lexists(finals[j]) else 'incomplete'} "
                                        f"(copy gate of that transfer {'not yet ' if ('t', j) not in copy_started else ''}opened)")

        def on_gate(actor, what, src, kwargs) -> None:
            if src is not None and not complete(str(src)):
                raise Violation(tag + "copies-from-incomplete-source",
                                f"{actor} is about to {what}(src={src!r}) but that path is {'missing' if not os.path.lexists(str(src)) else 'incomplete'}: "
                                f"an unfinished destination of another transfer was selected as source")
            check_available(f"when {actor} reached {what}")

        flight.on_gate = on_gate
        tasks: dict = {}
        errors: dict = {}

        async def transfer(j):
            _CUR.set(("t", j))
            t = transfers[j]
            dst_loc = locs[t["dst"]]
            sel = await dm.get_source_location(path=src_path, dst_deployment=dst_loc.deployment)
            if sel is None:
                raise Violation(tag + "no-source-location", f"transfer {j}")
            if not complete(sel.path):
                raise Violation(tag + "source-location-incomplete", f"transfer {j}: get_source_location returned {sel.path} on {sel.deployment}/{sel.name}, whose content is not complete")
            await dm.transfer_data(src_location=sel.location, src_path=sel.path, dst_locations=[dst_loc], dst_path=finals[j], writable=t["writable"])

        async def lookup(j):
            _CUR.set(("l", j))
            lk = case["lookups"][j]
            sel = await dm.get_source_location(path=src_path, dst_deployment=locs[lk["dst"]].deployment)
            if sel is not None and not (sel.available.is_set() and complete(sel.path)):
                raise Violation(tag + "source-location-incomplete", f"look-up {j} for deployment of {lk['dst']}: get_source_location returned {sel.path} on "
                                                                    f"{sel.deployment}/{sel.name} (available={sel.available.is_set()}), whose content is not complete")

        def start(actor, coro):
            task = asyncio.ensure_future(coro)
            tasks[actor] = task

            def fin(tk, actor=actor):
                flight.done[actor] = True
                flight.pulse()

            task.add_done_callback(fin)

        todo = [(("t", j), t["after"]) for j, t in enumerate(transfers)] + [(("l", j), lk["after"]) for j, lk in enumerate(case["lookups"])]
        releases = 0
        picks = list(case["picks"]) or [0]
        overlapped = False
        try:
            while True:
                for actor, after in list(todo):
                    if after <= releases:
                        todo.remove((actor, after))
                        start(actor, transfer(actor[1]) if actor[0] == "t" else lookup(actor[1]))
                await flight.quiesce(list(tasks))
                if flight.failure:
                    raise flight.failure
                for actor, task in tasks.items():
                    if task.done() and actor not in errors and task.exception() is not None:
                        errors[actor] = task.exception()
                        if isinstance(task.exception(), Violation):
                            raise task.exception()
                        if not isinstance(task.exception(), (WorkflowExecutionException, OSError)):
                            raise task.exception()
                        raise Violation(f"{tag}raises:{type(task.exception()).__name__}", f"{actor}: {str(task.exception())[:500]}")
                check_available(f"at quiescent point after {releases} releases")
                waiting = [a for a in tasks if flight.at_gate.get(a, 0) > 0]
                in_flight = [a for a in tasks if a[0] == "t" and not flight.done.get(a)]
                if len(in_flight) >= 2:
                    overlapped = True
                if not waiting:
                    if all(flight.done.get(a) for a in tasks) and not todo:
                        break
                    if todo:  # nothing can be released: start the next actor now
                        releases = min(after for _, after in todo)
                        continue
                    raise Violation(tag + "deadlock", f"no copy is waiting to proceed, yet {[a for a in tasks if not flight.done.get(a)]} "
                                                      f"wait for a data location to become available")
                actor = waiting[picks[releases % len(picks)] % len(waiting)]
                copy_started.add(actor)
                flight.release_one(actor)
                releases += 1
        finally:
            for a, futs in flight.gates.items():
                for f in futs:
                    if not f.done():
                        f.set_result(None)
            pend = [t for t in tasks.values() if not t.done()]
            for t in pend:
                t.cancel()
            if pend:
                await asyncio.wait(pend)
            for t in tasks.values():
                if t.done() and not t.cancelled():
                    t.exception()

        # final oracle: every destination exact, registered, available; source untouched
        for j, t in enumerate(transfers):
            loc = locs[t["dst"]]
            got = fs.snapshot(finals[j], deref=True)
            if got != want:
                raise Violation(tag + "final:" + ("structure" if set(got) != set(want) else "content"),
                                f"transfer {j} {case['src']}->{t['dst']} writable={t['writable']}: after all transfers returned\n" + fs.diff_snapshots(want, got))
            regs = [r for r in dm.get_data_locations(finals[j], loc.deployment, loc.name) if r.path == finals[j]]
            if not regs or not all(r.available.is_set() for r in regs):
                raise Violation(tag + "final:not-registered-available", f"transfer {j}: {[(r.path, r.available.is_set()) for r in regs]}")
            may_link = (not t["writable"]) and any(DOMAIN[t["dst"]] == DOMAIN[o] for o in [case["src"]] + [u["dst"] for u in transfers])
            if not may_link and os.path.islink(finals[j]):
                raise Violation(tag + "final:writable-is-link", f"transfer {j}: {finals[j]} -> {os.readlink(finals[j])}")
        if fs.snapshot(real, deref=True) != want:
            raise Violation(tag + "source-modified", "")
        same_loc = len({t["dst"] for t in transfers}) < len(transfers)
        rec.label(f"transfers:{len(transfers)}", f"lookups:{len(case['lookups'])}", f"src:{case['stype']}",
                  "meet-on-one-location" if same_loc else "distinct-locations", "overlapped" if overlapped else "sequential",
                  *(f"dst:{t['dst']}" for t in transfers))
        rec.nontrivial(overlapped)
